"""C05 — Lifting schemes route probability flow so that every unit's outflow is matched.

Correspondence: the Lean model `JF.Model.Lifting` (binary64 reading, driver `jf_lift`) vs the real
`InsideFirstLifting`, `OutsideFirstLifting`, `RatioLifting` (and their base class `Lifting`), with the
module attribute `random` of `jellyfysh.lifting.lifting` / `.ratio_lifting` replaced by an object whose
`uniform(a, b)` returns `a + (b - a) * u` for a harness-supplied fraction `u` (exactly CPython's formula).
Compared: the selected identifier / exception class of every evaluated move, and for stateful sessions the
private attributes (`_random_position`, `_sum_positive_lifting_rates`, `_active_recorded`, table length)
after every single call, bit for bit.

Oracle (on the implementation, for every generated table, scheme and active unit):
* pointwise: the selected unit has a strictly negative derivative, no exception, no dependence on history;
* flow balance: the selection is piecewise constant in the fraction `u`; its break points are located on the
  real code by bisection on the float grid, the lengths are summed with `fractions.Fraction`, and
  `sum_a q_a * |{u : select(a, u) = k}|` is compared with `|derivative_k|`.
"""
import itertools
import math
import struct
import types
from fractions import Fraction as Fr
from harness.drive import f2b

ID = "C05"
THEOREM_MODULES = ["JF.Props.C05", "JF.Props.C05Float"]
COMPONENTS = ["lift"]
ASSUMPTIONS = [
    "the fraction u = random.random() lies in [0, 1) (CPython's generator); u = 1.0 is not a draw",
    "pointwise claims and exact flow balance are demanded for tables whose entries sum to zero exactly (as rationals); "
    "for tables that only cancel up to rounding (the ones built by the event-handler glue from real potentials) the flow "
    "balance is demanded up to the table's own defect |sum| and the zero-derivative selections are only counted",
    "finite derivative values with exponents in [-300, 300] (no overflow/underflow of the partial sums)",
    "identifiers of the units in one table are pairwise distinct",
]
TRUSTED = [
    "Lean native Float (+ - * and comparisons are the hardware's IEEE-754 binary64 operations)",
    "the model of CPython 3.12's compensated builtin sum() (JF.Lifting.pySum) is validated against the running "
    "interpreter's sum() in this run",
    "the stand-in for random.uniform computes a + (b - a) * u like CPython's random.Random.uniform",
    "the model keeps _negative_lifting_rates/_associated_identifiers as one list of pairs (they are only appended to "
    "and cleared together in lifting.py); the session correspondence compares the list length after every call",
    "binary64_* theorems: the Lean kernel's evaluation of native Float operations (decide +kernel)",
]

SCHEMES = ("inside", "outside", "ratio")
U_MAX = 1.0 - 2.0 ** -53
E53 = Fr(1, 2 ** 53)
KNOWN_CAP = 12          # report every known-finding signature at most this often (the rest is only counted)


def fbits(x):
    return struct.unpack("<Q", struct.pack("<d", x))[0]


def bfloat(i):
    return struct.unpack("<d", struct.pack("<Q", i))[0]


def nxt(x, k):
    """k float steps from x (x >= 0), clamped to [0, U_MAX]"""
    i = fbits(x) + k
    if i < 0:
        return 0.0
    y = bfloat(i)
    return min(max(y, 0.0), U_MAX)


class Draw:
    """stands in for the module `random` inside lifting.py / ratio_lifting.py / the handler module"""

    def __init__(self):
        self.u = 0.0
        self.calls = 0

    def uniform(self, a, b):
        self.calls += 1
        return a + (b - a) * self.u


# ----------------------------------------------------------------------------------------------- tables

class Table:
    __slots__ = ("rates", "ids", "kind", "defect", "pos", "nonpos", "fr")

    def __init__(self, rates, ids, kind):
        self.rates = [float(r) for r in rates]
        self.ids = list(ids)
        self.kind = kind
        self.fr = [Fr(r) for r in self.rates]
        self.defect = sum(self.fr)
        self.pos = [i for i, r in enumerate(self.rates) if r > 0.0]
        self.nonpos = [i for i, r in enumerate(self.rates) if not r > 0.0]

    exact = property(lambda s: s.defect == 0)

    def case(self):
        return {"rates": [r.hex() for r in self.rates], "ids": self.ids, "kind": self.kind}

    def line(self):
        return " ".join(f"{f2b(r)} {i}" for r, i in zip(self.rates, self.ids))


def split_exact(x):
    """Fraction (dyadic) -> list of floats with exactly that sum"""
    out = []
    while x != 0:
        f = float(x)
        out.append(f)
        x -= Fr(f)
        if len(out) > 8:
            return None
    return out


def close_table(rng, vals):
    """append entries so that the exact sum is zero; insert them at random places"""
    rest = split_exact(-sum(Fr(v) for v in vals))
    if rest is None:
        return None
    vals = list(vals)
    for r in rest:
        vals.insert(rng.randint(0, len(vals)), r)
    return vals


def gen_rates(rng):
    """one list of rates with exact sum zero and at least one positive entry; returns (kind, rates)"""
    while True:
        c = rng.random()
        if c < 0.30:
            kind = "grid"          # multiples of one quantum: every partial sum is exact
            n = rng.choice([2, 2, 3, 3, 4, 5, 6, 8, 12])
            q = 2.0 ** rng.randint(-40, 40)
            m = rng.choice([1, 2, 3, 8, 1000, 2 ** 30])
            vals = [q * rng.randint(-m, m) for _ in range(n - 1)]
            if rng.random() < 0.5:
                vals += [0.0] * rng.randint(1, 2)
            if rng.random() < 0.2:
                vals += [-0.0]
        elif c < 0.55:
            kind = "wide"          # independent magnitudes over many binades: sums round
            n = rng.choice([2, 3, 4, 5, 6, 8, 11])
            spread = rng.choice([2, 8, 40, 70])
            e0 = rng.randint(-200, 200)
            vals = [rng.choice([-1, 1]) * rng.uniform(0.5, 1.0) * 2.0 ** (e0 + rng.randint(-spread, spread))
                    for _ in range(n - 1)]
            if rng.random() < 0.4:
                vals.insert(rng.randint(0, len(vals)), 0.0)
        elif c < 0.75:
            kind = "near-cancel"   # few big values of both signs, small residues
            big = rng.uniform(0.5, 4.0) * 2.0 ** rng.randint(-10, 10)
            vals = []
            for _ in range(rng.randint(1, 3)):
                b = big * rng.uniform(0.9, 1.1)
                vals += [b, -b * (1.0 + rng.choice([0.0, 2.0 ** -52, -2.0 ** -53, 1e-12, -1e-9, 3e-17]))]
            for _ in range(rng.randint(0, 3)):
                vals.append(rng.choice([-1, 1]) * big * 2.0 ** -rng.randint(40, 60) * rng.choice([1.0, 0.75, 0.375]))
            if rng.random() < 0.5:
                vals.append(0.0)
        elif c < 0.9:
            kind = "absorb"        # 1.0 next to sub-ulp quantities, zero-rate entries at the ends of the negative list
            eps = 2.0 ** -52
            k = rng.randint(1, 5)
            small = [rng.choice([0.375, 0.25, 0.75, 0.5, 1.0]) * eps for _ in range(k)]
            sc = 2.0 ** rng.randint(-20, 20)
            vals = [sc] + [s * sc for s in small] + [-sc] + [-s * sc for s in small]
            rng.shuffle(vals) if rng.random() < 0.5 else None
            for _ in range(rng.randint(0, 2)):
                vals.insert(rng.choice([0, len(vals), rng.randint(0, len(vals))]), 0.0)
        else:
            kind = "tiny"
            q = rng.choice([1.0, 0.1, 3.0, 2.0 ** -30, 1e10]) * rng.choice([1.0, rng.random() + 0.1])
            vals = rng.choice([[q, -q], [q, 0.0, -q], [0.0, q, -q], [-q, q], [q, -q, 0.0], [q, q, -q, -q],
                               [q, -q / 2, -q / 2], [q / 2, q / 2, -q], [-q, 0.0, q]])
        vals = [v for v in vals]
        if rng.random() < 0.5:
            rng.shuffle(vals)
        vals = close_table(rng, vals)
        if vals is None or len(vals) < 2 or len(vals) > 14:
            continue
        if not any(v > 0.0 for v in vals):
            continue
        return kind, vals


def gen_table(rng):
    kind, vals = gen_rates(rng)
    ids = rng.sample(range(3 * len(vals) + 2), len(vals))
    return Table(vals, ids, kind)


CORPUS = [
    # (name, rates, active, scheme, u, u2) -- the witnesses of known_findings/C05.json and plain cases
    ("inside-u0-zero-first", [1.0, 0.0, -1.0], 0, "inside", 0.0, 0.5),
    ("ratio-u0-zero-first", [1.0, 0.0, -1.0], 0, "ratio", 0.3, 0.0),
    ("outside-absorbed-zero-first", [1.0, 2.0 ** -60, 0.0, -1.0, -2.0 ** -60], 1, "outside", 0.5, 0.5),
    ("inside-fallthrough-zero-last", [1.0, 0.75 * 2.0 ** -52, -1.0, -0.375 * 2.0 ** -52, -0.375 * 2.0 ** -52, 0.0], 1,
     "inside", 0.9, 0.5),
    ("outside-fallthrough-zero-last", [1.0, 0.75 * 2.0 ** -52, -1.0, -0.375 * 2.0 ** -52, -0.375 * 2.0 ** -52, 0.0], 0,
     "outside", 0.0, 0.5),
    ("ratio-fallthrough-zero-last",
     [1.0] + [0.375 * 2.0 ** -52] * 4 + [-1.0] + [-0.375 * 2.0 ** -52] * 4 + [0.0], 0, "ratio", 0.5, U_MAX),
    ("plain-2", [1.0, -1.0], 0, "inside", 0.5, 0.5),
    ("plain-3+3", [0.25, 0.5, 0.25, -0.125, -0.5, -0.375], 1, "outside", 0.5, 0.5),
]


# ----------------------------------------------------------------------------------------------- the run

def run(ctx):
    import jellyfysh.lifting.lifting as ML
    import jellyfysh.lifting.ratio_lifting as MR
    from jellyfysh.lifting.inside_first_lifting import InsideFirstLifting
    from jellyfysh.lifting.outside_first_lifting import OutsideFirstLifting
    from jellyfysh.lifting.ratio_lifting import RatioLifting
    from jellyfysh.base.exceptions import LiftingSchemeError

    rng = ctx.rng
    classes = {"inside": InsideFirstLifting, "outside": OutsideFirstLifting, "ratio": RatioLifting}
    d1, d2 = Draw(), Draw()
    saved = (ML.random, MR.random)
    ML.random, MR.random = d1, d2
    try:
        _run(ctx, rng, classes, d1, d2, LiftingSchemeError)
    finally:
        ML.random, MR.random = saved


def _run(ctx, rng, classes, d1, d2, LiftingSchemeError):
    ctx.rule = ("seeded generator of derivative tables with exact rational sum zero (grid / wide exponent spread / "
                "near-cancelling / sub-ulp absorption / tiny; zeros and -0.0 included; random insertion order, all orders "
                "for small tables) plus tables built by the real event-handler glue; every positive unit is taken as the "
                "active one; fractions: 0, 1-2^-53, random, and both float neighbours of every break point of the real "
                "selection function.  A case class = (scheme, table kind, #positive, #non-positive, position of the draw: "
                "first/inner/last piece, zero entries present, rounding in the partial sums)")
    objs = {s: classes[s]() for s in SCHEMES}
    lines, expect, cases = [], [], []      # correspondence: stateless `choose` lines
    known_seen = {}

    def impl_choose(sch, t, a, u, u2, fresh=False):
        obj = classes[sch]() if fresh else objs[sch]
        d1.u, d2.u = u, u2
        try:
            obj.reset()
            for i, r in enumerate(t.rates):
                obj.insert(r, (t.ids[i],), i == a)
            return "id:%d" % obj.get_active_identifier()[0]
        except AssertionError:
            return "err:AssertionError"
        except LiftingSchemeError:
            return "err:LiftingSchemeError"
        except IndexError:
            return "err:IndexError"

    def fail_capped(sig, case, what):
        """every signature is reported at most KNOWN_CAP times (the framework keeps 500 failures in total; a flood of
        one signature must not hide another one), the rest is counted"""
        known_seen[sig] = known_seen.get(sig, 0) + 1
        if known_seen[sig] <= KNOWN_CAP:
            ctx.fail(sig, case, what)
        else:
            ctx.count("oracle-failure(not re-reported):" + sig)

    def pointwise(sch, t, a, u, u2, res):
        """the selected unit must have a strictly negative derivative"""
        case = dict(t.case(), scheme=sch, active=a, u=u.hex(), u2=u2.hex(), result=res)
        if not res.startswith("id:"):
            fail_capped(f"{sch}:exception:{res[4:]}", case, f"valid table, active unit recorded, but the scheme raised {res}")
            return
        ident = int(res[3:])
        if ident not in t.ids:
            fail_capped(f"{sch}:unknown-identifier-returned", case, "returned identifier is not in the table")
            return
        j = t.ids.index(ident)
        r = t.rates[j]
        if r < 0.0:
            return
        if r > 0.0:
            fail_capped(f"{sch}:positive-derivative-unit-selected", case, f"selected unit {ident} has derivative {r!r} > 0")
            return
        first, last = t.nonpos[0], t.nonpos[-1]
        if j == first and j != last:
            sig = f"{sch}:position<=0:zero-derivative-first-entry-selected"
        elif j == last and j != first:
            sig = f"{sch}:fall-through:zero-derivative-last-entry-selected"
        else:
            sig = f"{sch}:zero-derivative-unit-selected:other"
        if t.exact:
            fail_capped(sig, case, f"selected unit {ident} has derivative {r!r} (not negative)")
        else:
            ctx.count("inexact-table:" + sig)

    def evaluate(sch, t, a, u, u2, log=True):
        res = impl_choose(sch, t, a, u, u2)
        pointwise(sch, t, a, u, u2, res)
        if log:
            lines.append(f"choose {sch} {a} {f2b(u)} {f2b(u2)} {t.line()}")
            expect.append(res)
            cases.append((sch, t, a, u, u2))
        return res

    budget = {"eval": 0}

    def measure(sch, t, a, ufix, logp):
        """pieces of the real selection function in the varying fraction; returns {result: Fraction length}, info"""
        fr = t.fr
        negs = [-fr[i] for i in t.nonpos]
        cum = list(itertools.accumulate(negs))
        s_neg = cum[-1] if cum else Fr(0)
        p_a = sum(fr[i] for i in t.pos if i < a)
        q_a = fr[a]
        if sch == "inside":
            guess = [(c - p_a) / q_a for c in cum]
        elif sch == "outside":
            guess = [(s_neg - p_a - c) / q_a for c in cum]
        else:
            guess = [c / s_neg for c in cum] if s_neg > 0 else []

        def f(v):
            budget["eval"] += 1
            log = rng.random() < logp
            if sch == "ratio":
                return evaluate(sch, t, a, ufix, v, log)
            return evaluate(sch, t, a, v, ufix, log)

        pts = {0.0, U_MAX, rng.random(), rng.random()}
        pts.add(rng.random() * 2.0 ** -rng.randint(1, 60))
        for g in guess:
            if 0 <= g <= 1:
                gf = min(float(g), U_MAX)
                w = rng.choice([1, 2, 3, 16])
                pts.add(nxt(gf, -w))
                pts.add(nxt(gf, w))
        pts = sorted(pts)
        vals = [f(p) for p in pts]
        pieces = [(pts[0], vals[0])]

        def solve(lo, vlo, hi, vhi):
            if vlo == vhi:
                return
            bl, bh = fbits(lo), fbits(hi)
            if bh - bl <= 1:
                pieces.append((hi, vhi))
                return
            mid = bfloat((bl + bh) // 2)
            vm = f(mid)
            solve(lo, vlo, mid, vm)
            solve(mid, vm, hi, vhi)

        for i in range(len(pts) - 1):
            solve(pts[i], vals[i], pts[i + 1], vals[i + 1])
        length = {}
        for i, (s, v) in enumerate(pieces):
            e = Fr(pieces[i + 1][0]) if i + 1 < len(pieces) else Fr(1)
            length[v] = length.get(v, Fr(0)) + (e - Fr(s))
        # the float neighbours of every break point go to the correspondence
        for s, _ in pieces[1:]:
            for v in (nxt(s, -1), s):
                if sch == "ratio":
                    evaluate(sch, t, a, ufix, v)
                else:
                    evaluate(sch, t, a, v, ufix)
        return length, len(pieces)

    def check_table(t, logp=1.0, schemes=SCHEMES):
        n = len(t.rates)
        s_abs = max(sum(f for f in t.fr if f > 0), -sum(f for f in t.fr if f < 0))
        tol = 4 * n * (n + 2) * E53 * s_abs + abs(t.defect) + Fr(1, 2 ** 1060)
        rounding = (sum(t.rates[i] for i in t.pos) != float(sum(t.fr[i] for i in t.pos)) or
                    any(float(c) != c for c in itertools.accumulate(-t.fr[i] for i in t.nonpos)))
        for sch in schemes:
            flow = {}
            npieces = 0
            for a in t.pos:
                ufix = rng.random()
                length, k = measure(sch, t, a, ufix, logp)
                npieces += k
                for res, ln in length.items():
                    flow[res] = flow.get(res, Fr(0)) + t.fr[a] * ln
                ctx.cls((sch, t.kind, min(len(t.pos), 4), min(len(t.nonpos), 4), min(k, 4),
                         any(t.rates[i] == 0.0 for i in t.nonpos), rounding))
            ctx.count(f"tables:{sch}:{t.kind}")
            ctx.count(f"pieces-per-table:{min(npieces, 12)}")
            # global balance: inflow of every non-positive unit equals |its derivative|
            for j in t.nonpos:
                got = flow.get("id:%d" % t.ids[j], Fr(0))
                want = -t.fr[j]
                if abs(got - want) > tol:
                    fail_capped(f"{sch}:flow-imbalance", dict(t.case(), scheme=sch, unit_index=j),
                             f"lifted flow into unit {t.ids[j]} is {float(got)!r}, |derivative| is {float(want)!r} "
                             f"(difference {float(got - want)!r}, tolerance {float(tol)!r})")
            # history independence: fresh object vs re-used object after another table
            a = rng.choice(t.pos)
            u, u2 = rng.random(), rng.random()
            r1 = impl_choose(sch, t, a, u, u2)
            r2 = impl_choose(sch, t, a, u, u2, fresh=True)
            if r1 != r2:
                fail_capped(f"{sch}:history-dependence", dict(t.case(), scheme=sch, active=a, u=u.hex(), u2=u2.hex()),
                         f"re-used object gave {r1}, fresh object gave {r2}")
            if sch == "ratio" and len(t.pos) > 1:
                # the ratio choice is a function of the table and its own draw only
                b = rng.choice([i for i in t.pos if i != a])
                r3 = impl_choose(sch, t, b, rng.random(), u2)
                if r3 != r1:
                    fail_capped("ratio:depends-on-active-unit-or-first-draw",
                             dict(t.case(), active=[a, b], u2=u2.hex()), f"{r1} vs {r3}")

    # ---- 0. self-check: the model's sum() against the interpreter's
    sum_cases = [[1.0, 1e-17, 1e-17], [1e16, 1.0, -1e16], [-0.0], [-0.0, -0.0], [1e308, 1e308], [0.1] * 10, [],
                 [1.0, 2.0 ** -53, 2.0 ** -53], [3.0, -3.0, 5e-324]]
    for _ in range(ctx.n(1500, 20000)):
        k = rng.randint(0, 9)
        e0 = rng.randint(-100, 100)
        sum_cases.append([rng.choice([-1, 1, 1]) * rng.random() * 2.0 ** (e0 + rng.randint(-60, 60)) for _ in range(k)])
    rep = ctx.model("lift", ["sum " + " ".join(f2b(x) for x in c) for c in sum_cases])
    for c, rl in zip(sum_cases, rep):
        if f2b(sum(c)) != rl:
            ctx.disagree("lift.pySum (model of builtin sum vs interpreter)", {"xs": [x.hex() for x in c]}, f2b(sum(c)), rl)
    ctx.count("selfcheck:sum", len(sum_cases))

    # ---- 1. corpus (witnesses of the known findings first)
    for name, rates, a, sch, u, u2 in CORPUS:
        t = Table(rates, list(range(10, 10 + len(rates))), "corpus:" + name)
        assert t.exact, name
        evaluate(sch, t, a, u, u2)
        check_table(t)

    # ---- 2. all insertion orders of small multisets
    small = [[1.0, -1.0, 0.0], [2.0, 1.0, -3.0], [1.0, 1.0, -1.0, -1.0], [3.0, -1.0, -2.0, 0.0],
             [1.0, 2.0 ** -53, -1.0, -2.0 ** -53], [0.5, 0.25, 0.25, -0.75, -0.25]]
    if not ctx.quick:
        small += [[1.0, 2.0, 3.0, -1.0, -2.0, -3.0], [1.0, 2.0 ** -52, 2.0 ** -53, -1.0, -2.0 ** -52, -2.0 ** -53],
                  [4.0, -1.0, -1.0, -1.0, -1.0, 0.0], [1.0, 1.0, 1.0, 1.0, -4.0, 0.0]]
    for ms in small:
        for perm in sorted(set(itertools.permutations(ms))):
            check_table(Table(perm, list(range(len(perm), 0, -1)), "all-orders"), logp=0.25)

    # ---- 3. seeded random tables
    n_tables = ctx.n(1200, 40000)
    for k in range(n_tables):
        check_table(gen_table(rng), logp=1.0 if ctx.quick else 0.3)
    ctx.count("implementation-evaluations-for-bisection", budget["eval"])

    # ---- 4. tables built by the real glue code
    glue(ctx, rng, classes, d1, d2, check_table, lines, expect, cases, fail_capped)

    # ---- 5. correspondence of the stateless moves
    rep = ctx.model("lift", lines)
    for ln, ex, rl, cs in zip(lines, expect, rep, cases):
        if ex != rl:
            sch, t, a, u, u2 = cs
            ctx.disagree(f"lift.choose[{sch}]", dict(t.case(), scheme=sch, active=a, u=u.hex(), u2=u2.hex()), ex, rl)
            # probe the neighbourhood with the oracle
            for du in (-2, -1, 1, 2):
                if sch == "ratio":
                    pointwise(sch, t, a, u, nxt(u2, du), impl_choose(sch, t, a, u, nxt(u2, du)))
                else:
                    pointwise(sch, t, a, nxt(u, du), u2, impl_choose(sch, t, a, nxt(u, du), u2))
    for ln, ex, rl in list(zip(lines, expect, rep))[:4]:
        ctx.sample({"request": ln, "impl": ex, "model": rl})
    ctx.count("correspondence:choose-lines", len(lines))
    ctx.evaluations = len(lines)

    # ---- 6. stateful sessions: every call compared, including invalid histories
    sessions(ctx, rng, classes, d1, d2, LiftingSchemeError)


def state_of(obj):
    try:
        return "%s %s %d %d" % (f2b(obj._random_position), f2b(obj._sum_positive_lifting_rates),
                                1 if obj._active_recorded else 0, len(obj._negative_lifting_rates))
    except AttributeError:
        return None


def sessions(ctx, rng, classes, d1, d2, LiftingSchemeError):
    n_sess = ctx.n(600, 8000)
    compared = 0
    state_visible = True
    for sch in SCHEMES:
        obj = classes[sch]()
        lines, impl = [], []
        for s in range(n_sess // 3):
            mode = rng.random()
            ops = []
            if mode < 0.6:
                t = gen_table(rng)
                a = rng.choice(t.pos)
                if rng.random() < 0.9:
                    ops.append(("reset",))
                ops += [("ins", r, i, k == a) for k, (r, i) in enumerate(zip(t.rates, t.ids))]
                ops += [("get",)] * rng.choice([1, 1, 1, 2])
            else:   # free histories: get before an active unit, active unit with non-positive rate, two actives, no reset
                for _ in range(rng.randint(1, 9)):
                    c = rng.random()
                    if c < 0.12:
                        ops.append(("reset",))
                    elif c < 0.3:
                        ops.append(("get",))
                    else:
                        r = rng.choice([0.0, -0.0, 1.0, -1.0, rng.uniform(-2, 2), rng.uniform(-1, 1) * 2.0 ** -rng.randint(0, 60)])
                        ops.append(("ins", r, rng.randint(0, 50), rng.random() < 0.3))
            for op in ops:
                u = rng.choice([0.0, U_MAX, rng.random(), rng.random()])
                d1.u = d2.u = u
                try:
                    if op[0] == "reset":
                        lines.append("reset")
                        obj.reset()
                        res = ""
                    elif op[0] == "ins":
                        lines.append(f"ins {f2b(op[1])} {op[2]} {1 if op[3] else 0} {f2b(u)}")
                        obj.insert(op[1], (op[2],), op[3])
                        res = ""
                    else:
                        lines.append(f"get {sch} {f2b(u)}")
                        res = "id:%d " % obj.get_active_identifier()[0]
                    ctx.count("session-op:" + op[0])
                except AssertionError:
                    res = "err:AssertionError"
                    ctx.count("session-op:" + op[0] + ":AssertionError")
                except LiftingSchemeError:
                    res = "err:LiftingSchemeError "
                    ctx.count("session-op:get:LiftingSchemeError")
                except IndexError:
                    res = "err:IndexError "
                    ctx.count("session-op:get:IndexError")
                st = state_of(obj)
                if st is None:
                    state_visible = False
                impl.append((res, st))
        rep = ctx.model("lift", lines)
        for ln, (res, st), rl in zip(lines, impl, rep):
            compared += 1
            if res == "err:AssertionError":
                ok = rl == res
                want = res
            elif st is None:       # private attributes renamed: compare the visible outcome only
                ok = rl.startswith(res) if res else True
                want = res + "<state not visible>"
            else:
                want = res + st
                ok = rl == want
            if not ok:
                ctx.disagree(f"lift.session[{sch}]", {"line": ln}, want, rl)
        for ln, (res, st), rl in list(zip(lines, impl, rep))[:1]:
            ctx.sample({"request": ln, "impl": res + (st or ""), "model": rl})
    ctx.count("correspondence:session-lines", compared)
    ctx.evaluations += compared
    if not state_visible:
        ctx.notes.append("private attributes of Lifting not readable: session correspondence compared outcomes only")


def glue(ctx, rng, classes, d1, d2, check_table, lines, expect, cases, fail_capped):
    """tables built by the real event-handler code:
    (a) `FixedSeparationsEventHandlerWithPiecewiseConstantBoundingPotential.send_out_state` (real loop, real
        BendingPotential, real `_get_separations`) run on a duck-typed `self`;
    (b) `TwoCompositeObjectBoundingPotentialEventHandler._fill_lifting` with a real InversePowerPotential."""
    import jellyfysh.setting as setting
    from jellyfysh.setting import hypercubic_setting
    import jellyfysh.event_handler.fixed_separations_event_handler_with_piecewise_constant_bounding_potential as MF
    import jellyfysh.event_handler.abstracts.event_handler_with_bounding_potential as MB
    from jellyfysh.potential.bending_potential import BendingPotential
    from jellyfysh.potential.inverse_power_potential import InversePowerPotential
    from jellyfysh.base.unit import Unit

    class Recorder:
        """forwards to the real lifting object and records the table the glue inserts"""

        def __init__(self, inner):
            self.inner, self.table = inner, []

        def reset(self):
            self.table = []
            self.inner.reset()

        def insert(self, rate, ident, active):
            self.table.append((rate, ident, active))
            self.inner.insert(rate, ident, active)

        def get_active_identifier(self):
            return self.inner.get_active_identifier()

    setting.reset()
    hypercubic_setting.HypercubicSetting(beta=1.0, dimension=3, system_length=1.0)
    d3 = Draw()
    saved = MF.random
    MF.random = d3
    H = MF.FixedSeparationsEventHandlerWithPiecewiseConstantBoundingPotential
    T = MB.TwoCompositeObjectBoundingPotentialEventHandler
    try:
        n_glue = ctx.n(150, 3000)
        done = 0
        for it in range(n_glue * 6):
            if done >= n_glue:
                break
            sch = rng.choice(SCHEMES)
            rec = Recorder(classes[sch]())
            u, u2 = rng.choice([0.0, U_MAX, rng.random(), rng.random()]), rng.random()
            d1.u, d2.u = u, u2
            if it % 2 == 0:
                # ---------- (a) bending triple through send_out_state
                pot = BendingPotential(equilibrium_angle=1.9764, prefactor=rng.choice([1.0, 75.9]))
                base = [rng.random() for _ in range(3)]
                posn = [[(b + rng.uniform(-0.1, 0.1)) % 1.0 for b in base] for _ in range(3)]
                act = rng.randrange(3)
                vel = [0.0, 0.0, 0.0]
                vel[rng.randrange(3)] = rng.choice([1.0, 0.5, 2.0])
                idents = [(rng.randint(0, 5), k) for k in range(3)]
                exchanged = []
                stub = types.SimpleNamespace(
                    _separations=[1, 0, 1, 2], _potential=pot, _lifting=rec,
                    _leaf_units=[Unit(idents[k], posn[k]) for k in range(3)],
                    _active_leaf_unit_index=act, _leaf_cnodes=[0, 1, 2], _state="state",
                    _get_charges=lambda: (),
                    _exchange_velocity=lambda x, y: exchanged.append((x, y)))
                stub._active_leaf_unit = types.SimpleNamespace(velocity=vel)
                stub._get_separations = lambda p: H._get_separations(stub, p)
                try:
                    derivs = pot.derivative(vel, *stub._get_separations(posn))
                except (ZeroDivisionError, ValueError):
                    continue
                if not derivs[act] > 0:
                    continue
                stub._event_rate_from_piecewise_constant_bounding_potential = lambda: derivs[act] * 2.0
                d3.u = 0.25          # confirm the event: uniform(0, 2q) = q/2 < q
                try:
                    out = H.send_out_state(stub)
                    res = ("id:%d" % idents.index(idents[exchanged[0][1]])) if exchanged else "no-exchange"
                except AssertionError:
                    res = "err:AssertionError"
                except IndexError:
                    res = "err:IndexError"
                tab = rec.table
                if [r for r, _, _ in tab] != list(derivs) or [i for _, i, _ in tab] != idents or \
                        [f for _, _, f in tab] != [k == act for k in range(3)]:
                    fail_capped("glue:fixed-separations:table-not-the-derivative-table",
                             {"derivs": [x.hex() for x in derivs], "active": act},
                             f"inserted {tab!r}")
                t = Table(list(derivs), [0, 1, 2], "glue:bending")
                kind = "bending"
            else:
                # ---------- (b) two composite objects through _fill_lifting
                nl, nt = rng.choice([(2, 2), (3, 3), (2, 3), (3, 2)])
                pot = InversePowerPotential(power=rng.choice([1.0, 2.0, 6.0]), prefactor=rng.choice([1.0, -1.0, 2.5]))
                c1 = [rng.random() for _ in range(3)]
                c2 = [(c + rng.uniform(0.15, 0.45) * rng.choice([-1, 1])) % 1.0 for c in c1]
                roots = rng.sample(range(6), 2)
                local = [Unit((roots[0], k), [(c + rng.uniform(-0.05, 0.05)) % 1.0 for c in c1]) for k in range(nl)]
                target = [Unit((roots[1], k), [(c + rng.uniform(-0.05, 0.05)) % 1.0 for c in c2]) for k in range(nt)]
                act = rng.randrange(nl)
                vel = [0.0, 0.0, 0.0]
                vel[rng.randrange(3)] = rng.choice([1.0, 1.0, 2.5, 0.37])      # every derivative of the table carries the speed
                local[act].velocity = vel
                sep = setting.periodic_boundaries.separation_vector
                tder = [0.0] * nt
                fd = 0.0
                for k, tu in enumerate(target):
                    pd = pot.derivative(vel, sep(local[act].position, tu.position), 1.0, 1.0)
                    fd += pd
                    tder[k] -= pd
                if not fd > 0:
                    continue
                stub = types.SimpleNamespace(_lifting=rec, _active_leaf_unit=local[act], _potential=pot,
                                             _potential_charges=lambda a_, b_: (1.0, 1.0))
                T._fill_lifting(stub, local, target, max(0.0, fd), tder)
                tab = rec.table
                order = (local + target) if roots[0] < roots[1] else (target + local)
                if [i for _, i, _ in tab] != [x.identifier for x in order] or \
                        [f for _, _, f in tab] != [x is local[act] for x in order]:
                    fail_capped("glue:_fill_lifting:identifiers-or-active-flag", {"n": [nl, nt], "active": act}, f"inserted {tab!r}")
                mag = sum(abs(Fr(r)) for r, _, _ in tab)
                if abs(sum(Fr(r) for r, _, _ in tab)) > 16 * (nl * nt + 2) * E53 * mag * (nl + nt):
                    fail_capped("glue:_fill_lifting:table-does-not-sum-to-zero",
                             {"rates": [r.hex() for r, _, _ in tab]}, "derivative table built by the glue does not cancel")
                # every entry of the table is the derivative of the factor energy for that unit when the active velocity is applied
                # to it (independent recomputation from the pair potential)
                want = {}
                for lu in local:
                    for tu in target:
                        pd = pot.derivative(vel, sep(lu.position, tu.position), 1.0, 1.0)
                        want[lu.identifier] = want.get(lu.identifier, 0.0) + pd
                        want[tu.identifier] = want.get(tu.identifier, 0.0) - pd
                scale = max(abs(x) for x in want.values()) or 1.0
                for r, i, _ in tab:
                    if abs(r - want[i]) > 1e-9 * scale:
                        fail_capped("glue:_fill_lifting:entry-is-not-the-factor-derivative-of-its-unit",
                                    {"n": [nl, nt], "active": act, "velocity": vel, "unit": list(i), "entry": r, "expected": want[i]},
                                    "an entry of the derivative table handed to the lifting scheme is not the derivative of the factor "
                                    "for that unit")
                        break
                idents = [i for _, i, _ in tab]
                try:
                    res = "id:%d" % idents.index(rec.get_active_identifier())
                except AssertionError:
                    res = "err:AssertionError"
                except IndexError:
                    res = "err:IndexError"
                t = Table([r for r, _, _ in tab], list(range(len(tab))), "glue:two-composite")
                act = [f for _, _, f in tab].index(True)
                kind = "two-composite"
            done += 1
            ctx.count("glue:" + kind)
            # the move the real glue performed, against the model
            lines.append(f"choose {sch} {act} {f2b(u)} {f2b(u2)} {t.line()}")
            expect.append(res)
            cases.append((sch, t, act, u, u2))
            if len(t.pos) and len(t.nonpos):
                check_table(t, logp=0.5, schemes=(sch,))
    finally:
        MF.random = saved
        setting.reset()


def replay(ctx, rep):
    """re-run one recorded case (`case` of a replay file / witness of known_findings/C05.json) on the implementation
    and on the model"""
    import jellyfysh.lifting.lifting as ML
    import jellyfysh.lifting.ratio_lifting as MR
    from jellyfysh.lifting.inside_first_lifting import InsideFirstLifting
    from jellyfysh.lifting.outside_first_lifting import OutsideFirstLifting
    from jellyfysh.lifting.ratio_lifting import RatioLifting
    case = rep.get("case") or rep.get("witness") or rep
    if "rates" not in case or "scheme" not in case:
        return {"note": "this replay file names a disagreement/proof problem, not a single move", "file": rep}
    rates = [float.fromhex(r) for r in case["rates"]]
    ids = case.get("ids") or list(range(10, 10 + len(rates)))
    sch = case["scheme"]
    a = case.get("active", 0)
    a = a[0] if isinstance(a, list) else a
    u = float.fromhex(case.get("u", "0x0p0"))
    u2 = float.fromhex(case.get("u2", "0x1p-1"))
    cls = {"inside": InsideFirstLifting, "outside": OutsideFirstLifting, "ratio": RatioLifting}[sch]
    d1, d2 = Draw(), Draw()
    d1.u, d2.u = u, u2
    saved = (ML.random, MR.random)
    ML.random, MR.random = d1, d2
    try:
        obj = cls()
        try:
            for i, r in enumerate(rates):
                obj.insert(r, (ids[i],), i == a)
            res = "id:%d" % obj.get_active_identifier()[0]
        except Exception as e:  # noqa
            res = "err:" + type(e).__name__
    finally:
        ML.random, MR.random = saved
    t = Table(rates, ids, "replay")
    model = ctx.model("lift", [f"choose {sch} {a} {f2b(u)} {f2b(u2)} {t.line()}"])[0]
    sel = None
    if res.startswith("id:") and int(res[3:]) in ids:
        sel = rates[ids.index(int(res[3:]))]
    return {"implementation": res, "model": model, "derivative_of_selected_unit": sel,
            "table_sums_to_zero_exactly": t.exact}
