"""C11 — The cell-occupancy bookkeeping always mirrors the true particle positions.

Three layers, all evaluated on the implementation in the scratch copy of /repo:

(a) unit level   random configurations (abstract cell tables and real CuboidPeriodicCells, caps 1..3 and unbounded,
                 charge filters incl. -0.0 charges, cell levels 1/2, units exactly on cell boundaries) and random
                 sequences of active-unit changes against the real `SingleActiveCellOccupancy`; after every call the
                 complete public answer (`__getitem__` of every cell, `yield_surplus`, `yield_active_cells`) and the
                 private surplus dictionary (if present) are compared with the Lean model `JF.Model.Occupancy`
                 — as multisets per cell: the model reproduces list / dict order too, but nothing in the property
                 depends on it, so an order-only refactoring is not reported; error outcomes (KeyError /
                 ValueError / IndexError, incl. the dead surplus->occupant move armed by white-box poking) are
                 compared as tokens.
                 The property oracle (from-scratch recount from the true positions) is evaluated after every call
                 of a history that satisfies the property's premises.
(b) boundary     the real `CellBoundaryEventHandler` on real `CuboidPeriodicCells`, both directions of motion and through
                 the periodic boundary, vs. the model's `timeToBoundary` bit for bit; oracle: after the event the unit is
                 in the neighbour cell in the direction of motion.
(c) run level    real cell-based simulations (all six shipped cell_bounded / cell_veto configurations plus generated
                 ones) in subprocesses (`harness/c11_run.py`); after *every* `update` of every occupancy the oracle is
                 evaluated against the physical state, incl. the history clause (the active unit leaves its recorded
                 cell only by a cell-boundary event, then to a neighbour); the recorded call sequence is replayed
                 through the model and compared answer by answer.
"""
import json, math, os, subprocess, tempfile, concurrent.futures
from harness.drive import f2b, b2f

ID = "C11"
THEOREM_MODULES = ["JF.Props.C11", "JF.Props.SystemLinks", "JF.Props.SystemInv", "JF.Props.SystemInv3Occ"]
NEEDS_GEN = True
COMPONENTS = ["occ"]
ASSUMPTIONS = [
    "exactly one active unit on the cell level per update call (the class asserts it); positions lie inside the box "
    "(position_to_cell asserts it) — the model receives the cell index of a position from the real cell system",
    "positions are in [0, L) in every coordinate (the state handler's invariant, C15)",
    "premises of the history theorem (checked by the run-level oracle on every leg, not assumed there): non-active "
    "units do not move; when the identity of the active unit changes, the previous one is still in its recorded cell",
    "real runs use the event handlers as shipped, which support maximum_number_occupants = 1 only; other caps are "
    "covered at the unit level (and in runs until an unrelated event handler rejects the in-state)",
    "negative direction (stays_in_cell_neg / active_unit_stays_in_recorded_cell_neg): 'no representable scalar lies between the lower "
    "neighbour's cell_max and the cell's lower edge' is a hypothesis here; it is C16's `cells_abut` / `last_cell_reaches_top` "
    "(rounding-abstract) and is evaluated on the real cell systems by C16's oracle (adjacent floats) and by this check's run oracle",
]
TRUSTED = ["harness/c11_run.py (observation of real runs by wrapping methods at run time, nothing in the tree is edited)",
           "the numbering of identifiers and cells used to talk to the model (first-seen order / yield_cells order)"]

CONFIG_DIR = "jellyfysh/config_files/2018_JCP_149_064113"
SHIPPED = ["coulomb_atoms/cell_veto.ini", "coulomb_atoms/cell_bounded.ini", "dipoles/cell_veto.ini",
           "dipoles/cell_bounded.ini", "water/coulomb_cell_veto_lj_cell_veto.ini",
           "water/coulomb_power_bounded_lj_cell_bounded.ini", "water/coulomb_cell_veto_lj_inverted.ini"]
# shipped configurations with a cell-occupancy system that are run as they are only (no generated variants)
SHIPPED_ONLY = ["../hard_disk_dipoles/hard_disk_dipoles_cells.ini"]


def nxt(x, k=1):
    for _ in range(abs(k)):
        x = math.nextafter(x, math.inf if k > 0 else -math.inf)
    return x


def canon(d):
    """order-insensitive form of a dump: the order inside an occupant / surplus list and the order of the surplus
    dictionary are implementation detail (nothing in the property depends on them), so both sides are compared as
    multisets per cell"""
    if not d.startswith("O="):
        return d
    try:
        o, s, y, a = d.split(" ")
        def lst(x):
            return ",".join(sorted(x.split(","), key=int)) if x else ""
        def entries(x):
            es = [e.split(":") for e in x.split(";")] if x else []
            return ";".join("%s:%s" % (c, lst(l)) for c, l in sorted(es, key=lambda e: int(e[0])))
        s_ = "S=?" if s == "S=?" else "S=" + entries(s[2:])
        return "O=%s %s Y=%s %s" % (entries(o[2:]), s_, lst(y[2:]), a)
    except Exception:
        return d


def agree(impl, model):
    a, b = canon(impl), canon(model)
    if "S=?" in a:          # the private surplus dictionary is not available: compare the public answers only
        b = " ".join("S=?" if t.startswith("S=") else t for t in b.split(" "))
    return a == b


# ----------------------------------------------------------------------------------------------------------------------
# (a) unit level
# ----------------------------------------------------------------------------------------------------------------------
class MockCells:
    """abstract cell function: position[0] is a key, `table` maps keys to cell indices"""

    def __init__(self, n, table):
        self._cells = [("cell", k) for k in range(n)]
        self.table = table

    def yield_cells(self):
        yield from self._cells

    def position_to_cell(self, position):
        return self._cells[self.table[position[0]]]


class Geometry:
    def __init__(self, rng, kind):
        import jellyfysh.setting as setting
        from jellyfysh.setting import hypercubic_setting
        self.kind = kind
        self.rng = rng
        if kind == "mock":
            self.dim = 1
            self.L = 1.0
            n = rng.choice([1, 2, 2, 3, 4, 6])
            nkeys = n + rng.randint(0, 2 * n)
            keys = [float(k) for k in range(nkeys)]
            table = {}
            for i, k in enumerate(keys):
                table[k] = i if i < n else rng.randrange(n)
            self.spec = {"kind": "mock", "n": n, "table": [table[k] for k in keys]}
        else:
            self.dim = rng.choice([1, 2, 2, 3])
            self.L = rng.choice([1.0, 1.0, 10.0, rng.uniform(0.3, 7.0)])
            self.cps = [rng.choice([1, 2, 3, 3, 4, 5, 7]) for _ in range(self.dim)]
            self.spec = {"kind": "cuboid", "dim": self.dim, "L": self.L.hex(), "cells_per_side": self.cps}
        hypercubic_setting.HypercubicSetting(beta=1.0, dimension=self.dim, system_length=self.L)
        if kind == "mock":
            self.cells = MockCells(n, table)
            self.keys_of = {c: [k for k in keys if table[k] == c] for c in range(n)}
        self.setting = setting

    def finish_setting(self, levels, nroots, nper):
        s = self.setting
        s.set_number_of_root_nodes(max(1, nroots))
        s.set_number_of_nodes_per_root_node(max(1, nper))
        s.set_number_of_node_levels(levels)
        if self.kind != "mock":
            from jellyfysh.activator.internal_state.cell_occupancy.cells.cuboid_periodic_cells import CuboidPeriodicCells
            self.cells = CuboidPeriodicCells(list(self.cps))
        self.cell_list = list(self.cells.yield_cells())
        self.cell_index = {c: i for i, c in enumerate(self.cell_list)}
        self.n = len(self.cell_list)

    def pos_in(self, ci):
        """a position inside cell number ci (sometimes exactly on its minimum / maximum)"""
        rng = self.rng
        if self.kind == "mock":
            return [rng.choice(self.keys_of[ci])]
        c = self.cell_list[ci]
        p = []
        for d in range(self.dim):
            lo, hi = c.cell_min[d], c.cell_max[d]
            r = rng.random()
            if r < 0.12:
                x = lo
            elif r < 0.24:
                x = hi
            elif r < 0.3:
                x = min(hi, nxt(lo, rng.randint(1, 3)))
            else:
                x = min(hi, max(lo, lo + rng.random() * (hi - lo)))
            if x >= self.L:     # positions live in [0, L); the last cell_max can reach L (C16 territory)
                x = lo
            p.append(x)
        return p

    def cell_of(self, pos):
        return self.cell_index[self.cells.position_to_cell(pos)]

    def close(self):
        self.setting.reset()


def unit_level(ctx):
    from jellyfysh.activator.internal_state.single_active_cell_occupancy import SingleActiveCellOccupancy
    from jellyfysh.base.unit import Unit
    from jellyfysh.base.node import Node
    from harness.c11_run import Recorder, oracle
    rng = ctx.rng
    N = ctx.n(1500, 50000)
    lines, checks = [], []    # checks[i] = (case, step label, impl answer, valid)
    n_valid_legs = 0

    for case_no in range(N):
        geo = Geometry(rng, "mock" if rng.random() < 0.55 else "cuboid")
        try:
            cap = rng.choice([1, 1, 1, 2, 3, 0, -1])
            charge = rng.choice([None, None, "q"])
            cell_level = rng.choice([1, 1, 2])
            nroots = rng.choice([0, 1, 2, 3, 4, 6, 9])
            nper = rng.randint(1, 3) if (cell_level == 2 or (charge is None and rng.random() < 0.3)) else 1
            levels = 2 if nper > 1 or cell_level == 2 else 1
            geo.finish_setting(levels, nroots, nper)
            crowd = rng.random() < 0.5          # concentrate units in few cells so that surplus lists appear
            hot = [rng.randrange(geo.n) for _ in range(2)]

            def pick_cell():
                return rng.choice(hot) if crowd and rng.random() < 0.8 else rng.randrange(geo.n)

            def q():
                return rng.choice([1.0, 1.0, -1.0, 0.0, 0.0, -0.0, 0.5])

            truth = {}     # identifier -> [position, charge value]  (units on the cell level)
            roots = []     # (root identifier, root position, [child identifiers])
            for i in range(nroots):
                kids = [(i, j) for j in range(nper)] if levels == 2 else []
                roots.append(((i,), geo.pos_in(pick_cell()), kids))
                if cell_level == 1:
                    truth[(i,)] = [roots[-1][1], q()]
                else:
                    for kid in kids:
                        truth[kid] = [geo.pos_in(pick_cell()), q()]
            ids = list(truth)

            def unit(ident):
                p, qq = truth[ident]
                return Unit(ident, list(p), {"q": qq} if (charge is not None or rng.random() < 0.5) else None)

            def full_state():
                res = []
                for rid, rpos, kids in roots:
                    rn = Node(unit(rid) if cell_level == 1 else Unit(rid, list(rpos), None))
                    for kid in kids:
                        rn.add_child(Node(unit(kid) if cell_level == 2 else Unit(kid, list(rpos), None)))
                    res.append(rn)
                return res

            def active_state(ident, extra=None):
                """branch of the active unit; `extra` = (position, charge) of an identifier unknown to the state"""
                def mk(i):
                    if extra is not None and i == ident:
                        return Unit(i, list(extra[0]), {"q": extra[1]})
                    return unit(i) if i in truth else Unit(i, list(roots[i[0]][1]) if i[0] < len(roots) else geo.pos_in(0), None)
                if cell_level == 1:
                    rn = Node(mk(ident))
                    if levels == 2 and rng.random() < 0.5:
                        rn.add_child(Node(Unit(ident + (0,), [0.0] * geo.dim, None)))
                    return [rn]
                rn = Node(Unit(ident[:1], [0.0] * geo.dim, None))
                rn.add_child(Node(mk(ident)))
                return [rn]

            def relevant(ident):
                return True if charge is None else truth[ident][1] != 0

            occ = SingleActiveCellOccupancy(geo.cells, cell_level, cap, charge)
            rec = Recorder(occ, geo.cells, cell_level, cap, charge)
            case = {"layer": "unit", "case": case_no, "geometry": geo.spec, "cap": cap, "charge_filter": charge is not None,
                    "cell_level": cell_level,
                    "units": [[list(i), [x.hex() for x in truth[i][0]], truth[i][1]] for i in ids], "steps": []}

            def true_units():
                return [(i, relevant(i), geo.cell_list[geo.cell_of(truth[i][0])]) for i in ids]

            parts = ["init", str(geo.n), str(cap), "1" if charge is not None else "0"]
            for i in ids:
                parts += [str(rec.idx(i)), f2b(truth[i][1] if charge is not None else 0.0), str(geo.cell_of(truth[i][0]))]
            occ.initialize(full_state())
            lines.append(" ".join(parts))
            checks.append((case, "initialize", rec.dump(), True))
            oracle(rec, true_units(), set(), ctx.fail, dict(case), "unit:initialize")
            percell = {}
            for i in ids:
                if relevant(i):
                    percell[geo.cell_of(truth[i][0])] = percell.get(geo.cell_of(truth[i][0]), 0) + 1
            mx = max(percell.values(), default=0)
            ctx.cls(("init", "cap>0" if cap > 0 else "unbounded", "surplus" if cap > 0 and mx > cap else
                     ("full" if cap > 0 and mx == cap else "room"), charge is not None, cell_level))

            cur, cur_cell = None, None       # my own record of the relevant active unit and its cell at the last update
            valid = True
            for step in range(rng.choice([0, 1, 3, 6, 12])):
                if not ids:
                    break
                r = rng.random()
                extra = None
                label = None
                if rng.random() < 0.02 and isinstance(getattr(occ, "_surplus", None), dict):
                    # white box: an empty surplus list (never produced by the class itself) arms the dead
                    # surplus -> occupant move, which can only raise IndexError
                    pc = rng.randrange(geo.n)
                    if geo.cell_list[pc] not in occ._surplus:
                        occ._surplus[geo.cell_list[pc]] = []
                    lines.append("poke %d" % pc)
                    case["steps"].append(["whitebox:empty-surplus-list", pc])
                    checks.append((dict(case, steps=list(case["steps"])), "whitebox:poke", rec.dump(), False))
                    valid = False
                    ctx.count("unit-step:whitebox:empty-surplus-list")
                if cur is not None and r < 0.35:
                    new = cur
                    if rng.random() < 0.5:
                        truth[cur][0] = geo.pos_in(cur_cell); label = "same-id:stay"
                    else:
                        truth[cur][0] = geo.pos_in(rng.randrange(geo.n)); label = "same-id:crossing"
                elif r < 0.86 or geo.n < 2:
                    new = rng.choice(ids)
                    if cur is not None and rng.random() < 0.5:
                        truth[cur][0] = geo.pos_in(cur_cell)       # the old one moved inside its cell
                    if new == cur:
                        label = "same-id:stay"
                    else:
                        where = "?"
                        if relevant(new):
                            where = "occ" if new in occ[geo.cell_list[geo.cell_of(truth[new][0])]] else "sur"
                            same = cur is not None and geo.cell_of(truth[new][0]) == cur_cell
                            where += ":same-cell" if same else ":other-cell"
                        else:
                            where = "irrelevant"
                        label = ("first:" if cur is None else "change:") + where
                elif r < 0.91 and cur is not None:
                    # premise broken: the old active unit leaves its cell, then the active unit changes
                    others = [c for c in range(geo.n) if c != cur_cell]
                    truth[cur][0] = geo.pos_in(rng.choice(others))
                    new = rng.choice(ids)
                    valid = valid and new == cur
                    label = "invalid:old-left-cell"
                elif r < 0.96:
                    # premise broken: a non-active unit is in another cell than recorded, then becomes active
                    cand = [i for i in ids if i != cur]
                    if not cand:
                        continue
                    new = rng.choice(cand)
                    others = [c for c in range(geo.n) if c != geo.cell_of(truth[new][0])]
                    truth[new][0] = geo.pos_in(rng.choice(others))
                    valid = False
                    label = "invalid:teleport"
                else:
                    # an identifier the occupancy has never seen
                    new = (len(roots) + 5,) if cell_level == 1 else (0, nper + 5)
                    extra = (geo.pos_in(rng.randrange(geo.n)), 1.0)
                    valid = False
                    label = "invalid:unknown-id"
                if extra is None:
                    npos, nq = truth[new]
                else:
                    npos, nq = extra
                ncell = geo.cell_of(npos)
                nrel = True if charge is None else nq != 0
                lines.append("update %d %s %d" % (rec.idx(new), f2b(nq if charge is not None else 0.0), ncell))
                case["steps"].append([label, list(new), [x.hex() for x in npos]])
                ctx.count("unit-step:" + label)
                try:
                    occ.update(active_state(new, extra))
                    ans = rec.dump()
                except (KeyError, ValueError, IndexError) as e:
                    ans = "err:" + type(e).__name__
                checks.append((dict(case, steps=list(case["steps"])), label, ans, valid))
                if ans.startswith("err:"):
                    ctx.cls(("unit-error", label, ans))
                    ctx.count("unit-outcome:" + ans)
                    if valid:
                        ctx.fail("unit:update-raised:" + ans[4:], dict(case, steps=list(case["steps"])),
                                 "update raised on a history that satisfies the premises")
                    break
                if extra is not None:
                    break          # (the unknown identifier was accepted: nothing sensible can follow)
                if nrel:
                    cur, cur_cell = new, ncell
                else:
                    cur, cur_cell = None, None
                if valid:
                    n_valid_legs += 1
                    oracle(rec, true_units(), {new} if extra is None else set(), ctx.fail,
                           dict(case, steps=list(case["steps"])), "unit:update")
                    ctx.cls(("unit", label, "cap>0" if cap > 0 else "unbounded", charge is not None,
                             "sur" if any(True for _ in occ.yield_surplus()) else "nosur"))
        finally:
            geo.close()

    replies = ctx.model("occ", lines)
    nd = 0
    for line, (case, label, ans, valid), rep in zip(lines, checks, replies):
        if not agree(ans, rep):
            nd += 1
            ctx.disagree("occ." + ("initialize" if label == "initialize" else "update"),
                         dict(case, request=line), ans, rep)
        ctx.sample({"request": line if len(line) < 300 else line[:300] + "…", "impl": ans, "model": rep})
    ctx.count("unit-cases", N)
    ctx.count("unit-calls-compared", len(lines))
    ctx.count("unit-legs-oracle", n_valid_legs)
    return len(lines)


# ----------------------------------------------------------------------------------------------------------------------
# (b) cell-boundary event handler
# ----------------------------------------------------------------------------------------------------------------------
def boundary_level(ctx):
    import jellyfysh.setting as setting
    from jellyfysh.setting import hypercubic_setting
    from jellyfysh.activator.internal_state.cell_occupancy.cells.cuboid_periodic_cells import CuboidPeriodicCells
    from jellyfysh.event_handler.cell_boundary_event_handler import CellBoundaryEventHandler
    from jellyfysh.base.unit import Unit
    from jellyfysh.base.node import Node
    from jellyfysh.base.time import Time
    rng = ctx.rng
    G = ctx.n(40, 800)
    per = ctx.n(60, 150)
    lines, impl = [], []
    for g in range(G):
        dim = rng.choice([1, 2, 3, 3])
        L = rng.choice([1.0, 1.0, 10.0, rng.uniform(0.3, 7.0)])
        cps = [rng.choice([1, 2, 3, 4, 5, 6, 7, 11]) for _ in range(dim)]
        hypercubic_setting.HypercubicSetting(beta=1.0, dimension=dim, system_length=L)
        try:
            setting.set_number_of_root_nodes(1); setting.set_number_of_nodes_per_root_node(1)
            setting.set_number_of_node_levels(1)
            cells = CuboidPeriodicCells(list(cps))
            cl = list(cells.yield_cells())
            for k in range(per):
                c = rng.choice(cl)
                d = rng.randrange(dim)
                pos = []
                for e in range(dim):
                    lo, hi = c.cell_min[e], c.cell_max[e]
                    r = rng.random()
                    x = lo if r < 0.15 else hi if r < 0.3 else nxt(lo, 1) if r < 0.35 else nxt(hi, -1) if r < 0.4 \
                        else min(hi, max(lo, lo + rng.random() * (hi - lo)))
                    if x >= L:      # positions live in [0, L)
                        x = lo
                    pos.append(x)
                v = rng.choice([1.0, 1.0, 0.5, rng.uniform(0.01, 20.0)]) * rng.choice([1.0, -1.0])
                vel = [0.0] * dim
                vel[d] = v
                case = {"layer": "boundary", "dim": dim, "L": L.hex(), "cells_per_side": cps, "cell": list(c.identifier),
                        "position": [x.hex() for x in pos], "direction": d, "velocity": v.hex()}
                h = CellBoundaryEventHandler()
                h.initialize(cells, 1)
                u = Unit((0,), list(pos), None, list(vel), Time(0.0, 0.0))
                nb_pos = cells.neighbor_cell(c, d, True)
                nb_neg = cells.neighbor_cell(c, d, False)
                lines.append("boundary %s %s %s %s %s" % (f2b(L), f2b(pos[d]), f2b(v), f2b(nb_pos.cell_min[d]),
                                                          f2b(nb_neg.cell_max[d])))
                wrap = (v > 0 and c.identifier[d] == cps[d] - 1) or (v < 0 and c.identifier[d] == 0)
                edge = "on-min" if pos[d] == c.cell_min[d] else "on-max" if pos[d] == c.cell_max[d] else "inside"
                ctx.cls(("boundary", v > 0, wrap, edge, min(cps[d], 3)))
                ctx.count("boundary:" + ("pos" if v > 0 else "neg") + (":wrap" if wrap else ":inner"))
                try:
                    assert cells.position_to_cell(pos) is c
                    t = h.send_event_time([Node(u)])
                    out = h.send_out_state()
                    npos = out[0].value.position
                    impl.append("%s %s" % (f2b(t.quotient + t.remainder), f2b(npos[d])))
                    want = nb_pos if v > 0 else nb_neg
                    got = cells.position_to_cell(npos)
                    if got is not want:
                        ctx.fail("boundary:not-in-neighbour:" + ("pos" if v > 0 else "neg"), case,
                                 "after the cell-boundary event the unit is in cell %r, the neighbour is %r"
                                 % (got.identifier, want.identifier))
                    if any(npos[e] != pos[e] for e in range(dim) if e != d):
                        ctx.fail("boundary:other-coordinate-moved", case, "a coordinate without velocity changed")
                    # no cell-boundary event before the event time, so half way the unit must still be in its cell
                    # (skipped when the separation is within rounding distance of zero)
                    tt = t.quotient + t.remainder
                    if abs(v) * tt > 1e-9 * L and cps[d] > 1:
                        mid = list(pos)
                        mid[d] = (pos[d] + v * (tt / 2)) % L
                        if cells.position_to_cell(mid) is not c:
                            ctx.fail("boundary:leaves-cell-before-event:" + ("pos" if v > 0 else "neg"), case,
                                     "half way to the scheduled cell-boundary event the unit is already outside its cell")
                    if not (t.quotient + t.remainder >= 0.0):
                        ctx.fail("boundary:negative-time", case, "time to the boundary is negative")
                except Exception as e:   # noqa
                    impl.append("exc:" + type(e).__name__)
                    ctx.fail("boundary:exception:" + type(e).__name__, case, "cell-boundary handler raised %r" % (e,))
        finally:
            setting.reset()
    rep = ctx.model("occ", lines)
    for line, a, b in zip(lines, impl, rep):
        if a != b:
            ctx.disagree("occ.boundary (send_event_time / send_out_state)", {"request": line}, a, b)
    ctx.count("boundary-cases", len(lines))
    return len(lines)


# ----------------------------------------------------------------------------------------------------------------------
# (c) run level
# ----------------------------------------------------------------------------------------------------------------------
def make_jobs(ctx, tmp):
    import configparser
    rng = ctx.rng
    jobs = []
    base = os.path.join(ctx.root, CONFIG_DIR)
    ship_updates = ctx.n(1200, 24000)
    listed = {os.path.realpath(os.path.join(base, i)) for i in SHIPPED + SHIPPED_ONLY}
    for dp, _, fs in os.walk(os.path.join(ctx.root, "jellyfysh", "config_files")):
        for fn in fs:
            if fn.endswith(".ini") and "cell_occupancy" in open(os.path.join(dp, fn)).read() \
                    and os.path.realpath(os.path.join(dp, fn)) not in listed:
                raise RuntimeError("a shipped configuration with a cell-occupancy system is not in C11's list: " + os.path.join(dp, fn))
    for k, ini in enumerate(SHIPPED + SHIPPED_ONLY):
        jobs.append({"name": "shipped:" + ini, "ini": os.path.join(base, ini), "overrides": {},
                     "seed": rng.randrange(2 ** 31), "max_updates": ship_updates})
    for g in range(ctx.n(6, 42)):
        ini = SHIPPED[g % len(SHIPPED)] if g < 2 * len(SHIPPED) else rng.choice(SHIPPED)
        cp = configparser.ConfigParser()
        cp.read(os.path.join(base, ini))
        water = ini.startswith("water")
        veto_water = ini == "water/coulomb_cell_veto_lj_cell_veto.ini"
        ov = {"RandomInputHandler": {"number_of_root_nodes": rng.randint(3, 8) if water else rng.randint(4, 24)}}
        for sec in cp.sections():
            if cp.has_option(sec, "cells_per_side"):
                if veto_water:
                    cps = rng.choice(["6", "7", "6, 7, 6", "5, 6, 7", "8, 6, 6"])   # smaller grids: empty Walker
                else:
                    cps = rng.choice(["4", "5", "3, 4, 3", "5, 3, 4", "3, 5, 7", "4, 4, 6", "6, 3, 3"])
                ov[sec] = {"cells_per_side": cps}
            if cp.has_option(sec, "chain_time"):
                ov[sec] = {"chain_time": rng.choice([0.13, 0.4, 0.78965, 2.1])}
            if cp.has_option(sec, "initial_direction_of_motion"):
                ov[sec] = {"initial_direction_of_motion": rng.randrange(3)}
            if cp.has_option(sec, "cell_level"):
                # the shipped event handlers support one occupant per cell only; the power-bounded water set-up
                # tolerates more as long as no cell really holds two oxygens
                if ini == "water/coulomb_power_bounded_lj_cell_bounded.ini":
                    if rng.random() < 0.5:
                        ov[sec] = {"maximum_number_occupants": rng.choice([2, 3])}
                elif rng.random() < 0.08:
                    ov[sec] = {"maximum_number_occupants": rng.choice([2, 3, 0])}
        if rng.random() < 0.5:
            ov.setdefault("HypercubicSetting", {})["beta"] = rng.choice([0.5, 1, 4, 10])
        jobs.append({"name": "generated:" + ini, "ini": os.path.join(base, ini), "overrides": ov,
                     "seed": rng.randrange(2 ** 31), "max_updates": ctx.n(800, 5000)})
    for k, j in enumerate(jobs):
        if k % 3 == 1:
            j["prime_counters"] = 2 ** 32 - 40 - (k * 97) % 600
        j["tmp"] = tmp
        j["out"] = os.path.join(tmp, "out%d.json" % k)
        j["job_file"] = os.path.join(tmp, "job%d.json" % k)
        j["min_event_handlers"] = 80
        with open(j["job_file"], "w") as f:
            json.dump(j, f)
    return jobs


def run_job(ctx, job, timeout=None):
    env = dict(os.environ)
    env["PYTHONPATH"] = ctx.root + os.pathsep + os.path.dirname(os.path.dirname(os.path.dirname(os.path.abspath(__file__))))
    try:
        p = subprocess.run(["/venv/bin/python", "-W", "ignore", "-m", "harness.c11_run", job["job_file"]],
                           cwd=os.path.join(ctx.root, "jellyfysh"), env=env, capture_output=True, text=True,
                           timeout=timeout or ctx.n(120, 900))
    except subprocess.TimeoutExpired:
        if not job.get("stop_on"):
            raise
        return {"occupancies": [], "failures": [], "stats": {}, "error": "search run timed out"}
    if not os.path.exists(job["out"]):
        return {"occupancies": [], "failures": [], "stats": {}, "error": "no output: " + p.stderr[-1500:]}
    return json.load(open(job["out"]))


def run_level(ctx):
    total = 0
    with tempfile.TemporaryDirectory(prefix="c11_") as tmp:
        jobs = make_jobs(ctx, tmp)
        with concurrent.futures.ThreadPoolExecutor(ctx.n(6, 6)) as ex:
            results = list(ex.map(lambda j: run_job(ctx, j), jobs))
        lines, expect, meta = [], [], []
        search = []
        for job, res in zip(jobs, results):
            name = job["name"]
            shipped = name.startswith("shipped:")
            st = res.get("stats", {})
            if st.get("jellyfysh") and not os.path.realpath(st["jellyfysh"]).startswith(os.path.realpath(ctx.root)):
                raise RuntimeError("run-level subprocess imported jellyfysh from " + st["jellyfysh"])
            for f in res["failures"]:
                ctx.fail("run:" + f["signature"], dict(f["case"], layer="run", config=name), f["what"])
            ctx.count("run:premise-checked", st.get("premise:checked", 0))
            if res.get("premise_failures"):
                # the link theorem's premise (a pending cell-boundary candidate while an active unit is recorded) does not
                # hold on this run: the history clause is no longer shown; search the same configuration for a run in which
                # the active unit really leaves its recorded cell without a cell-boundary event
                pf = res["premise_failures"][0]
                ctx.disagree("link.pending-cell-boundary-candidate (premise of SystemLinks.active_unit_stays_in_recorded_cell)",
                             dict(pf, layer="run", config=name, legs_without_candidate=st.get("premise:missing", 0),
                                  legs_with_several=st.get("premise:several", 0)),
                             "exactly one pending cell-boundary candidate of the occupancy", "%d pending" % pf["pending_cell_boundary_candidates"])
                if not any(f["signature"].startswith("active-left-cell") for f in res["failures"]):
                    search.append(job)
            legs = st.get("legs", 0)
            err = res.get("error")
            if err:
                first = err.split("\n")[0][:160]
                if shipped and not res["failures"]:
                    # a shipped configuration must run
                    raise RuntimeError("shipped configuration %s did not run: %s" % (name, err[-1500:]))
                ctx.count("run:ended-early:" + first.split(":")[0])
                ctx.notes.append("%s %s ended after %d legs: %s" % (name, json.dumps(job["overrides"]), legs, first))
            ctx.count("run:configs" + (":shipped" if shipped else ":generated"))
            ctx.count("run:legs", legs)
            for k, v in st.items():
                if k.startswith(("update:", "crossing:")):
                    ctx.count("run:" + k, v)
                    if v:
                        ctx.cls(("run", name.split(":")[1], k))
            ctx.traces += 1 if legs else 0
            for oc in res["occupancies"]:
                if oc["init"] is None:
                    continue
                lines.append(oc["init"]); expect.append(oc["init_dump"]); meta.append((name, job, 0, "initialize"))
                ctx.cls(("run-occ", name.split(":")[1], oc["cap"], oc["charge_given"], oc["cell_level"]))
                for n, (line, d, kind) in enumerate(oc["legs"]):
                    lines.append(line); expect.append(d); meta.append((name, job, n + 1, kind))
                    if "S= " not in d and not d.startswith("err"):
                        ctx.cls(("run-surplus", name.split(":")[1], kind))
        if search:
            seen, sjobs = set(), []
            for job in search:
                key = (job["ini"], json.dumps(job["overrides"], sort_keys=True))
                if key in seen or len(seen) >= 2:
                    continue
                seen.add(key)
                for k in range(ctx.n(7, 14)):
                    sj = dict(job, seed=k + 1, max_updates=ctx.n(400000, 2000000), stop_on="active-left-cell", max_record=0, max_seconds=ctx.n(100, 600),
                              name="search:" + job["name"])
                    sj["out"] = os.path.join(tmp, "sout%d.json" % len(sjobs))
                    sj["job_file"] = os.path.join(tmp, "sjob%d.json" % len(sjobs))
                    with open(sj["job_file"], "w") as f:
                        json.dump(sj, f)
                    sjobs.append(sj)
            with concurrent.futures.ThreadPoolExecutor(14) as ex:
                sres = list(ex.map(lambda j: run_job(ctx, j, timeout=ctx.n(150, 900)), sjobs))
            for sj, res in zip(sjobs, sres):
                ctx.count("run:search-runs")
                ctx.count("run:search-legs", res.get("stats", {}).get("legs", 0))
                for f in res["failures"]:
                    if f["signature"].startswith("active-left-cell"):
                        ctx.fail("run:" + f["signature"], dict(f["case"], layer="run", config=sj["name"]), f["what"])
        replies = ctx.model("occ", lines)
        bad_sessions = set()
        for line, d, m, rep in zip(lines, expect, meta, replies):
            sess = (m[0], m[1]["seed"])
            if m[3] == "initialize":
                bad_sessions.discard(sess)
            if not agree(d, rep) and sess not in bad_sessions:
                bad_sessions.add(sess)      # after the first difference the two states differ anyway
                ctx.disagree("occ.run-replay (%s)" % ("initialize" if m[3] == "initialize" else "update"),
                             {"layer": "run", "config": m[0], "overrides": m[1]["overrides"], "seed": m[1]["seed"],
                              "leg": m[2], "preceding": m[3], "request": line[:300]}, d[:400], rep[:400])
        total = len(lines)
        ctx.count("run-calls-compared", total)
    return total


def replay(ctx, case):
    """re-evaluate a recorded failing input on the tree under test"""
    c = case.get("case", case)
    layer = c.get("layer")
    if layer == "boundary":
        import jellyfysh.setting as setting
        from jellyfysh.setting import hypercubic_setting
        from jellyfysh.activator.internal_state.cell_occupancy.cells.cuboid_periodic_cells import CuboidPeriodicCells
        from jellyfysh.event_handler.cell_boundary_event_handler import CellBoundaryEventHandler
        from jellyfysh.base.unit import Unit
        from jellyfysh.base.node import Node
        from jellyfysh.base.time import Time
        dim, L = c["dim"], float.fromhex(c["L"])
        hypercubic_setting.HypercubicSetting(beta=1.0, dimension=dim, system_length=L)
        try:
            setting.set_number_of_root_nodes(1); setting.set_number_of_nodes_per_root_node(1)
            setting.set_number_of_node_levels(1)
            cells = CuboidPeriodicCells(list(c["cells_per_side"]))
            pos = [float.fromhex(x) for x in c["position"]]
            d, v = c["direction"], float.fromhex(c["velocity"])
            vel = [0.0] * dim
            vel[d] = v
            cell = cells.position_to_cell(pos)
            h = CellBoundaryEventHandler()
            h.initialize(cells, 1)
            t = h.send_event_time([Node(Unit((0,), list(pos), None, vel, Time(0.0, 0.0)))])
            npos = h.send_out_state()[0].value.position
            want = cells.neighbor_cell(cell, d, v > 0)
            got = cells.position_to_cell(npos)
            return {"start_cell": cell.identifier, "time": t.quotient + t.remainder, "new_position": npos,
                    "new_cell": got.identifier, "neighbour": want.identifier, "in_neighbour": got is want}
        finally:
            setting.reset()
    if layer == "run":
        with tempfile.TemporaryDirectory(prefix="c11_") as tmp:
            job = {"name": "replay", "ini": os.path.join(ctx.root, c["ini"]), "overrides": c.get("overrides", {}),
                   "seed": c["seed"], "max_updates": int(c.get("leg", 1000)) + 5, "tmp": tmp,
                   "out": os.path.join(tmp, "out.json"), "job_file": os.path.join(tmp, "job.json"),
                   "min_event_handlers": 80}
            with open(job["job_file"], "w") as f:
                json.dump(job, f)
            res = run_job(ctx, job)
            return {"failures": res["failures"], "error": res.get("error"), "stats": res.get("stats")}
    return {"note": "unit-level cases come from the seeded generator: re-run ./check C11 with the VERIF_SEED and tier "
                    "recorded in the replay file; the case lists geometry, units and the sequence of update calls"}


def run(ctx):
    ctx.rule = ("unit level: seeded generator over (cell geometry: abstract table / real cuboid periodic grid in 1-3 dimensions, "
                "cap, charge filter, cell level, crowding) x random update sequences (same id staying / crossing, new id from "
                "occupants / surplus / same or other cell / irrelevant, premise-breaking and unknown-id steps for the error "
                "branches); boundary: (direction sign, wrap, on-min/on-max/inside, cells per side); run level: shipped and "
                "generated cell configurations, class = (configuration, kind of update, crossing kind, preceding handler)")
    a = unit_level(ctx)
    b = boundary_level(ctx)
    c = run_level(ctx)
    ctx.evaluations = a + b + c
