"""C10 — Cell-based and file-based factor decompositions cover each partner exactly once.

Correspondence (bit-exact, everything is discrete):
  * cells: `CuboidPeriodicCells` (`yield_cells`, `nearby_cells`, `translate`, `relative_cell`, `zero_cell`) vs the integer
    torus of `JF.Model.CellTaggers`;
  * taggers: the four real cell taggers (`CellVetoTagger`, `CellBoundingPotentialTagger`, `ExcludedCellsTagger`,
    `SurplusCellsTagger`) on a real `SingleActiveCellOccupancy`, the walker items a real `CellVetoEventHandler.initialize`
    builds, the real `translate` of `send_event_time` and the real `Mediator.get_arguments_cell_veto_event_handler`
    vs the model fed with the occupancy's current state;
  * factor files: the real `FactorTypeMaps` (parser, maps, every yield function, the fall-back map) and the real
    `FactorTypeMapInStateTagger` on the shipped files and on generated files vs `JF.Model.FactorMaps`.
Oracle (on the implementation only): Counter of all targets reachable through the cell-based families == Counter of all
other relevant units (from the ground-truth unit list, not from the occupancy); Counter of the in-states yielded for an
active point mass == the index sets of the file containing it, instantiated per other composite object / once.
"""
import contextlib, io, math, os, types
from collections import Counter

ID = "C10"
THEOREM_MODULES = ["JF.Props.C10", "JF.Props.C10C11", "JF.Props.C10Closed", "JF.Props.SystemInv3Occ"]
COMPONENTS = ["factor"]
ASSUMPTIONS = [
    "cell half: the occupancy state handed to the taggers satisfies the invariant 'every relevant non-active unit is stored "
    "exactly once (occupant or surplus)' (that the real SingleActiveCellOccupancy maintains it is property C11; here it is "
    "re-checked on every generated case by the oracle, which starts from the ground-truth unit list)",
    "cell half: positions lie in [0, L) so that position_to_cell returns a cell of the grid",
    "factor half: the file is accepted by the parser (all indices < 2n, every factor type consistently intra- or "
    "inter-object), every line is an index *set* (no repeated index); for systems without composite objects (n = 1) the "
    "only meaningful inter-object line is [0, 1]",
    "loud errors are outcomes, not violations: a cell-veto handler receiving more than one target (occupant cap > 1) and "
    "the KeyError of an intra-object factor type for a leaf index that appears in none of its lines are modelled as error "
    "outcomes and compared, not judged",
]
TRUSTED = [
    "the regular expression that splits a factor-file line into index list and type is not modelled; the harness parses "
    "the generated text itself for the model and the resulting maps are compared with the real parser's",
    "cell identifiers (tuples) stand for Cell objects; identity of the objects returned by different methods is checked "
    "in the correspondence run",
]


# ------------------------------------------------------------------------------------------------ wire format helpers
def tup(t):
    return ",".join(str(int(x)) for x in t) if len(t) else "()"


def tups(l):
    l = list(l)
    return ";".join(tup(t) for t in l) if l else "-"


def lls(l):
    l = list(l)
    return "/".join(tups(x) for x in l) if l else "-"


def p_tup(s):
    return () if s in ("", "()") else tuple(int(x) for x in s.split(","))


def p_tups(s):
    return [] if s == "-" else [p_tup(x) for x in s.split(";")]


def p_lls(s):
    return [] if s == "-" else [tuple(p_tups(x)) for x in s.split("/")]


# ------------------------------------------------------------------------------------------------------- cell half
def _setting(dim, lengths, n_roots, n_per):
    import jellyfysh.setting as setting
    from jellyfysh.setting import hypercuboid_setting
    setting.reset()
    hypercuboid_setting.HypercuboidSetting(beta=1.0, dimension=dim, system_lengths=list(lengths))
    setting.set_number_of_root_nodes(n_roots)
    setting.set_number_of_nodes_per_root_node(n_per)
    setting.set_number_of_node_levels(1 if n_per == 1 else 2)


class _Estimator:
    """stand-in estimator: constant derivative bounds (the rates play no role for C10)"""

    def __init__(self):
        from jellyfysh.potential.inverse_power_potential import InversePowerPotential
        self.potential = InversePowerPotential(power=1.0, prefactor=1.0)

    def derivative_bound(self, lower_corner, upper_corner, direction, calculate_lower_bound=False):
        return (1.0, -1.0) if calculate_lower_bound else (1.0,)

    def charge_correction_factor(self, *charges):
        return 1.0


def gen_grid(rng, big):
    dim = rng.choice([1, 2, 2, 2, 3, 3])
    cap = {1: 40, 2: 90, 3: 150 if big else 64}[dim]
    while True:
        n = [rng.choice([1, 2, 3, 3, 4, 4, 5, 5, 6, 7, 8, 9]) for _ in range(dim)]
        if math.prod(n) <= cap:
            break
    layers = rng.choice([0, 1, 1, 1, 1, 2, 2, 3])
    lengths = [rng.choice([1.0, 1.0, 2.0, 0.3, 10.0, 7.5, rng.uniform(0.1, 20.0)]) for _ in range(dim)]
    return dim, n, layers, lengths


def gen_coord(rng, n, length, hot):
    side = length / n
    while True:
        c = rng.random()
        if c < 0.35:
            p = rng.uniform(0.0, length)
        elif c < 0.6:       # exactly on / one ulp around a cell boundary
            p = rng.randrange(n) * side
            k = rng.choice([0, 0, 1, -1])
            if k:
                p = math.nextafter(p, math.inf * k)
        elif c < 0.65:
            p = 0.0
        else:               # crowd a few cells
            p = (hot + rng.random()) * side
        if 0.0 <= p < length and int(p / side) < n:
            return p


def cell_cases(ctx, req, meta):
    from jellyfysh.activator.internal_state.cell_occupancy.cells.cuboid_periodic_cells import CuboidPeriodicCells
    from jellyfysh.activator.internal_state.single_active_cell_occupancy import SingleActiveCellOccupancy
    from jellyfysh.activator.tagger.cell_veto_tagger import CellVetoTagger
    from jellyfysh.activator.tagger.cell_bounding_potential_tagger import CellBoundingPotentialTagger
    from jellyfysh.activator.tagger.excluded_cells_tagger import ExcludedCellsTagger
    from jellyfysh.activator.tagger.surplus_cells_tagger import SurplusCellsTagger
    from jellyfysh.activator.tag_activator import TagActivator
    from jellyfysh.mediator.mediator import Mediator
    from jellyfysh.base.node import Node
    from jellyfysh.base.unit import Unit
    from jellyfysh.event_handler.leaf_unit_cell_veto_event_handler import LeafUnitCellVetoEventHandler
    from jellyfysh.event_handler.two_leaf_unit_cell_bounding_potential_event_handler import \
        TwoLeafUnitCellBoundingPotentialEventHandler
    from jellyfysh.potential.cell_bounding_potential import CellBoundingPotential
    import jellyfysh.event_handler.abstracts.cell_veto_event_handler as cveh
    rng = ctx.rng
    n_conf = ctx.n(500, 4500)

    recorded = []

    class RecWalker:            # the walker tables are C18's subject; here only *which* cells they are built from
        def __init__(self, items):
            recorded.append([it.item for it in items])
            self.total_rate = float(len(items))

    cveh.Walker = RecWalker

    for conf in range(n_conf):
        dim, n, layers, lengths = gen_grid(rng, not ctx.quick)
        n_roots = rng.choice([1, 2, 3, 5, 8, 12, 20])
        n_per = rng.choice([1, 1, 2, 3])
        levels = 1 if n_per == 1 else 2
        cell_level = levels if rng.random() < 0.7 else 1
        charge = rng.choice([None, "q"]) if cell_level == levels else None
        cap = rng.choice([0, -1, 1, 1, 1, 2, 3])
        _setting(dim, lengths, n_roots, n_per)
        with contextlib.redirect_stdout(io.StringIO()):
            cells = CuboidPeriodicCells(list(n), layers)
        nstr = tup(n)
        gkey = ("grid", dim, layers, min(n) <= 2 * layers, any(2 * layers + 1 > k for k in n), all(2 * layers + 1 > k for k in n))
        ctx.cls(gkey)
        ctx.count(f"cells:dim={dim}")
        ctx.count(f"cells:layers={layers}")
        all_cells = list(cells.yield_cells())
        by_id = {c.identifier: c for c in all_cells}

        # ---- the cell system itself
        req.append(f"allcells {nstr}")
        meta.append(("allcells", {"n": n}, tups(c.identifier for c in all_cells), None))
        if cells.zero_cell.identifier != tuple(0 for _ in n):
            ctx.disagree("cells.zero_cell", {"n": n}, tup(cells.zero_cell.identifier), tup([0] * dim))
        sample = all_cells if len(all_cells) <= ctx.n(12, 40) else rng.sample(all_cells, ctx.n(12, 40))
        for c in sample:
            nb = cells.nearby_cells(c)
            ids = sorted(x.identifier for x in nb)
            if len(set(ids)) != len(ids) or any(by_id[i] is not x for i, x in ((x.identifier, x) for x in nb)):
                ctx.disagree("cells.nearby_cells: duplicate / foreign Cell object", {"n": n, "layers": layers, "cell": c.identifier},
                             str(ids), "set of cells of the grid")
            req.append(f"nearby {nstr} {layers} {tup(c.identifier)}")
            meta.append(("nearby", {"n": n, "layers": layers, "cell": c.identifier}, ids, None))
            others = all_cells if len(all_cells) <= 16 else rng.sample(all_cells, 16)
            for r in others:
                t = cells.translate(c, r)
                req.append(f"translate {nstr} {tup(c.identifier)} {tup(r.identifier)}")
                meta.append(("translate", {"n": n, "lengths": [x.hex() for x in lengths], "cell": c.identifier, "rel": r.identifier},
                             tup(t.identifier), None))
                q = cells.relative_cell(c, r)
                req.append(f"relative {nstr} {tup(c.identifier)} {tup(r.identifier)}")
                meta.append(("relative", {"n": n, "lengths": [x.hex() for x in lengths], "cell": c.identifier, "ref": r.identifier},
                             tup(q.identifier), None))
                if by_id[t.identifier] is not t or by_id[q.identifier] is not q:
                    ctx.disagree("cells.translate/relative_cell returns a foreign Cell object", {"n": n}, "foreign", "same object")

        # ---- units
        hot = [rng.randrange(k) for k in n]
        roots, units = [], []        # units: the ones on the cell level, with relevance
        for r in range(n_roots):
            ru = Unit((r,), [gen_coord(rng, n[d], lengths[d], hot[d]) for d in range(dim)],
                      {"q": rng.choice([0.0, 1.0, -1.0, 0.5])} if n_per == 1 else None)
            rn = Node(ru)
            for l in range(n_per if n_per > 1 else 0):
                lu = Unit((r, l), [gen_coord(rng, n[d], lengths[d], hot[d]) for d in range(dim)],
                          {"q": rng.choice([0.0, 0.0, 1.0, -1.0, 0.5])})
                rn.add_child(Node(lu))
            roots.append(rn)
        for rn in roots:
            lvl = [rn] if cell_level == 1 else rn.children
            for nd in lvl:
                units.append((nd, rn))
        relevant = [nd.value.identifier for nd, _ in units if charge is None or nd.value.charge[charge] != 0]

        occ = SingleActiveCellOccupancy(cells, cell_level, cap, charge)
        occ.initialize(roots)
        est = _Estimator()
        recorded.clear()
        with contextlib.redirect_stdout(io.StringIO()):
            veto_handler = LeafUnitCellVetoEventHandler(est, charge=charge)
            bounding_handler = TwoLeafUnitCellBoundingPotentialEventHandler(
                potential=est.potential, bounding_potential=CellBoundingPotential(est), charge=charge)
            label = "single_active_cell_occupancy"
            t_veto = CellVetoTagger([], [], veto_handler, label)
            t_bound = CellBoundingPotentialTagger([], [], bounding_handler, 1, label)
            t_excl = ExcludedCellsTagger([], [], veto_handler, 1, label)
            t_surp = SurplusCellsTagger([], [], veto_handler, 1, label)
            for t in (t_veto, t_bound, t_excl, t_surp):
                t.initialize_with_internal_states([occ])
                t.initialize()
        # walker domain: 2*dim walkers, all from the same cells
        dom = recorded[0] if recorded else []
        if len(recorded) != 2 * dim or any([x.identifier for x in w] != [x.identifier for x in dom] for w in recorded):
            ctx.disagree("veto domain: walkers built from different cell lists", {"n": n, "layers": layers},
                         str([[x.identifier for x in w] for w in recorded]), "2*dim equal lists")
        keys = list(veto_handler._derivative_bounds.keys())
        dom_impl = "/".join(f"{tup(c.identifier)}>{tup(k.identifier)}" for c, k in zip(dom, keys)) if dom else "-"
        if len(keys) != len(dom):
            dom_impl += " (keys: %d)" % len(keys)
        # the stand-ins the mediator method needs
        fake_activator = types.SimpleNamespace(_event_handler_tagger_dictionary={veto_handler: t_veto})
        fake_activator.get_info_internal_state = lambda h, c: TagActivator.get_info_internal_state(fake_activator, h, c)
        fake_mediator = types.SimpleNamespace(
            _activator=fake_activator, _event_handler_with_shortest_event_time=veto_handler,
            _state_handler=types.SimpleNamespace(extract_from_global_state=lambda identifier: ("branch", identifier)))

        order = list(units)
        rng.shuffle(order)
        order = order[:ctx.n(6, 14)] + [rng.choice(units) for _ in range(2)]
        step = 0
        while step < len(order):
            nd, rn = order[step]
            step += 1
            if cell_level == 1:
                branch = Node(rn.value)
                for ch in rn.children:
                    branch.add_child(Node(ch.value))
            else:
                branch = Node(rn.value)
                branch.add_child(Node(nd.value))
            case = {"n": n, "layers": layers, "lengths": [x.hex() for x in lengths], "cap": cap, "charge": charge,
                    "cell_level": cell_level, "n_per": n_per,
                    "units": [[list(u.value.identifier), [x.hex() for x in u.value.position],
                               None if u.value.charge is None else u.value.charge["q"]] for u, _ in units],
                    "active": list(nd.value.identifier), "history": [list(o[0].value.identifier) for o in order[:step]]}
            try:
                occ.update([branch])
                act = list(occ.yield_active_cells())
                V = [tuple(x) for x in t_veto.yield_identifiers_send_event_time([branch])]
                B = [tuple(x) for x in t_bound.yield_identifiers_send_event_time([branch])]
                E = [tuple(x) for x in t_excl.yield_identifiers_send_event_time([branch])]
                S = [tuple(x) for x in t_surp.yield_identifiers_send_event_time([branch])]
                T = []
                if act:
                    for rel in dom:
                        target = cells.translate(act[0][0], rel)
                        args = Mediator.get_arguments_cell_veto_event_handler(fake_mediator, target)
                        T.append((target.identifier, [None if a is None else a[1] for a in args]))
            except Exception as e:  # noqa
                ctx.fail("cell-taggers:exception:" + type(e).__name__, case, f"implementation raised {e!r}")
                break
            aid = nd.value.identifier
            is_rel = aid in relevant
            # ------------------------------------------------ oracle (implementation only)
            ctx.evaluations += 1
            if is_rel:
                want = Counter(relevant)
                want[aid] -= 1
                want = +want
                veto_t = Counter(a for _, args in T for a in args if a is not None)
                bound_t = Counter(x for s in B for x in s[1:])
                excl_t = Counter(s[1] for s in E)
                surp_t = Counter(s[1] for s in S)
                for fam, first in (("veto", veto_t), ("bounding", bound_t)):
                    got = first + excl_t + surp_t
                    if got != want:
                        missed = sorted((want - got).elements())
                        twice = sorted((got - want).elements())
                        kind = "missed" if missed else ("duplicate" if all(x in want for x in twice) else "foreign")
                        ctx.fail(f"cell-partition:{fam}:{kind}", case,
                                 f"active {aid}: targets missed {missed}, treated too often / foreign {twice}")
                if len(act) != 1 or act[0][1] != aid or any(s[0] != aid for s in V + B + E + S) or V != [(aid,)]:
                    ctx.fail("cell-partition:wrong-active", case, f"in-states do not start with the active unit {aid}: {V} {act}")
                if any(len(s) != 2 for s in E + S):
                    ctx.fail("cell-partition:pair-instate-arity", case, "excluded/surplus in-state is not a pair")
                # the real cell-veto handler, driven on the in-state with each offset of its domain forced in turn: the cell it proposes
                # into must be the cell at that offset FROM THE ACTIVE CELL THE OCCUPANCY RECORDS (the cell of the unit on the cell level,
                # e.g. of the composite object - not of whichever point mass moves), otherwise the non-nearby cells of the active cell
                # are not the cells treated by the cell-veto family
                if act and dom:
                    from jellyfysh.base.time import Time
                    rels = dom if len(dom) <= 6 else rng.sample(dom, 6)
                    dmove = rng.randrange(dim)
                    leaf_index = rng.randrange(n_per) if (levels == 2 and cell_level == 1) else 0
                    for rel in rels:
                        def cp(u, vel):
                            return Unit(u.identifier, list(u.position), None if u.charge is None else dict(u.charge),
                                        None if vel is None else list(vel), None if vel is None else Time(0.0, 0.0))
                        vel = [0.0] * dim
                        vel[dmove] = 1.0
                        if levels == 1:
                            hb = Node(cp(rn.value, vel))
                        else:
                            kids = list(rn.children) if cell_level == 1 else [nd]
                            hb = Node(cp(rn.value, [v / n_per for v in vel]), weight=1.0)
                            for j, ch in enumerate(kids):
                                hb.add_child(Node(cp(ch.value, vel if j == leaf_index else None), weight=1.0 / n_per))
                        try:
                            saved = veto_handler._upper_bound_walker[dmove]
                            veto_handler._upper_bound_walker[dmove] = types.SimpleNamespace(total_rate=saved.total_rate, sample_cell=lambda rel=rel: rel)
                            try:
                                _, tcs = veto_handler.send_event_time([hb])
                            finally:
                                veto_handler._upper_bound_walker[dmove] = saved
                        except Exception as e:  # noqa
                            ctx.fail("cell-veto-handler:send_event_time:exception:" + type(e).__name__, case, f"raised {e!r}")
                            break
                        ctx.evaluations += 1
                        ctx.count("cell:veto-handler-target-probed")
                        want_cell = cells.translate(act[0][0], rel)
                        if len(tcs) != 1 or tcs[0] is not want_cell:
                            ctx.fail("cell-veto-handler:target-not-at-the-sampled-offset-from-the-recorded-active-cell",
                                     {**case, "offset": list(rel.identifier), "moving_leaf": leaf_index},
                                     f"recorded active cell {act[0][0].identifier}, offset {rel.identifier}: handler proposes into "
                                     f"{[c.identifier for c in tcs]}, the cell at the offset is {want_cell.identifier}")
                            break
                multi = any(len(args) > 1 for _, args in T)
                ctx.cls(("cell", dim, layers, cap if cap <= 2 else 3, charge is not None, cell_level, bool(excl_t), bool(surp_t),
                         bool(veto_t), multi, len(order[:step]) > 1))
                ctx.count("cell:active-relevant")
                if multi:
                    ctx.count("cell:veto-target-cell-with-several-occupants(arity error outcome)")
                if surp_t:
                    ctx.count("cell:with-surplus")
            else:
                ctx.count("cell:active-irrelevant")
                ctx.cls(("cell-irrelevant", bool(V or B or E or S)))
            # ------------------------------------------------ correspondence
            occs = [f"{tup(c.identifier)}={tups(v)}" for c, v in occ._occupants.items() if v]
            surs = [f"{tup(c.identifier)}={tups(v)}" for c, v in occ._surplus.items()]
            a_s = f"{tup(act[0][0].identifier)}={tup(act[0][1])}" if act else "-"
            req.append(" ".join(["cell", nstr, str(layers), a_s, str(len(occs))] + occs + surs))
            impl = {"V": V, "B": B, "E": sorted(E), "S": S, "D": dom_impl,
                    "T": "/".join(f"{tup(c)}={';'.join('N' if a is None else tup(a) for a in args)}" for c, args in T) or "-"}
            meta.append(("cell", case, impl, None))
            # move the active unit and look again (same identifier: only the active cell is recomputed)
            if rng.random() < 0.35 and len(order) < 40:
                nd.value.position = [gen_coord(rng, n[d], lengths[d], hot[d]) for d in range(dim)]
                order.insert(step, (nd, rn))
        ctx.traces += 1


def cmp_cells(ctx, meta, rep):
    for (kind, case, impl, _), rl in zip(meta, rep):
        if kind == "allcells":
            if impl != rl:
                ctx.disagree("cells.yield_cells", case, impl, rl)
        elif kind == "nearby":
            got = sorted(p_tups(rl))
            if got != impl or len(set(got)) != len(got):
                ctx.disagree("cells.nearby_cells", case, str(impl), str(got))
        elif kind in ("translate", "relative"):
            if impl != rl:
                ctx.disagree("cells." + kind + " (integer torus vs float detour)", case, impl, rl)
        elif kind == "cell":
            parts = dict(x.split(":", 1) for x in rl.split(" "))
            mdl = {"V": p_lls(parts["V"]), "B": p_lls(parts["B"]), "E": sorted(p_lls(parts["E"])), "S": p_lls(parts["S"]),
                   "D": parts["D"], "T": parts["T"]}
            for k, name in (("V", "CellVetoTagger"), ("B", "CellBoundingPotentialTagger"), ("E", "ExcludedCellsTagger"),
                            ("S", "SurplusCellsTagger"), ("D", "CellVetoEventHandler.initialize walker domain"),
                            ("T", "send_event_time target cell + Mediator.get_arguments_cell_veto_event_handler")):
                if impl[k] != mdl[k]:
                    ctx.disagree(name, case, str(impl[k]), str(mdl[k]))
            ctx.sample({"request": rl[:0] + "cell ...", "active": case["active"], "impl": {k: str(v)[:200] for k, v in impl.items()},
                        "model": rl[:400]}, cap=3)


# ------------------------------------------------------------------------------------------------------ factor half
SHIPPED = {"factor_set_coulomb_atoms.txt": 1, "factor_set_dipoles_atomic.txt": 2, "factor_set_dipoles_dipole.txt": 2,
           "factor_set_hard_disk_dipoles.txt": 2, "factor_set_water.txt": 3, "factor_set_water_atomic.txt": 3}
TYPES = ["Harmonic", "Coulomb", "Bending", "LennardJones", "Repulsive", "A", "FooBar"]


def my_parse(text):
    """independent reading of the documented format `[i, j, ...], Type` (comment lines start with '#')"""
    out = []
    for line in text.splitlines():
        if line.startswith("#"):
            continue
        body, ty = line.rsplit("], ", 1)
        out.append(([int(x) for x in body.lstrip("[").split(",")], ty.strip()))
    return out


def gen_file(rng, n_per):
    """mostly well-formed; sometimes with an index >= 2n, an inconsistent type, a repeated index, a repeated line"""
    lines, kinds = [], set()
    for ty in rng.sample(TYPES, rng.randint(1, 4)):
        local = rng.random() < 0.45
        for _ in range(rng.choice([1, 1, 2, 3, 5])):
            if local:
                k = rng.randint(1, n_per)
                s = rng.sample(range(n_per), k)
            else:
                own = rng.sample(range(n_per), rng.randint(0 if rng.random() < 0.15 else 1, n_per))
                other = rng.sample(range(n_per, 2 * n_per), rng.randint(1, n_per))
                s = own + other
                if rng.random() < 0.2:
                    rng.shuffle(s)
                if rng.random() < 0.6:       # mirrored role as a separate line
                    lines.append(([x + n_per if x < n_per else x - n_per for x in s], ty))
            lines.append((s, ty))
    c = rng.random()
    if c < 0.06:
        i = rng.randrange(len(lines))
        lines[i] = (lines[i][0] + [2 * n_per + rng.randint(0, 2)], lines[i][1]); kinds.add("index-too-large")
    elif c < 0.14:
        i = rng.randrange(len(lines))
        s, ty = lines[i]
        flipped = [x for x in s if x < n_per] or [0]
        lines.insert(rng.randint(0, len(lines)), (flipped if any(x >= n_per for x in s) else s + [n_per], ty)); kinds.add("mixed-locality")
    elif c < 0.2:
        i = rng.randrange(len(lines))
        lines[i] = (lines[i][0] + [lines[i][0][0]], lines[i][1]); kinds.add("repeated-index")
    elif c < 0.3:
        lines.append(lines[rng.randrange(len(lines))]); kinds.add("repeated-line")
    if rng.random() < 0.5:
        rng.shuffle(lines)
    return lines, kinds


def factor_text(lines, comments=True):
    out = ["# generated factor set", "#"] if comments else []
    for s, ty in lines:
        out.append("[" + ", ".join(str(x) for x in s) + "], " + ty)
    return "\n".join(out) + "\n"


def instantiate_spec(s, n_per, r, o):
    return tuple((r, t) if t < n_per else (o, t - n_per) for t in s)


def factor_cases(ctx, req, meta):
    import jellyfysh.setting as setting
    from jellyfysh.activator.tagger.factor_type_maps import FactorTypeMaps
    from jellyfysh.activator.tagger.factor_type_map_in_state_tagger import FactorTypeMapInStateTagger
    from jellyfysh.base.node import Node
    from jellyfysh.base.unit import Unit
    import logging
    logging.getLogger("jellyfysh.activator.tagger.factor_type_maps").setLevel(logging.ERROR)   # fall-back map warning per call
    rng = ctx.rng
    tmpdir = os.path.join(os.path.dirname(ctx.root), "c10_files")
    os.makedirs(tmpdir, exist_ok=True)
    fsdir = os.path.join(ctx.root, "jellyfysh", "config_files", "factor_set_files")

    # the table of shipped files inside the Lean model (the `decide`d facts of JF/Props/C10.lean are about it) == the files
    names = ctx.model("factor", ["shipped"])[0].split()
    real = sorted(fn for fn in os.listdir(fsdir) if fn.endswith(".txt")) if os.path.isdir(fsdir) else []
    if sorted(names) != real:
        ctx.disagree("shipped factor-set files: table JF.FactorMaps.shipped vs directory", {"dir": fsdir}, str(real), str(sorted(names)))
    for fn, rl in zip(names, ctx.model("factor", [f"shipped {fn}" for fn in names])):
        path = os.path.join(fsdir, fn)
        impl = "missing"
        if os.path.exists(path):
            try:
                impl = " ".join([str(SHIPPED.get(fn))] + [f"{tup(s_)}:{ty}" for s_, ty in my_parse(open(path).read())])
            except Exception as e:  # noqa
                impl = "unparsed:" + repr(e)
        if impl != rl:
            ctx.disagree("shipped factor-set file vs table JF.FactorMaps.shipped", {"file": fn}, impl, rl)
        ctx.count("factor:shipped-file-table-compared")

    cases = []   # (name, text, n_per, n_roots)
    for fn, n_nat in sorted(SHIPPED.items()):
        path = os.path.join(fsdir, fn)
        if not os.path.exists(path):
            ctx.disagree("shipped factor file missing", {"file": fn}, "missing", "present")
            continue
        text = open(path).read()
        for n_per in sorted({n_nat, 1, 2, 3, 4}):
            for n_roots in ([1, 2, 4] if n_per == n_nat else [3]):
                cases.append((fn, text, n_per, n_roots))
    for fn in sorted(os.listdir(fsdir)) if os.path.isdir(fsdir) else []:
        if fn.endswith(".txt") and fn not in SHIPPED:
            cases.append((fn, open(os.path.join(fsdir, fn)).read(), 2, 3))
    for i in range(ctx.n(1200, 9000)):
        n_per = rng.choice([1, 2, 2, 3, 3, 4, 5])
        lines, kinds = gen_file(rng, n_per)
        cases.append((f"gen{i}:" + ",".join(sorted(kinds)), factor_text(lines, rng.random() < 0.5), n_per, rng.choice([1, 2, 3, 4, 6])))

    for idx, (name, text, n_per, n_roots) in enumerate(cases):
        shipped = name in SHIPPED
        path = os.path.join(tmpdir, f"f{idx}.txt")
        with open(path, "w") as f:
            f.write(text)
        try:
            parsed = my_parse(text)
        except Exception:  # a shipped file in a shape the harness does not understand: let the real parser speak
            parsed = None
        _setting(1, [1.0], n_roots, n_per)
        FactorTypeMaps._instance = None
        case0 = {"file": name, "text": text if not shipped else "(shipped)", "n_per": n_per, "n_roots": n_roots}
        try:
            ftm = FactorTypeMaps(path)
            inst = FactorTypeMaps._instance
            dump = "ok" + "".join(
                " %s:%s:%s" % (ty, {None: "N", True: "1", False: "0"}[m._local],
                               "|".join(f"{k}={tups(v)}" for k, v in m.map.items()) or "-")
                for ty, m in inst._factors.items())
            ok = True
        except Exception as e:  # noqa
            dump = "err:" + type(e).__name__
            ok = False
        if parsed is None:
            ctx.disagree("factor file not in the documented format", case0, dump, "unparsed")
            continue
        lspec = [f"{tup(s)}:{ty}" for s, ty in parsed]
        req.append(" ".join(["file", str(n_roots), str(n_per)] + lspec))
        meta.append(("file", case0, dump, None))
        ctx.count("factor:file:" + ("accepted" if ok else dump))
        ctx.evaluations += 1
        if not ok:
            ctx.cls(("file-rejected", dump, n_per == 1))
            continue
        types_here = list(dict.fromkeys(ty for _, ty in parsed))
        is_set = all(len(set(s)) == len(s) for s, _ in parsed)
        for ty in types_here + ["Absent"]:
            lines_ty = [s for s, t in parsed if t == ty]
            inter = any(x >= n_per for s in lines_ty for x in s)
            # active identifiers: all valid ones, plus invalid shapes / ranges
            if n_per == 1:
                actives = [(r,) for r in range(n_roots)] + [(n_roots,), (0, 0)]
            else:
                actives = [(r, i) for r in range(n_roots) for i in range(n_per)] + [(n_roots, 0), (0, n_per), (0,)]
            if len(actives) > 14:
                actives = rng.sample(actives[:-3], 11) + actives[-3:]
            for act in actives:
                case = dict(case0, type=ty, active=list(act))
                try:
                    got = [tuple(tuple(i) for i in f) for f in ftm[ty].yield_factor_identifier(act)]
                    impl = "ok " + lls(got)
                except Exception as e:  # noqa
                    got = None
                    impl = "err:" + type(e).__name__
                req.append(" ".join(["yield", str(n_roots), str(n_per), ty, tup(act)] + lspec))
                meta.append(("yield", case, impl, None))
                ctx.evaluations += 1
                valid = (len(act) == (1 if n_per == 1 else 2) and act[0] < n_roots and (n_per == 1 or act[1] < n_per))
                ctx.cls(("yield", "absent" if ty == "Absent" else ("inter" if inter else "intra"), n_per == 1, valid,
                         impl[:3] if got is not None else impl, bool(got), n_roots == 1))
                # ---------------------------------------------- oracle (implementation only)
                if not valid or ty == "Absent" or not is_set:
                    ctx.count("factor:oracle-skipped:" + ("invalid-active" if not valid else "absent-type" if ty == "Absent" else "line-not-a-set"))
                    continue
                if n_per == 1:
                    if not inter:
                        ctx.count("factor:n=1 intra-object type (AssertionError outcome)")
                        continue
                    if lines_ty != [[0, 1]]:
                        ctx.count("factor:oracle-skipped:n=1 non-canonical line")
                        continue
                    want = Counter(((act[0],), (o,)) for o in range(n_roots) if o != act[0])
                elif inter:
                    want = Counter(instantiate_spec(s, n_per, act[0], o) for o in range(n_roots) if o != act[0]
                                   for s in lines_ty if act[1] in s)
                else:
                    want = Counter(instantiate_spec(s, n_per, act[0], act[0]) for s in lines_ty if act[1] in s)
                    if not want:
                        # loud error outcome of the real code (KeyError); compared with the model, not judged
                        ctx.count("factor:intra-object type, leaf in no line (%s)" % impl)
                        continue
                if got is None:
                    ctx.fail(f"factor-file:exception:{impl[4:]}:" + ("inter" if inter else "intra"), case,
                             f"yield_factor_identifier raised {impl} for a point mass contained in index sets of the file")
                elif Counter(got) != want:
                    missed = sorted((want - Counter(got)).elements())
                    extra = sorted((Counter(got) - want).elements())
                    ctx.fail("factor-file:" + ("inter" if inter else "intra") + (":missed" if missed else ":extra"), case,
                             f"in-states missed {missed}, extra {extra}")
                ctx.count("factor:oracle-evaluated")
            # ---- the tagger: active branches -> de-duplicated set
            if True:
                for _ in range(2):
                    k_roots = rng.choice([1, 1, 2])
                    rs = rng.sample(range(n_roots), min(k_roots, n_roots))
                    branches, leaves = [], []
                    for r in rs:
                        b = Node(Unit((r,), [0.0]))
                        ls = [] if n_per == 1 else sorted(rng.sample(range(n_per), rng.randint(1, n_per)))
                        for l in ls:
                            b.add_child(Node(Unit((r, l), [0.0])))
                        leaves += [(r, l) for l in ls] if ls else [(r,)]
                        branches.append(b)
                    case = dict(case0, type=ty, active_leaves=[list(x) for x in leaves])
                    try:
                        tg = FactorTypeMapInStateTagger([], [], object(), 1, ftm, tag="t", factor_type_maps_label=_snake(ty))
                        tg.initialize()
                        out = list(tg.yield_identifiers_send_event_time(branches))
                        gotm = sorted(tuple(tuple(i) for i in f) for f in out)
                        impl = ("ok", gotm)
                    except Exception as e:  # noqa
                        impl = ("err:" + type(e).__name__, None)
                    req.append(" ".join(["tagger", str(n_roots), str(n_per), ty, tups(leaves)] + lspec))
                    meta.append(("tagger", case, impl, None))
                    ctx.evaluations += 1
                    if impl[1] is not None:
                        if len(set(impl[1])) != len(impl[1]):
                            ctx.fail("factor-tagger:duplicate-in-state", case, "the tagger yielded an in-state twice")
                        # oracle: the union over the leaves of what the map yields per leaf
                        union = set()
                        try:
                            for lf in leaves:
                                union |= {tuple(tuple(i) for i in f) for f in ftm[ty].yield_factor_identifier(lf)}
                            if set(impl[1]) != union:
                                ctx.fail("factor-tagger:not-the-union", case, "tagger output differs from the union over the active leaves")
                        except Exception:  # noqa
                            pass
                        ctx.cls(("tagger", len(leaves) > 1, len(rs) > 1, len(out) > 0, ty == "Absent", inter))
        ctx.traces += 1
    setting.reset()
    FactorTypeMaps._instance = None


def _snake(camel):
    out = ""
    for ch in camel:
        out += ("_" if ch.isupper() and out else "") + ch.lower()
    return out


def cmp_factor(ctx, meta, rep):
    for (kind, case, impl, _), rl in zip(meta, rep):
        if kind in ("file", "yield"):
            if impl != rl:
                ctx.disagree("FactorTypeMaps." + ("_instantiate_factor_type_maps" if kind == "file" else "yield_factor_identifier"),
                             case, impl, rl)
            elif kind == "yield":
                ctx.sample({"case": {k: v for k, v in case.items() if k != "text"}, "impl": impl[:300], "model": rl[:300]}, cap=6)
        else:
            if rl.startswith("err:"):
                mdl = (rl, None)
            else:
                mdl = ("ok", sorted(p_lls(rl[3:])))
            if impl != mdl:
                ctx.disagree("FactorTypeMapInStateTagger.yield_identifiers_send_event_time", case, str(impl)[:2000], str(mdl)[:2000])


def run(ctx):
    ctx.rule = ("cell half: seeded generator over (dimension 1-3, cells per side 1-9, neighbour layers 0-3 incl. layers that wrap "
                "around the torus, occupant cap unbounded/1/2/3, charge filter, cell level, crowded cells, units on cell "
                "boundaries), every choice of active unit along a history of updates; a case is distinct by (dimension, layers, "
                "cap, charge filter, cell level, which families are non-empty, several occupants in a veto cell, first/later "
                "update).  factor half: six shipped files x composite sizes, generated files (local / inter-object / mirrored / "
                "malformed) x every active identifier incl. invalid ones; distinct by (kind of type, n=1?, valid?, outcome)")
    req, meta = [], []
    cell_cases(ctx, req, meta)
    rep = ctx.model("factor", req)
    cmp_cells(ctx, meta, rep)
    req, meta = [], []
    factor_cases(ctx, req, meta)
    rep = ctx.model("factor", req)
    cmp_factor(ctx, meta, rep)
