"""C09 — Pending candidate events equal what a fresh start from the current state creates.

Theorems (lean/JF/Props/C09.lean): bookkeeping of the TagActivator model for ALL operation sequences and yields; the
freshness invariant by induction over all runs whose steps satisfy `StepOK`; `WiringSound cfg` (decidable, generated
obligation `cfg_sound_<name>` per shipped .ini in JF/Gen/WiringsSound.lean) and the link WiringSound + FootprintsSound => StepOK.

Correspondence: (1) translator vs the real TagActivator built by the factory, and the Lean data compiled into the driver vs the
translator; (2) every recorded leg of every traced run replayed in the Lean activator model (created handlers + identifiers
+ order, trash list + order, running lists, activated flags — bit for bit); (3) the hypotheses of the induction (StepOK, declared
effect footprints) evaluated on every recorded commit.
Oracle: `runs.oracle_c09` (the property statement on recorded runs) on every trace; for a wiring whose obligation is broken
additionally on 3–6 more runs of that configuration (more seeds, more particles, larger leg cap)."""
from harness import runs, runcommon, actcorr, translate, fpcorr, fpcorr2, fpcorr3, sysinvcorr, poolcorr

ID = "C09"
NEEDS_GEN = True
THEOREM_MODULES = ["JF.Props.C09", "JF.Props.Footprints", "JF.Props.Footprints2", "JF.Props.SystemInv", "JF.Props.SystemInv2", "JF.Props.Footprints3", "JF.Props.SystemInv3", "JF.Props.SystemInv3Loop", "JF.Props.C09Pools", "JF.Props.C09PoolsClosed", "JF.Props.C09PoolsClosed2", "JF.Gen.WiringsSound"]
COMPONENTS = ["act"]
ASSUMPTIONS = [
    "footprint tables (JF/Model/Wiring.lean: `affects`, `reads`) are hypotheses of the link theorem (`FootprintsSound`); for point-mass "
    "systems with one cell-occupancy system (the coulomb_atoms family) they are PROVED sound against the kinematic chain machine, the "
    "occupancy update and the cell taggers (JF/Props/Footprints.lean: footprintsSound_concrete, fresh_concrete; premise: a sampling / "
    "dumping / end-of-run commit finds the active unit in its recorded cell = C11's history premise, measured on every observed commit "
    "by harness/fpcorr.py); for composite-object configurations they remain tied to the code only by the run-level evaluation of "
    "StepOK / declared effects on every recorded commit",
    "one independent active chain (C07): the count of a mode-switch tagger (ActiveRootUnitInStateTagger) does not depend on which "
    "composite object is active",
    "distinct cell-occupancy systems track distinct tree levels: a cell-boundary event of one system does not change the active cell of another",
    "the commit of an end-of-run event ends the run (no state after it is judged); the start-of-run tagger is outside the property's list",
    "pool sizes (clause (i)) are not derived from the configuration: exhaustion is an explicit error outcome of model and code "
    "(TagActivatorError), reported by the oracle as C09:handler-pool-exhausted",
]
TRUSTED = ["harness/runtrace.py (observation by wrapping bound methods of the mediator's collaborators)",
           "harness/translate.py (reads the .ini files with configparser and the constructor defaults / class hierarchy with ast)",
           "stand-in MDAnalysis.Universe (plain-Python PDB reader) for the two hard-disk-dipole configurations"]

WHICH = "C09"


def run(ctx, which=WHICH, oracle=None, per_trace=None):
    """`per_trace(ctx, tr, w, cap)`: optional extra replay of every usable trace (used by C08 for the composed mediator model)"""
    oracle = oracle or runs.oracle_c09
    ctx.rule = ("real runs: 19 shipped .ini (shortened end time) + generated variants (particle number, grid, pool sizes, chain time, "
                "sampling interval, scheduler), seeded; a case = one leg (get_event_handlers_to_run + get_trashable_events); distinct "
                "non-trivial class = (configuration, committing event-handler class)")
    by_ini, broken = actcorr.check_generated(ctx)
    if broken:
        ctx.notes.append({"unsound_wirings": broken})
    actcorr.unit_level(ctx, ctx.n(1500, 20000))
    jobs = runcommon.fix_pools(runcommon.job_list(ctx), ctx.root)
    if which == "C09":
        # last clause of C09 (handlers demanded never exceed the pool): the real cell taggers' yield counts vs the model counts and the
        # proved bounds on harness-built (random and crowded) occupancies; shipped pool-vs-bound table (JF.Props.C09Pools)
        try:
            poolcorr.check(ctx)
        except Exception as e:  # noqa
            ctx.disagree("pool.check", {}, "evaluated", repr(e))
        # coulomb_atoms cell runs that also record the occupancy at every leg (premise of JF.Props.Footprints, harness/fpcorr.py)
        jobs = jobs + runcommon.fix_pools(fpcorr.occupancy_jobs(ctx), ctx.root)
        # composite objects WITH cell systems (the six shipped wirings + variants with more molecules), occupancies recorded at every
        # leg: the world of JF.Props.Footprints3 (harness/fpcorr3.py)
        jobs = jobs + runcommon.fix_pools(fpcorr3.occupancy_jobs3(ctx), ctx.root)
    trs = runs.run_jobs(ctx.root, jobs)
    try:
        tree = translate.Tree(ctx.root)
    except Exception as e:
        tree = None
        ctx.disagree("act.translator", {"error": repr(e)}, "readable tree", "exception")
    cap = ctx.n(2500, 6000)
    if which == "C08":
        # the multi-process mediator is a supported way of running: its histories are judged by the oracle too (a candidate that is
        # trashed while its out-state is still being computed ahead of time must not survive in the scheduler)
        try:
            mptrs = runs.run_jobs(ctx.root, runcommon.mp_jobs(ctx), workers=4)
        except Exception as e:  # noqa
            mptrs = []
            ctx.disagree("run.multi-process-histories", {}, "evaluated", repr(e))
        for tr in mptrs:
            if tr["legs"]:
                stats = {}
                oracle(tr, ctx.fail, stats)
                runcommon.record_trace_stats(ctx, tr, stats)
                ctx.count("mp-histories")
            else:
                ctx.count("mp-trace-failed:" + str(tr["end"])[:60])
        # dumped and resumed runs are further histories: a candidate that was trashed before the dump must stay trashed afterwards
        for tr in runcommon.resumed_traces(ctx):
            if tr["legs"]:
                stats = {}
                oracle(tr, ctx.fail, stats)
                runcommon.record_trace_stats(ctx, tr, stats)
                ctx.count("resumed-traces")
    for tr in trs:
        meta = tr["meta"]
        if not tr["legs"]:
            ctx.count("trace-failed:" + str(tr["end"])[:60])
            if tr["end"] == "inadmissible-initial-overlap":
                # hard-core family: every re-seeded random initial state had overlapping cores (outside every property's quantifier)
                ctx.count("trace-skipped:inadmissible-initial-overlap")
                continue
            ctx.fail(which + ":run-does-not-start", {"ini": meta.get("ini"), "end": tr["end"], "job": tr.get("job"),
                                                     "exception": (tr.get("exception") or "")[-1500:]},
                     "the run could not be built or raised before the first commit")
            continue
        stats = {}
        oracle(tr, ctx.fail, stats)
        if str(tr["end"]).startswith("exc:") and "TagActivatorError" not in str(tr["end"]):
            ctx.fail(which + ":run-raises:" + tr["end"], {"ini": meta["ini"], "seed": meta["seed"], "leg": len(tr["legs"]), "job": tr.get("job"),
                                                          "exception": (tr.get("exception") or "")[-1500:]}, "the run raised " + tr["end"])
        runcommon.record_trace_stats(ctx, tr, stats)
        if tree is None:
            continue
        try:
            w = actcorr.wiring_of_trace(ctx, tree, tr)
        except Exception as e:
            ctx.disagree("act.translator", {"ini": meta["ini"], "error": repr(e)}, "translatable configuration", "exception")
            continue
        actcorr.check_translation(ctx, tr, w)
        fp_reply, sound = actcorr.replay(ctx, tr, w, cap)
        if per_trace is not None:
            per_trace(ctx, tr, w, cap)
        if not sound.startswith("ok"):
            # a harness-generated variant of a broken wiring (or a generated wiring that is itself unsound)
            ctx.count("variant-wiring-unsound")
            if translate.cfg_name(meta["ini"]) not in broken:
                ctx.disagree("act.wiring-sound (harness-built configuration)", {"ini": meta["ini"], "job": tr.get("job")}, "ok", sound)
        try:
            fp = actcorr.parse_fp(w, fp_reply)
        except Exception as e:
            ctx.disagree("act.protocol", {"ini": meta["ini"], "reply": fp_reply[:300]}, "footprint table", repr(e))
            continue
        actcorr.check_steps(ctx, tr, w, fp, which)
        if which == "C09":
            # the concrete world of JF.Props.Footprints: every recorded commit is an instance of the transition relation the
            # footprint tables were PROVED sound for (event-kind map, consistency of the occupancy, stays-in-recorded-cell premise)
            try:
                fpcorr.check_trace(ctx, tr, w)
            except Exception as e:
                ctx.disagree("fp.check-trace", {"ini": meta["ini"], "job": tr.get("job")}, "evaluated", repr(e))
            try:
                fpcorr2.check_trace(ctx, tr, w)     # composite objects without a cell system: the world of JF.Props.Footprints2
            except Exception as e:
                ctx.disagree("fp2.check-trace", {"ini": meta["ini"], "job": tr.get("job")}, "evaluated", repr(e))
            try:
                fpcorr3.check_trace(ctx, tr, w)     # composite objects with cell systems: the world of JF.Props.Footprints3
            except Exception as e:
                ctx.disagree("fp3.check-trace", {"ini": meta["ini"], "job": tr.get("job")}, "evaluated", repr(e))
            try:
                poolcorr.check_trace(ctx, tr, w)    # maximum demand per tagger on the run vs its pool
            except Exception as e:
                ctx.disagree("pool.check-trace", {"ini": meta["ini"], "job": tr.get("job")}, "evaluated", repr(e))
            try:
                sysinvcorr.check_trace(ctx, tr)     # hypotheses of JF.Props.SystemInv (CandOK, TieFree) measured on the run
            except Exception as e:
                ctx.disagree("sysinv.check-trace", {"ini": meta["ini"], "job": tr.get("job")}, "evaluated", repr(e))
            try:
                sysinvcorr.check_trace2(ctx, tr, w)  # hypotheses of JF.Props.SystemInv2 (CandsOK2, end of run) on composite runs without cells
            except Exception as e:
                ctx.disagree("sysinv2.check-trace", {"ini": meta["ini"], "job": tr.get("job")}, "evaluated", repr(e))
        for leg in tr["legs"][:cap]:
            pre = leg.get("preceding")
            ctx.cls(("act", meta["ini"].split("/")[-1], None if pre is None else meta["handlers"][pre][0], len(leg["created"]), len(leg["trashed"])))
        if len(ctx.samples) < 4 and len(tr["legs"]) > 3:
            leg = tr["legs"][3]
            ctx.sample({"ini": meta["ini"], "seed": meta["seed"], "leg": 3, "preceding": meta["handlers"][leg["preceding"]],
                        "created": [[h, actcorr.enc_tuple(ids)] for h, ids in leg["created"]], "trashed": leg["trashed"]})
    actcorr.extra_search(ctx, broken, oracle, jobs)
