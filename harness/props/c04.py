"""C04 — Thinning is sound: the bounding rate dominates and acceptance is the exact ratio.

Three parts (see DESIGN.md §5 C04):

(1) decision logic: the six real event handlers that confirm an event against a bounding rate
    (`send_out_state`, with mocked potentials / lifting / cells as /repo/unittests/test_event_handler does and
    `random` replaced in the handler modules' namespaces) vs the Lean model `JF.Model.Thinning` (binary64 reading),
    compared token for token (decision, warning, upper limit handed to `random.uniform`, every recorded call of the
    potentials with its separation/charges, every `lifting.insert`, the complete out-state bit for bit);
    oracle on the implementation: accepted  <=>  draw < max(0, true rate); rejected => nothing changed.
(1b) the root-unit-active handlers of dipoles/dipole_motion.ini (a whole composite object moves), `part_root`:
    kind 7 RootUnitActiveTwoCompositeObjectSummedBoundingPotentialEventHandler thins (bound = sum over ALL (active leaf, target leaf)
    pairs of max(0, pair bound), true rate = max(0, sum over ALL pairs of the true derivative)): real `send_event_time` +
    `send_out_state` with pair-keyed recording stand-in potentials and with the real merged-image / 1/r potentials on mixed-sign
    composite objects vs the model (`sendroot 7`, bit for bit), and the oracle on the implementation (pair table recomputed by the
    harness from the potential objects): uniform drawn over [0, bound], confirmed <=> draw < max(0, sum over all pairs), rejected =>
    all velocities unchanged, confirmed => root-level transfer, bound >= true pair by pair and in the sum for the real 1/r bound.
    kind 8 RootUnitActiveTwoLeafUnitEventHandler does NOT thin (directly invertible; it belongs to C02's displacement
    correspondence): implementation-level oracle only (candidate time = time stamp + the real potential's `displacement`, out-state =
    root-level transfer, no uniform number) and its `send_out_state` against the model (`sendroot 8`).
(2) domination of the scaled 1/r bound over the merged-image Coulomb derivative: a *search for a failing input*
    on the freshly compiled C routines (never a proof; `Dominates` is a hypothesis of the theorems).
(3) run level: short real runs of shipped configurations that use the bound; every (bound, true) pair seen by
    the handlers is recorded, checked (bound >= true where true > 0, for the 1/r bound) and the accept decision
    re-derived with the model.
"""
import ast, json, math, os, subprocess, time
from fractions import Fraction as Fr
from harness.drive import f2b, b2f

ID = "C04"
THEOREM_MODULES = ["JF.Props.C04", "JF.Props.C04Piecewise", "JF.Props.C04C12", "JF.Props.C04C12N"]
COMPONENTS = ["thin", "pcb"]
ASSUMPTIONS = [
    "Dominates (the 1/r bound with the shipped prefactor is >= the merged-image Coulomb derivative on the whole "
    "minimum-image cube, positive where the latter is) is a HYPOTHESIS of the theorems: it is a supremum of a "
    "transcendental ratio with a margin of 1e-4 (clean-tree supremum 0.999902); the check only searches for a failing "
    "input (multi-start maximisation on the compiled C routines), it does not prove it",
    "'bound positive where the true rate is positive' is asserted only above an absolute floor of 1e-12/L^2 "
    "(the C Ewald routine returns noise of order 1e-25..1e-14 with either sign on the symmetry planes s_x = 0, +-L/2)",
    "the acceptance probability is 'exact' in the sense: accepted <=> value returned by random.uniform(0, bound) < "
    "max(0, true rate); random.uniform itself (CPython: a + (b-a)*random()) is modelled, the uniformity of random() is trusted",
    "state branches have depth <= 2 (root node, leaf children), as in every shipped configuration",
    "RootUnitActiveTwoLeafUnitEventHandler (kind 8) does not thin: C04 only states (and checks) that it never draws a uniform number and "
    "that its out-state is the root-level velocity transfer; the correctness of its candidate time is C02's displacement inversion "
    "(here only compared with the real potential's own `displacement`)",
]
TRUSTED = ["Lean native Float (+ - * / and comparisons are IEEE-754 binary64; Float.pow is libm pow, as in the C routine)",
           "Lean kernel's evaluation of Float literals/comparisons in the three binary64 boundary examples (decide +kernel)",
           "unittest.mock stand-ins for Potential / Lifting / PeriodicCells (as /repo/unittests/test_event_handler)",
           "fractions.Fraction arithmetic for the oracle"]

FLOOR = 1e-12      # absolute floor (times 1/L^2) below which the sign of the Ewald derivative carries no information
TINY = 1e-13       # literal in abstracts.py: _commit_sub_tree_non_leaf_velocity_change


def nxt(x, k=1):
    for _ in range(abs(k)):
        x = math.nextafter(x, math.inf if k > 0 else -math.inf)
    return x


# ------------------------------------------------------------------------------------------------------------------
# part 1: handlers vs model
# ------------------------------------------------------------------------------------------------------------------

KIND_NAMES = {1: "TwoLeafUnitBoundingPotentialEventHandler", 2: "TwoLeafUnitCellBoundingPotentialEventHandler",
              3: "LeafUnitCellVetoEventHandler", 4: "TwoCompositeObjectSummedBoundingPotentialEventHandler",
              5: "TwoCompositeObjectCellBoundingPotentialEventHandler", 6: "CompositeObjectCellVetoEventHandler",
              7: "RootUnitActiveTwoCompositeObjectSummedBoundingPotentialEventHandler",       # part 1b (ROOT_MODULES)
              8: "RootUnitActiveTwoLeafUnitEventHandler"}
KIND_MODULES = {1: "jellyfysh.event_handler.two_leaf_unit_bounding_potential_event_handler",
                2: "jellyfysh.event_handler.two_leaf_unit_cell_bounding_potential_event_handler",
                3: "jellyfysh.event_handler.leaf_unit_cell_veto_event_handler",
                4: "jellyfysh.event_handler.two_composite_object_summed_bounding_potential_event_handler",
                5: "jellyfysh.event_handler.two_composite_object_cell_bounding_potential_event_handler",
                6: "jellyfysh.event_handler.composite_object_cell_veto_event_handler"}
RANDOM_MODULES = list(KIND_MODULES.values()) + ["jellyfysh.event_handler.abstracts.event_handler_with_bounding_potential",
                                                "jellyfysh.event_handler.abstracts.cell_veto_event_handler"]


class FakeRandom:
    """stand-in for the `random` module inside the handler modules' namespaces"""

    def __init__(self):
        self.mode, self.val, self.calls = "d", 0.0, []
        self.expo_calls = 0

    def uniform(self, a, b):
        self.calls.append((a, b))
        if self.mode == "d":
            return self.val
        return a + (b - a) * self.val      # CPython Lib/random.py

    def expovariate(self, lambd):
        self.expo_calls = getattr(self, "expo_calls", 0) + 1
        return 1.0

    def random(self):
        return self.val


def gen_rate_pair(rng):
    """(bound b, true derivative q) over the regimes: q<0, q=+-0, 0<q<b, q=b, q>b (bound exceeded), b=0, b<0"""
    c = rng.random()
    mag = 2.0 ** rng.uniform(-30, 12) if rng.random() < 0.3 else rng.uniform(0.01, 5.0)
    if c < 0.12:
        return mag, -rng.uniform(0, 2) * mag, "q<0"
    if c < 0.2:
        return mag, rng.choice([0.0, -0.0]), "q=0"
    if c < 0.6:
        return mag, rng.random() * mag or mag / 2, "0<q<b"
    if c < 0.68:
        return mag, mag, "q=b"
    if c < 0.74:
        return mag, nxt(mag, rng.choice([-1, 1])), "q=b+-ulp"
    if c < 0.86:
        return mag, mag * rng.uniform(1.0001, 3), "q>b"
    if c < 0.92:
        return rng.choice([0.0, -0.0]), rng.choice([mag, 0.0, -mag]), "b=0"
    if c < 0.97:
        return -mag, rng.choice([mag, -mag, 0.0]), "b<0"
    return 5e-324 * rng.randint(1, 4), 5e-324 * rng.randint(0, 5), "subnormal"


def gen_draw(rng, b, thr):
    """how the uniform number is produced: ('d', value returned by uniform) or ('r', value of random())"""
    c = rng.random()
    thr = max(0.0, thr)
    if c < 0.1:
        return "d", 0.0, "0"
    if c < 0.22:
        return "d", thr, "thr"
    if c < 0.32:
        return "d", nxt(thr, -1) if thr > 0 else 0.0, "thr-ulp"
    if c < 0.42:
        return "d", nxt(thr, 1), "thr+ulp"
    if c < 0.5:
        return "d", b, "bound"
    if c < 0.55:
        return "d", nxt(b, -1) if b > 0 else b, "bound-ulp"
    if c < 0.7:
        return "d", rng.random() * b if b == b else 0.0, "inner"
    if c < 0.75:
        return "r", 0.0, "r=0"
    if c < 0.8:
        return "r", 1.0 - 2.0 ** -53, "r=1-eps"
    if c < 0.9 and b > 0 and thr > 0 and thr / b < 1:
        return "r", min(max(nxt(thr / b, rng.randint(-2, 2)), 0.0), 1.0 - 2.0 ** -53), "r~thr/b"
    return "r", rng.random(), "r"


def enc_unit(u, charge_name):
    t = [str(len(u.identifier))] + [str(i) for i in u.identifier]
    t += [str(len(u.position))] + [f2b(x) for x in u.position]
    t += [f2b(u.charge[charge_name]) if u.charge else f2b(0.0)]
    if u.velocity is not None:
        t += ["1", str(len(u.velocity))] + [f2b(x) for x in u.velocity]
        t += [f2b(u.time_stamp.quotient), f2b(u.time_stamp.remainder)]
    else:
        t += ["0"]
    return t


def enc_root(n, charge_name):
    t = enc_unit(n.value, charge_name) + [f2b(n.weight), str(len(n.children))]
    for c in n.children:
        t += enc_unit(c.value, charge_name) + [f2b(c.weight)]
    return t


def show_unit(u):
    t = ["U", str(len(u.identifier))] + [str(i) for i in u.identifier]
    t += [str(len(u.position))] + [f2b(x) for x in u.position]
    t += (["V", str(len(u.velocity))] + [f2b(x) for x in u.velocity]) if u.velocity is not None else ["N"]
    t += ["T", f2b(u.time_stamp.quotient), f2b(u.time_stamp.remainder)] if u.time_stamp is not None else ["N"]
    return t


def show_state(st):
    t = []
    for r in st:
        t += ["R", str(len(r.children))] + show_unit(r.value)
        for c in r.children:
            t += show_unit(c.value)
    return t


def show_list(l):
    return [str(len(l))] + [f2b(x) for x in l]


def flat_units(st):
    out = []
    for r in st:
        out.append(r.value)
        out += [c.value for c in r.children]
    return out


def snapshot(st):
    # floats as bit patterns (NaN-safe comparison)
    return [(u.identifier, [f2b(x) for x in u.position], None if u.velocity is None else [f2b(x) for x in u.velocity],
             None if u.time_stamp is None else (f2b(u.time_stamp.quotient), f2b(u.time_stamp.remainder)))
            for u in flat_units(st)]


class RecPot:
    """records (deep-copied) arguments of `derivative`, returns queued values"""

    def __init__(self, mock_obj, values, kind):
        self.values, self.calls, self.kind = list(values), [], kind
        mock_obj.derivative.side_effect = self

    def __call__(self, velocity, sep, *charges):
        flat = []
        for c in charges:
            flat += list(c) if isinstance(c, tuple) else [c]
        issep = isinstance(sep, (list, tuple))
        self.calls.append((list(velocity), list(sep) if issep else [], flat))
        if not self.values:
            raise RuntimeError("mock potential called more often than the model expects")
        return self.values.pop(0)


def handler_cases(ctx, n_cases):
    """generate cases, run the real handlers, return (request lines, impl strings, meta)"""
    from unittest import mock
    import importlib, logging
    import jellyfysh.setting as setting
    from jellyfysh.setting import hypercubic_setting
    from jellyfysh.base.node import Node
    from jellyfysh.base.unit import Unit
    from jellyfysh.base.time import Time
    from jellyfysh.potential import Potential, InvertiblePotential
    from jellyfysh.potential.cell_bounding_potential import CellBoundingPotential
    from jellyfysh.lifting import Lifting
    from jellyfysh.estimator import Estimator
    from jellyfysh.activator.internal_state.cell_occupancy.cells import PeriodicCells
    import jellyfysh.base.exceptions as jexc
    from jellyfysh.base.initializer import Initializer

    rng = ctx.rng
    mods = {m: importlib.import_module(m) for m in RANDOM_MODULES}
    classes = {k: getattr(mods[KIND_MODULES[k]], KIND_NAMES[k]) for k in KIND_MODULES}
    fake = FakeRandom()
    saved = {m: getattr(mod, "random", None) for m, mod in mods.items()}
    for mod in mods.values():
        if hasattr(mod, "random"):
            mod.random = fake

    warn_records = []

    class LogStub:
        """stands in for `jellyfysh.base.exceptions._logger` (independent of the process-wide logging configuration)"""

        def warning(self, msg, *a, **k):
            warn_records.append(msg)
    old_logger = jexc._logger
    jexc._logger = LogStub()

    CH = "q"
    req, impl, meta = [], [], []
    try:
        groups = [(L, npr) for L in (1.0, 2.5, 0.7) for npr in (1, 2, 3)]
        per_group = max(1, n_cases // len(groups))
        for (L, npr) in groups:
            setting.reset()
            hypercubic_setting.HypercubicSetting(beta=1.0, dimension=3, system_length=L)
            setting.set_number_of_root_nodes(2)
            setting.set_number_of_nodes_per_root_node(npr)
            setting.set_number_of_node_levels(1 if npr == 1 else 2)
            for _ in range(per_group):
                if npr == 1:
                    kind = rng.choice([1, 2, 3])
                elif npr == 2 and rng.random() < 0.25:
                    kind = rng.choice([1, 2, 3])        # two roots with one child each (as the unit tests do)
                else:
                    kind = rng.choice([4, 5, 6])
                leaf_kind = kind <= 3
                use_charge = rng.random() < 0.8
                d = rng.randrange(3)
                speed = rng.choice([1.0, 1.0, 0.5, 2.0, rng.uniform(0.1, 3)])
                v = [0.0, 0.0, 0.0]
                v[d] = speed
                t0 = rng.choice([0.0, rng.uniform(0, 10), float(rng.randint(0, 2 ** 40)) + rng.random()])
                disp = rng.choice([0.0, rng.uniform(0, 2 * L), rng.uniform(0, 1e-3)])

                def pos():
                    return [rng.random() * L if rng.random() < 0.9 else rng.choice([0.0, nxt(L, -1), L / 2]) for _ in range(3)]

                def charge():
                    return {CH: rng.choice([1.0, -1.0, 0.5, -2.0, rng.uniform(-2, 2)])} if use_charge else None

                # ---- build the branches
                nchild = 0 if npr == 1 else (1 if leaf_kind else npr)
                ids = rng.sample(range(0, 12), 2)
                act_root = rng.randrange(2)
                act_child = rng.randrange(max(1, nchild))
                consistent = rng.random() < 0.9
                roots = []
                for ri in range(2):
                    is_act = ri == act_root
                    w_child = [rng.choice([1.0 / max(1, nchild), 0.5, 0.25, 1.0]) for _ in range(nchild)]
                    if nchild == 0:
                        ru = Unit(identifier=(ids[ri],), position=pos(), charge=charge(),
                                  velocity=list(v) if is_act else None,
                                  time_stamp=Time.from_float(t0) if is_act else None)
                        root = Node(ru, weight=1)
                    else:
                        wa = w_child[act_child]
                        rv = [x * wa for x in v] if consistent else [x * rng.choice([1.0, 0.3]) for x in v]
                        ru = Unit(identifier=(ids[ri],), position=pos(), charge=None,
                                  velocity=rv if is_act else None,
                                  time_stamp=Time.from_float(t0) if is_act else None)
                        root = Node(ru, weight=rng.choice([1, 1, 1, 1.0, 0.5]) if rng.random() < 0.15 else 1)
                        order = list(range(nchild))
                        if rng.random() < 0.3:
                            rng.shuffle(order)
                        for j in order:
                            a = is_act and j == act_child
                            root.add_child(Node(Unit(identifier=(ids[ri], j), position=pos(), charge=charge(),
                                                     velocity=list(v) if a else None,
                                                     time_stamp=Time.from_float(t0) if a else None),
                                                weight=w_child[j]))
                    roots.append(root)
                if nchild > 0 and use_charge:
                    for r in roots:
                        r.value.charge = {CH: 0.0}
                veto = kind in (3, 6)
                in_state = [roots[act_root]] if veto else list(roots)
                if not veto and rng.random() < 0.5:
                    in_state.reverse()
                target_root = roots[act_root ^ 1] if veto else None
                target_none = veto and rng.random() < 0.12

                # ---- mocks
                nch = 2 if use_charge else 0
                pot = mock.MagicMock(spec_set=Potential)
                pot.number_separation_arguments = 1
                pot.number_charge_arguments = nch
                bpot = None
                if kind in (1, 4):
                    bpot = mock.MagicMock(spec_set=InvertiblePotential)
                elif kind in (2, 5):
                    bpot = mock.MagicMock(spec_set=CellBoundingPotential)
                if bpot is not None:
                    bpot.number_separation_arguments = 1
                    bpot.number_charge_arguments = nch
                    bpot.potential_change_required = True
                    bpot.displacement.return_value = disp
                lifting = mock.MagicMock(spec_set=Lifting)
                cells = mock.MagicMock(spec_set=PeriodicCells)
                est = mock.MagicMock(spec_set=Estimator)
                est.potential = pot
                cname = CH if use_charge else None
                try:
                    if kind == 1:
                        h = classes[1](potential=pot, bounding_potential=bpot, charge=cname)
                    elif kind == 2:
                        h = classes[2](potential=pot, bounding_potential=bpot, charge=cname)
                        h.initialize(cells)
                    elif kind == 3:
                        h = classes[3](estimator=est, potential=pot, charge=cname)
                        Initializer.initialize(h)      # frees the public methods (the Walker tables are C18's subject)
                    elif kind == 4:
                        h = classes[4](potential=pot, bounding_potential=bpot, lifting=lifting, charge=cname)
                    elif kind == 5:
                        h = classes[5](potential=pot, bounding_potential=bpot, lifting=lifting, charge=cname)
                        h.initialize(cells)
                    else:
                        h = classes[6](estimator=est, lifting=lifting, potential=pot, charge=cname)
                        Initializer.initialize(h)
                except Exception as e:  # noqa
                    ctx.fail("handler-construction:" + KIND_NAMES[kind], {"kind": kind, "use_charge": use_charge},
                             f"constructor raised {e!r}")
                    continue

                # ---- send_event_time (real for 1,2,4,5; its effect re-enacted with the class's own helpers for the
                #      cell-veto handlers, whose stored bound comes from the Walker tables (C18))
                guard_ok = True
                cell_of = {}
                try:
                    if kind in (2, 5):
                        cells.position_to_cell.side_effect = lambda p: 4 if any(p is r.value.position or p == r.value.position
                                                                                 for r in [roots[act_root]] + [c for c in roots[act_root].children]) else 12
                        cells.nearby_cells.return_value = {0, 1, 3, 4, 5, 7, 8, 9, 11}
                        cells.relative_cell.return_value = 10
                        cells.zero_cell = 0
                    if not veto:
                        fake.expo_calls = 0
                        h.send_event_time(in_state)
                        expo_calls = fake.expo_calls
                    else:
                        h._store_in_state(in_state)
                        h._construct_leaf_cnodes()
                        h._extract_active_leaf_unit()
                        h._event_time = h._active_leaf_unit.time_stamp + disp
                        h._time_slice_all_units_in_state()
                except Exception as e:  # noqa
                    ctx.fail("send_event_time:" + KIND_NAMES[kind], {"kind": kind}, f"send_event_time raised {e!r}")
                    continue
                et = h._event_time

                # ---- values the mocks will return
                leaves = []
                for r in (in_state + ([target_root] if veto and not target_none else [])):
                    leaves += [c.value for c in r.children] if r.children else [r.value]
                act_unit = h._active_leaf_unit
                if leaf_kind:
                    b, q, regime = gen_rate_pair(rng)
                    bds, qs, pairs = [], [q], []
                    thr = q
                    bound = b
                    next_id = ()
                    ntarget = 1
                else:
                    su = sorted(leaves, key=lambda u: u.identifier)
                    half = len(su) // 2
                    if all(u.velocity is None for u in su[half:]):
                        loc, tar = su[:half], su[half:]
                    else:
                        tar, loc = su[:half], su[half:]
                    ntarget = len(tar)
                    if kind == 4 and expo_calls != ntarget:
                        # the candidate time of a SUMMED bound is the minimum over the pairs of displacements for INDEPENDENT
                        # exponential potential changes: only then is it drawn at the sum of the pair rates, which is the bounding rate
                        # the confirmation ratio divides by
                        ctx.fail("TwoCompositeObjectSummedBoundingPotentialEventHandler:candidate-not-drawn-at-the-summed-bounding-rate",
                                 {"kind": kind, "target_leaves": ntarget, "expovariate_calls": expo_calls},
                                 f"send_event_time drew {expo_calls} exponential potential change(s) for {ntarget} pair displacements: "
                                 "the candidate time is then not distributed with the summed pair rate that send_out_state uses as bounding rate")
                    b, qsum, regime = gen_rate_pair(rng)
                    dyadic = rng.random() < 0.5

                    def split(total, n):
                        if n == 1:
                            return [total]
                        parts = [rng.uniform(-1, 1) * abs(total or 1.0) for _ in range(n - 1)]
                        if dyadic:
                            parts = [round(p * 2 ** 20) / 2 ** 20 for p in parts]
                        last = total
                        for p in parts:
                            last = last - p
                        out = parts + [last]
                        rng.shuffle(out)
                        return out
                    qs = split(qsum, ntarget)
                    if kind == 4:
                        bds = [x if rng.random() < 0.7 else -abs(x) for x in split(b, ntarget)]
                        bound = 0.0
                        for x in bds:
                            bound += max(0.0, x)
                        if rng.random() < 0.5 and ntarget > 1:     # true per-pair bounds: b_i >= q_i
                            bds = [abs(x) * rng.uniform(1.0, 2.0) for x in qs]
                            bound = 0.0
                            for x in bds:
                                bound += max(0.0, x)
                    else:
                        bds, bound = [], b
                    fd = 0.0
                    for x in qs:
                        fd += x
                    thr = max(0.0, fd)
                    pairs = []
                    for lu in loc:
                        pairs.append([0.0] * ntarget if lu is act_unit else
                                     [rng.choice([rng.uniform(-2, 2), 0.0, round(rng.uniform(-2, 2) * 1024) / 1024])
                                      for _ in range(ntarget)])
                    c = rng.random()
                    cand = [u.identifier for u in tar] if c < 0.7 else [u.identifier for u in loc if u is not act_unit] or [tar[0].identifier]
                    next_id = rng.choice(cand)
                    if c > 0.96:
                        next_id = act_unit.identifier if c < 0.98 else (99, 99)
                mode, dv, dcls = gen_draw(rng, bound, thr)
                nan_pos = False
                if kind in (2, 5) and rng.random() < 0.1:
                    guard_ok = False
                    if rng.random() < 0.4:          # first clause of the guard: a NaN entry in the active position
                        nan_pos = True
                        act_unit.position[rng.randrange(3)] = math.nan

                # ---- request line for the model (time-sliced in-state)
                line = ["send", str(kind), "1" if use_charge else "0", f2b(L), f2b(TINY), f2b(et.quotient), f2b(et.remainder),
                        str(len(in_state))]
                for r in in_state:
                    line += enc_root(r, CH)
                if veto and not target_none:
                    line += ["1"] + enc_root(target_root, CH)
                else:
                    line += ["0"]
                line += ["1" if guard_ok else "0", f2b(b if leaf_kind or kind != 4 else 0.0)]
                line += show_list(bds) + show_list(qs) + [str(len(pairs))]
                for row in pairs:
                    line += show_list(row)
                line += [mode, f2b(dv), str(len(next_id))] + [str(i) for i in next_id]
                all_roots = list(in_state) + ([target_root] if veto and not target_none else [])
                before = snapshot(all_roots)

                # ---- run the real send_out_state
                fake.mode, fake.val, fake.calls = mode, dv, []
                del warn_records[:]
                pvals = list(qs) + [x for lu, row in zip(loc, pairs) if lu is not act_unit for x in row] if not leaf_kind else [q]
                prec = RecPot(pot, pvals, "P")
                brec = None
                if bpot is not None:
                    brec = RecPot(bpot, bds if kind == 4 else [b], "B")
                lifting.get_active_identifier.return_value = next_id
                lifting.get_active_identifier.side_effect = None
                ins = []
                lifting.insert.side_effect = lambda dd, ident, active: ins.append((dd, tuple(ident), bool(active)))
                if kind in (2, 5):
                    cells.position_to_cell.side_effect = [4 if (guard_ok or nan_pos) else 5]
                if veto:
                    h._bounding_event_rate = b
                exc = None
                try:
                    if veto:
                        out = h.send_out_state(None if target_none else target_root)
                    else:
                        out = h.send_out_state()
                except AssertionError:
                    exc = "AssertionError"
                except Exception as e:  # noqa
                    exc = type(e).__name__
                warned = len(warn_records) > 0
                after = snapshot(all_roots)
                changed = after != before
                if exc is not None:
                    s = "err:" + exc
                elif out is None:
                    s = "none"
                else:
                    if out is not h._state:
                        s = "ok-but-foreign-state"
                    else:
                        calls = []
                        if brec is not None:
                            calls += [["B"] + show_list(cv) + show_list(cs) + show_list(cc) for cv, cs, cc in brec.calls]
                        calls += [["P"] + show_list(cv) + show_list(cs) + show_list(cc) for cv, cs, cc in prec.calls]
                        confirmed = changed
                        g = "G" + f2b(fake.calls[0][1]) if fake.calls else "G-"
                        t = ["ok", "1" if confirmed else "0", "1" if warned else "0", g, "C", str(len(calls))]
                        for cl in calls:
                            t += cl
                        t += ["I", str(len(ins))]
                        for dd, ident, active in ins:
                            t += [f2b(dd), str(len(ident))] + [str(i) for i in ident] + ["1" if active else "0"]
                        t += ["S"] + show_state(out)
                        s = " ".join(t)
                req.append(" ".join(line))
                impl.append(s)
                meta.append({"kind": kind, "L": L, "b": bound, "thr": thr, "qs": list(qs), "mode": mode, "draw": dv, "regime": regime,
                             "dcls": dcls, "changed": changed, "warned": warned, "exc": exc, "none": exc is None and out is None,
                             "guard_ok": guard_ok, "target_none": target_none, "uniform_calls": list(fake.calls),
                             "leaf": leaf_kind, "ntarget": ntarget, "next_id": list(next_id), "before": before, "after": after,
                             "act_id": list(act_unit.identifier)})
    finally:
        for m, mod in mods.items():
            if saved[m] is not None:
                mod.random = saved[m]
        jexc._logger = old_logger
        setting.reset()
    return req, impl, meta


def handler_oracle(ctx, line, m):
    """the property, on the implementation's observable behaviour of one handler call"""
    name = KIND_NAMES[m["kind"]]
    case = {"request": line, "handler": name, "bound": float(m["b"]).hex(), "true": [float(x).hex() for x in m["qs"]],
            "draw_mode": m["mode"], "draw": float(m["draw"]).hex()}
    if m["exc"] is not None:
        # the only legitimate exceptions: assertion on a negative stored/cell bound (kinds 5, 6), or a lifting scheme
        # that hands back the active unit / an unknown identifier
        legit = (m["kind"] in (5, 6) and not (m["b"] >= 0.0)) or (not m["leaf"] and (m["next_id"] == m["act_id"] or m["next_id"] == [99, 99]))
        if not legit:
            ctx.fail(f"{name}:unexpected-exception", case, f"send_out_state raised {m['exc']}")
        return
    if m["none"] or m["target_none"]:
        if m["changed"]:
            ctx.fail(f"{name}:no-event-but-state-changed", case, "no event was proposed, yet units changed")
        return
    # true rate (exact) and the value that was drawn
    exact = sum((Fr(x) for x in m["qs"]), Fr(0))
    fsum = 0.0
    for x in m["qs"]:
        fsum += x
    band = Fr(0) if Fr(fsum) == exact else Fr(2, 2 ** 52) * max(abs(Fr(x)) for x in m["qs"]) * len(m["qs"])
    qplus = max(Fr(0), exact)
    if m["mode"] == "d":
        draw = Fr(m["draw"])
    else:
        # CPython: 0 + (b - 0) * r, one rounding
        draw = Fr(m["b"]) * Fr(m["draw"])
        band += Fr(1, 2 ** 52) * abs(draw) + Fr(5e-324)
    if m["uniform_calls"]:
        a, bb = m["uniform_calls"][0]
        if a != 0 or f2b(bb) != f2b(m["b"]) or len(m["uniform_calls"]) != 1:
            ctx.fail(f"{name}:uniform-not-over-[0,bound]", case, f"random.uniform called with {m['uniform_calls']}, bound is {m['b']!r}")
    elif qplus > 0:
        ctx.fail(f"{name}:no-uniform-drawn", case, "true rate positive but no uniform number was drawn")
    want = draw < qplus
    # (negative draws only arise from a negative "bound", which is outside the property's quantifier)
    if draw >= 0 and abs(draw - qplus) > band and m["changed"] != want:
        ctx.fail(f"{name}:acceptance-not-exact-ratio", case,
                 f"accepted={m['changed']} but draw {float(draw)!r} {'<' if want else '>='} max(0,true)={float(qplus)!r}")
    if m["changed"] and qplus == 0 and band == 0:
        ctx.fail(f"{name}:accepted-with-zero-true-rate", case, "the true rate is max(0, q) = 0, yet the event was confirmed")
    if not m["changed"]:
        return
    # accepted: velocity moved from the active unit to exactly one other leaf unit
    movers = [(b4, af) for b4, af in zip(m["before"], m["after"]) if b4[2] != af[2] and len(b4[0]) == (1 if m["leaf"] and len(m["act_id"]) == 1 else 2)]
    if len(movers) != 2:
        ctx.fail(f"{name}:accepted-but-not-a-transfer", case, f"{len(movers)} leaf units changed velocity")
    # warning is a log line exactly when the bound is exceeded
    if m["warned"] != (qplus > 0 and Fr(m["b"]) < Fr(fsum)) and abs(Fr(m["b"]) - qplus) > band:
        ctx.fail(f"{name}:warning-wrong", case, f"warned={m['warned']} bound={m['b']!r} true={fsum!r}")


def part_handlers(ctx):
    n = ctx.n(4000, 25000)
    req, impl, meta = handler_cases(ctx, n)
    rep = ctx.model("thin", req)
    for line, s, r, m in zip(req, impl, rep, meta):
        ctx.evaluations += 1
        outcome = "err" if m["exc"] else "none" if m["none"] else "accept" if m["changed"] else "reject"
        ctx.count(f"handler:{m['kind']}:{outcome}")
        ctx.cls(("handler", m["kind"], m["regime"], m["dcls"], outcome, m["warned"], m["ntarget"]))
        handler_oracle(ctx, line, m)
        if s != r:
            ctx.disagree("thin.send_out_state[" + KIND_NAMES[m["kind"]] + "]",
                         {"request": line, "regime": m["regime"], "draw": m["dcls"]}, s[:600], r[:600])
        ctx.sample({"request": line[:300] + " …", "impl": s[:200] + " …", "model": r[:200] + " …"}, cap=3)


# ------------------------------------------------------------------------------------------------------------------
# part 1b: the root-unit-active handlers (kinds 7, 8): a whole composite object moves (dipoles/dipole_motion.ini)
# ------------------------------------------------------------------------------------------------------------------
# kind 7 RootUnitActiveTwoCompositeObjectSummedBoundingPotentialEventHandler THINS: bound = sum over all (active leaf, target leaf)
#   pairs of max(0, pair bound), true rate = max(0, sum over ALL pairs of the pair's true derivative). It is driven (a) with recording
#   stand-in potentials whose values are keyed by the PAIR (so a handler that skips or reorders pairs still gets every pair's own
#   value) and (b) with the real MergedImageCoulombPotential / InversePowerCoulombBoundingPotential on mixed-sign composite objects;
#   both against the model (`sendroot 7`, bit for bit) and against the oracle below, which is evaluated on the implementation only.
# kind 8 RootUnitActiveTwoLeafUnitEventHandler does NOT thin (directly invertible potential, every candidate event is an event): it
#   belongs to C02's displacement correspondence. Here: implementation-level oracle only (candidate time against the real
#   potential's `displacement`, out-state = root-level velocity transfer) and its `send_out_state` against the model (`sendroot 8`).

ROOT_MODULES = {7: "jellyfysh.event_handler.root_unit_active_two_composite_object_summed_bounding_potential_event_handler",
                8: "jellyfysh.event_handler.root_unit_active_two_leaf_unit_event_handler"}
ROOT_CHARGES = {2: [(1.0, -1.0), (1.0, -1.0), (-1.0, 1.0), (1.0, 1.0), (0.5, -2.0)],
                3: [(1.0, -0.5, -0.5), (-0.82, 0.41, 0.41), (1.0, 1.0, -1.0), (1.0, -1.0, 1.0)]}


class RootRandom(FakeRandom):
    """FakeRandom whose `expovariate` hands out prescribed potential changes"""

    def __init__(self):
        super().__init__()
        self.expo, self.expo_calls = [], 0

    def expovariate(self, lambd):
        self.expo_calls += 1
        return self.expo.pop(0) if self.expo else 1.0


class PairPot:
    """recording potential for the root-unit-active cases. `real` given: delegates to that potential object. Otherwise `derivative`
    returns the table value of the pair whose separation it is asked for (the separations of the pairs of one case are distinct)"""

    def __init__(self, tag, log, ncharge, real=None, disp=None):
        self.tag, self.log, self.real, self.disp, self.table = tag, log, real, disp, {}
        self.number_separation_arguments = 1
        self.number_charge_arguments = ncharge
        self.potential_change_required = True

    def derivative(self, velocity, separation, *charges):
        self.log.append((self.tag, list(velocity), list(separation), list(charges)))
        if self.real is not None:
            return self.real.derivative(velocity, separation, *charges)
        return self.table[tuple(f2b(x) for x in separation)]

    def displacement(self, velocity, separation, *args):
        if self.real is not None:
            return self.real.displacement(velocity, separation, *args)
        return self.disp


def root_pair_values(rng, n):
    """mock values (bound b_k, true derivative q_k) of the n pairs of one proposal, with the regime's name"""
    c = rng.random()
    mag = 2.0 ** rng.uniform(-20, 8) if rng.random() < 0.25 else rng.uniform(0.05, 4.0)
    dyadic = rng.random() < 0.5

    def rnd(lo, hi):
        x = rng.uniform(lo, hi) * mag
        return round(x * 2 ** 20) / 2 ** 20 if dyadic else x
    if c < 0.4:          # a dominating pairwise bound: q_k <= max(0, b_k); pairs with b_k <= 0 have q_k <= 0
        qs = [rnd(-1, 1) for _ in range(n)]
        bds = [q * rng.choice([1.0, 1.0, rng.uniform(1.0, 2.0)]) if q > 0 else
               rng.choice([q, 0.0, -0.0, -abs(q) * rng.uniform(0, 3), abs(q) * rng.random()]) for q in qs]
        return bds, qs, "dominated"
    if c < 0.55:         # the sum of the true derivatives is <= 0 although single pairs are positive
        qs = [rnd(-1, 1) for _ in range(n - 1)]
        tot = 0.0
        for q in qs:
            tot += q
        qs.append(-tot if rng.random() < 0.4 else -tot - abs(rnd(0, 1)))
        rng.shuffle(qs)
        bds = [abs(q) * rng.uniform(1.0, 2.0) if q > 0 else -abs(q) for q in qs]
        return bds, qs, "sum<=0"
    if c < 0.65:
        qs = [-abs(rnd(0, 1)) if rng.random() < 0.8 else rng.choice([0.0, -0.0]) for _ in range(n)]
        bds = [rng.choice([q, 0.0, abs(q)]) for q in qs]
        return bds, qs, "all<=0"
    # totals from the regimes of gen_rate_pair (q=b, q=b+-ulp, q>b: warning, b=0, b<0, subnormal), split over the pairs
    B, Q, regime = gen_rate_pair(rng)

    def split(total):
        parts = [rng.uniform(-1, 1) * abs(total or 1.0) for _ in range(n - 1)]
        if dyadic:
            parts = [round(p * 2 ** 20) / 2 ** 20 for p in parts]
        last = total
        for p in parts:
            last = last - p
        out = parts + [last]
        rng.shuffle(out)
        return out
    qs = split(Q)
    bds = [x if rng.random() < 0.6 else -abs(x) for x in split(B)]
    return bds, qs, "split:" + regime


def part_root(ctx):
    import importlib, copy
    import jellyfysh.setting as setting
    from jellyfysh.setting import hypercubic_setting
    from jellyfysh.base.node import Node
    from jellyfysh.base.unit import Unit
    from jellyfysh.base.time import Time
    import jellyfysh.base.exceptions as jexc

    rng = ctx.rng
    mods = {k: importlib.import_module(m) for k, m in ROOT_MODULES.items()}
    tl_mod = importlib.import_module("jellyfysh.event_handler.two_leaf_unit_event_handler")
    cls7, cls8 = getattr(mods[7], KIND_NAMES[7]), getattr(mods[8], KIND_NAMES[8])
    fake = RootRandom()
    patched = [(m, m.random) for m in (mods[7], tl_mod)]
    for m, _ in patched:
        m.random = fake
    warn_records = []

    class LogStub:
        def warning(self, msg, *a, **k):
            warn_records.append(msg)
    old_logger = jexc._logger
    jexc._logger = LogStub()
    CH = "q"
    req, impl, meta = [], [], []
    stats = {"negpair": 0, "negpair_decisive": 0}

    def sepvec(a, b):
        return setting.periodic_boundaries.separation_vector(a, b)

    def wrap(x, L):
        r = x % L
        return r if 0.0 <= r < L else 0.0

    def scenario(L, nleaf, real):
        """two composite objects with nleaf leaf units each; ALL units of one of them move with the same velocity"""
        d = rng.randrange(3)
        speed = rng.choice([1.0, 1.0, 0.5, 2.0, rng.uniform(0.1, 3)])
        v = [0.0, 0.0, 0.0]
        v[d] = speed
        t0 = rng.choice([0.0, rng.uniform(0, 10), float(rng.randint(0, 2 ** 40)) + rng.random()])
        ids = rng.sample(range(0, 12), 2)
        act = rng.randrange(2)
        use_charge = real or rng.random() < 0.8
        roots = []
        for ri in range(2):
            a = ri == act
            centre = [rng.random() * L for _ in range(3)]
            if real or rng.random() < 0.5:
                ext = rng.choice([0.06, 0.06, 0.15, 0.3]) * L
                pos = [[wrap(c + rng.uniform(-ext, ext), L) for c in centre] for _ in range(nleaf)]
            else:
                pos = [[rng.random() * L for _ in range(3)] for _ in range(nleaf)]
            if real:
                ch = list(rng.choice(ROOT_CHARGES[nleaf]))
            else:
                ch = [rng.choice([1.0, -1.0, 0.5, -2.0, rng.uniform(-2, 2)]) for _ in range(nleaf)] if use_charge else None
            w = [1.0 / nleaf] * nleaf if rng.random() < 0.85 else [rng.choice([0.5, 0.25, 1.0]) for _ in range(nleaf)]
            rv = [0.0, 0.0, 0.0]
            for wj in w:
                for k in range(3):
                    rv[k] += v[k] * wj
            if rng.random() < 0.07:
                rv = [x * 0.3 for x in v]
            rw = 1 if rng.random() < 0.9 else rng.choice([1.0, 0.5])

            def ts():
                return Time.from_float(t0) if a else None
            root = Node(Unit(identifier=(ids[ri],), position=centre, charge=({CH: 0.0} if use_charge else None),
                             velocity=list(rv) if a else None, time_stamp=ts()), weight=rw)
            order = list(range(nleaf))
            if rng.random() < 0.3:
                rng.shuffle(order)
            for j in order:
                root.add_child(Node(Unit(identifier=(ids[ri], j), position=pos[j], charge=({CH: ch[j]} if use_charge else None),
                                         velocity=list(v) if a else None, time_stamp=ts()), weight=w[j]))
            roots.append(root)
        plain = all(r.weight == 1 for r in roots) and all(abs(sum(c.weight for c in r.children) - 1.0) < 1e-12 for r in roots) \
            and all(abs(roots[act].value.velocity[k] - v[k]) < 1e-12 for k in range(3))
        return {"d": d, "speed": speed, "v": v, "t0": t0, "act": act, "roots": roots, "use_charge": use_charge, "plain": plain}

    def vels(st):
        return [None if u.velocity is None else [f2b(x) for x in u.velocity] for u in flat_units(st)]

    def leaves_sorted(root):
        return sorted([c.value for c in root.children], key=lambda u: u.identifier)

    def impl_string(exc, out, h, log, confirmed, warned):
        if exc is not None:
            return "err:" + exc
        if out is None:
            return "none"
        if out is not h._state:
            return "ok-but-foreign-state"
        t = ["ok", "1" if confirmed else "0", "1" if warned else "0", "G" + f2b(fake.calls[0][1]) if fake.calls else "G-",
             "C", str(len(log))]
        for tag, cv, cs, cc in log:
            t += [tag] + show_list(cv) + show_list(cs) + show_list(cc)
        return " ".join(t + ["I", "0", "S"] + show_state(out))

    def transfer_oracle(name, case, sc, branches, et, L):
        """what a root-level velocity transfer is, stated on the out-state (composite objects with root weight 1 and consistent weights)"""
        v, t0 = sc["v"], Time.from_float(sc["t0"])
        aid = sc["roots"][sc["act"]].value.identifier
        dt = et.quotient - t0.quotient + et.remainder - t0.remainder
        for r in branches:
            was_active = r.value.identifier == aid
            for u in [r.value] + [c.value for c in r.children]:
                leaf = len(u.identifier) == 2
                if was_active:
                    if u.velocity is not None or u.time_stamp is not None:
                        ctx.fail(f"{name}:accepted-but-not-a-transfer", case, f"unit {u.identifier} of the formerly active composite object "
                                 f"still has velocity {u.velocity}")
                elif u.time_stamp is None or (f2b(u.time_stamp.quotient), f2b(u.time_stamp.remainder)) != (f2b(et.quotient), f2b(et.remainder)):
                    ctx.fail(f"{name}:accepted-but-not-a-transfer", case, f"unit {u.identifier} of the target composite object does not carry "
                             f"the event time as its time stamp")
                elif u.velocity is None or (leaf and [f2b(x) for x in u.velocity] != [f2b(x) for x in v]) \
                        or (not leaf and any(abs(x - y) > 1e-12 * max(1.0, abs(y)) for x, y in zip(u.velocity, v))):
                    ctx.fail(f"{name}:accepted-but-not-a-transfer", case, f"unit {u.identifier} of the target composite object has velocity "
                             f"{u.velocity}, the active composite object moved with {v}")
        return dt

    def run7(sc, L, real, P, draws):
        name = KIND_NAMES[7]
        roots, act, v = sc["roots"], sc["act"], sc["v"]
        n = len(roots[0].children)
        in_state0 = list(roots)
        if rng.random() < 0.5:
            in_state0.reverse()
        pc = rng.expovariate(1.0)
        disp = rng.choice([0.0, rng.uniform(0, 2 * L), rng.uniform(0, 1e-3)])
        cname = CH if sc["use_charge"] else None
        rev = rng.random() < 0.3
        for (mode, dv, dcls) in draws:
            in_state = copy.deepcopy(in_state0)
            branches = copy.deepcopy(in_state0)
            if rev:
                branches.reverse()
            aroot = [r for r in in_state if r.value.identifier == roots[act].value.identifier][0]
            troot = [r for r in in_state if r is not aroot][0]
            log = []
            if real:
                pot, bpot = PairPot("P", log, 2, real=P[0]), PairPot("B", log, 2, real=P[1])
            else:
                nch = 2 if sc["use_charge"] else 0
                pot, bpot = PairPot("P", log, nch), PairPot("B", log, nch, disp=disp)
            base = {"handler": name, "potentials": "real" if real else "stand-in", "L": L}
            try:
                h = cls7(potential=pot, bounding_potential=bpot, charge=cname)
            except Exception as e:  # noqa
                ctx.fail("handler-construction:" + name, base, f"constructor raised {e!r}")
                return
            # ---- send_event_time (real); the candidate time recomputed from the bounding potential: every pair gets the potential change pc
            loc0, tar0 = leaves_sorted(aroot), leaves_sorted(troot)

            def chg(a, t):
                return (a.charge[CH], t.charge[CH]) if sc["use_charge"] else ()
            if real:
                want_disp = min(P[1].displacement(list(a.velocity), sepvec(a.position, t.position), *chg(a, t), pc) for a in loc0 for t in tar0)
            else:
                want_disp = disp
            want_time = Time.from_float(sc["t0"]) + want_disp
            fake.expo, fake.expo_calls = [pc] * (n * n), 0
            try:
                ret = h.send_event_time(in_state)
            except Exception as e:  # noqa
                ctx.fail("send_event_time:" + name, base, f"send_event_time raised {e!r}")
                return
            if fake.expo_calls != len(loc0) * len(tar0):
                # a SUMMED bound: one INDEPENDENT exponential potential change per (active leaf, target leaf) pair, otherwise the candidate
                # time is not drawn at the sum of the pair rates that send_out_state uses as bounding rate
                ctx.fail(f"{name}:candidate-not-drawn-at-the-summed-bounding-rate",
                         {**base, "pairs": len(loc0) * len(tar0), "expovariate_calls": fake.expo_calls},
                         f"send_event_time drew {fake.expo_calls} exponential potential change(s) for {len(loc0) * len(tar0)} pair displacements")
            et = h._event_time
            if ret[0] is not et or (f2b(et.quotient), f2b(et.remainder)) != (f2b(want_time.quotient), f2b(want_time.remainder)):
                ctx.fail(f"{name}:candidate-time-not-from-the-bounding-potential",
                         {**base, "t0": sc["t0"], "potential_change": pc, "expected": [want_time.quotient, want_time.remainder],
                          "got": [et.quotient, et.remainder]},
                         "the candidate event time is not time stamp + min over all leaf-unit pairs of the bounding potential's displacement")
            if sorted(tuple(x) for x in ret[1]) != sorted([aroot.value.identifier, troot.value.identifier]):
                ctx.fail(f"{name}:send_event_time-wrong-composite-objects", base, f"returned identifiers {ret[1]!r}")
            if not (math.isfinite(et.quotient) and math.isfinite(et.remainder)):
                ctx.count("root:7:infinite-candidate-time(skipped)")
                return
            # ---- the pair table at the candidate time, independent of the handler
            loc, tar = leaves_sorted(aroot), leaves_sorted(troot)
            seps = [[sepvec(a.position, t.position) for t in tar] for a in loc]
            keys = [tuple(f2b(x) for x in s_) for row in seps for s_ in row]
            if len(set(keys)) != len(keys):
                ctx.count("root:7:coinciding-separations(skipped)")
                return
            if real:
                bds = [P[1].derivative(list(a.velocity), list(seps[i][j]), *chg(a, t)) for i, a in enumerate(loc) for j, t in enumerate(tar)]
                qs = [P[0].derivative(list(a.velocity), list(seps[i][j]), *chg(a, t)) for i, a in enumerate(loc) for j, t in enumerate(tar)]
                regime = "real"
            else:
                if mode is None:
                    sc["values"] = root_pair_values(rng, n * n)
                bds, qs, regime = sc["values"]
                pot.table, bpot.table = dict(zip(keys, qs)), dict(zip(keys, bds))
            bound, fd = 0.0, 0.0
            for x in bds:
                bound += max(0.0, x)
            for x in qs:
                fd += x
            thr = max(0.0, fd)
            if mode is None:
                mode, dv, dcls = gen_draw(rng, bound, thr)
            elif mode == "thr":
                mode, dv = "d", (thr if dv == 0 else nxt(thr, dv)) if thr > 0 or dv >= 0 else 0.0
            negpair = any(b <= 0.0 and q < 0.0 for b, q in zip(bds, qs))
            # ---- request line: the time-sliced in-state, the branches as handed to send_out_state, the pair values, the draw
            line = ["sendroot", "7", "1" if sc["use_charge"] else "0", f2b(L), f2b(TINY), f2b(et.quotient), f2b(et.remainder), str(len(in_state))]
            for r in in_state:
                line += enc_root(r, CH)
            line += [str(len(branches))]
            for r in branches:
                line += enc_root(r, CH)
            line += show_list(bds) + show_list(qs) + [mode, f2b(dv)]
            line = " ".join(line)
            v_before = vels(branches)
            tid = troot.value.identifier
            fake.mode, fake.val, fake.calls = mode, dv, []
            del warn_records[:]
            del log[:]
            exc, out = None, None
            try:
                out = h.send_out_state(branches)
            except AssertionError:
                exc = "AssertionError"
            except Exception as e:  # noqa
                exc = type(e).__name__
            warned = len(warn_records) > 0
            v_after = vels(branches)
            # confirmed: the target composite object moves afterwards (this is what a confirmed event IS; it does not presuppose that
            # nothing else changed)
            confirmed = any(u.velocity is not None for r in branches if r.value.identifier == tid for u in [r.value] + [c.value for c in r.children])
            req.append(line)
            impl.append(impl_string(exc, out, h, log, confirmed, warned))
            meta.append({"kind": 7, "regime": regime, "dcls": dcls, "outcome": "err" if exc else "accept" if confirmed else "reject",
                         "warned": warned, "n": n, "negpair": negpair, "real": real})
            # ---- the property, on the implementation
            case = {"request": line, **base, "direction": sc["d"], "speed": sc["speed"],
                    "pairs": [{"active": list(a.identifier), "target": list(t.identifier), "separation": [x.hex() for x in seps[i][j]],
                               "charges": list(chg(a, t)), "bound": float(bds[i * n + j]).hex(), "true": float(qs[i * n + j]).hex()}
                              for i, a in enumerate(loc) for j, t in enumerate(tar)],
                    "bounding_rate": bound.hex(), "true_rate": thr.hex(), "draw_mode": mode, "draw": float(dv).hex()}
            if exc is not None:
                ctx.fail(f"{name}:unexpected-exception", case, f"send_out_state raised {exc}")
                continue
            exact = sum((Fr(x) for x in qs), Fr(0))
            band = Fr(0) if Fr(fd) == exact else Fr(2, 2 ** 52) * max(abs(Fr(x)) for x in qs) * len(qs)
            qplus = max(Fr(0), exact)
            bexact = sum((max(Fr(0), Fr(x)) for x in bds), Fr(0))
            bband = Fr(0) if Fr(bound) == bexact else Fr(2, 2 ** 52) * max(abs(Fr(x)) for x in bds) * len(bds)
            upper = bound
            if fake.calls:
                a0, upper = fake.calls[0]
                if a0 != 0 or len(fake.calls) != 1 or abs(Fr(upper) - bexact) > bband:
                    ctx.fail(f"{name}:uniform-not-over-[0,bound]", case, f"random.uniform called with {fake.calls}, the bounding rate "
                             f"sum over all pairs of max(0, pair bound) is {float(bexact)!r}")
            elif qplus > band:
                ctx.fail(f"{name}:no-uniform-drawn", case, "true rate positive but no uniform number was drawn")
            if mode == "d":
                draw = Fr(dv)
            else:
                draw = Fr(upper) * Fr(dv)
                band += Fr(1, 2 ** 52) * abs(draw) + Fr(5e-324)
            want = draw < qplus
            if draw >= 0 and (band == 0 or abs(draw - qplus) > band):       # band == 0: every number above is exact, ties included
                if negpair:
                    stats["negpair_decisive"] += 1
                if confirmed != want:
                    ctx.fail(f"{name}:acceptance-not-exact-ratio", case,
                             f"confirmed={confirmed} but draw {float(draw)!r} {'<' if want else '>='} max(0, sum over all "
                             f"{len(qs)} pairs of the true derivative) = {float(qplus)!r} (bounding rate {float(bexact)!r})")
            if confirmed and qplus == 0 and band == 0:
                ctx.fail(f"{name}:accepted-with-zero-true-rate", case, "the true rate is max(0, sum of all pair derivatives) = 0, yet the event was confirmed")
            if not confirmed and v_after != v_before:
                ctx.fail(f"{name}:rejected-but-velocities-changed", case, "the event was not confirmed, yet velocities changed")
            if warned != (qplus > 0 and bexact < exact) and abs(bexact - exact) > band + bband:
                ctx.fail(f"{name}:warning-wrong", case, f"warned={warned} bound={float(bexact)!r} true={float(exact)!r}")
            if confirmed and sc["plain"]:
                transfer_oracle(name, case, sc, branches, et, L)
            if real:
                # a dominating bounding potential: pair by pair and in the sum (above the floor of the Ewald routine's noise)
                for k, (b_, q_) in enumerate(zip(bds, qs)):
                    a, t = loc[k // n], tar[k % n]
                    floor = FLOOR / (L * L) * abs(a.charge[CH] * t.charge[CH]) * sc["speed"]
                    if q_ > floor and not (b_ > 0 and b_ >= q_):
                        ctx.fail(f"{name}:pair-bound-below-true-rate", {**case, "pair": k}, f"pair bound {b_!r} < pair true derivative {q_!r}")
                if thr > FLOOR / (L * L) * len(qs) * sc["speed"] * 4 and bound < thr:
                    ctx.fail(f"{name}:bound-below-true-rate", case, f"summed bounding rate {bound!r} < true rate {thr!r}")
            if negpair:
                stats["negpair"] += 1

    def run8(sc, L, pot8, use_charge):
        """RootUnitActiveTwoLeafUnitEventHandler: no thinning. Candidate time against the real potential's displacement; the out-state is
        the root-level transfer of the velocity; `send_out_state` against the model."""
        name = KIND_NAMES[8]
        roots, act, v = sc["roots"], sc["act"], sc["v"]
        n = len(roots[0].children)
        base = {"handler": name, "L": L, "direction": sc["d"], "speed": sc["speed"], "t0": sc["t0"]}
        try:
            h = cls8(potential=pot8, charge=CH if use_charge else None)
        except Exception as e:  # noqa
            ctx.fail("handler-construction:" + name, base, f"constructor raised {e!r}")
            return
        full = list(roots)
        if rng.random() < 0.5:
            full.reverse()
        branches = copy.deepcopy(full)
        if rng.random() < 0.3:
            branches.reverse()
        in_state = []
        for r in full:          # the branches of the two interacting leaf units: root cnode with that one child
            c = rng.choice(r.children)
            nr = Node(copy.deepcopy(r.value), weight=r.weight)
            nr.add_child(Node(copy.deepcopy(c.value), weight=c.weight))
            in_state.append(nr)
        ai = 0 if in_state[0].value.velocity is not None else 1
        a, t = in_state[ai].children[0].value, in_state[ai ^ 1].children[0].value
        lu = [in_state[0].children[0].value, in_state[1].children[0].value]
        # potential change of the order of the pair potential (else the candidate time is infinite)
        pc = rng.expovariate(1.0) * abs(pot8._prefactor) * 10.0 ** rng.uniform(-3, 3) if rng.random() < 0.9 else rng.expovariate(1.0)
        cands = []
        for c_ in ([(lu[0].charge[CH], lu[1].charge[CH]), (a.charge[CH], t.charge[CH])] if use_charge else [(1.0, 1.0)]):
            dsp = pot8.displacement(list(v), sepvec(a.position, t.position), *c_, potential_change=pc)
            tm = Time.from_float(sc["t0"]) + dsp
            cands.append((f2b(tm.quotient), f2b(tm.remainder)))
        case = {**base, "potential": {"power": pot8._power, "prefactor": pot8._prefactor}, "potential_change": pc,
                "active": {"id": list(a.identifier), "position": [x.hex() for x in a.position], "charge": a.charge and a.charge[CH]},
                "target": {"id": list(t.identifier), "position": [x.hex() for x in t.position], "charge": t.charge and t.charge[CH]}}
        fake.expo, fake.expo_calls = [pc], 0
        try:
            ret = h.send_event_time(in_state)
        except Exception as e:  # noqa
            ctx.fail("send_event_time:" + name, case, f"send_event_time raised {e!r}")
            return
        et = ret[0]
        ctx.evaluations += 1
        if (f2b(et.quotient), f2b(et.remainder)) not in cands:
            ctx.fail(f"{name}:candidate-time-not-the-potential's-displacement", {**case, "got": [et.quotient, et.remainder]},
                     "the candidate event time is not the active unit's time stamp + potential.displacement(velocity, separation, charges, potential change)")
        if list(ret[1]) != [r.value.identifier for r in in_state]:
            ctx.fail(f"{name}:send_event_time-wrong-composite-objects", case, f"returned identifiers {ret[1]!r}")
        finite = math.isfinite(et.quotient) and math.isfinite(et.remainder)
        ctx.cls(("root", 8, "finite" if finite else "inf", use_charge, n))
        if not finite:
            ctx.count("root:8:infinite-candidate-time")
            return
        line = ["sendroot", "8", "1" if use_charge else "0", f2b(L), f2b(TINY), f2b(et.quotient), f2b(et.remainder), str(len(in_state))]
        for r in in_state:
            line += enc_root(r, CH)
        line += [str(len(branches))]
        for r in branches:
            line += enc_root(r, CH)
        line += ["0", "0", "d", f2b(0.0)]
        line = " ".join(line)
        before = {u.identifier: list(u.position) for u in flat_units(branches)}
        fake.calls = []
        exc, out = None, None
        try:
            out = h.send_out_state(branches)
        except AssertionError:
            exc = "AssertionError"
        except Exception as e:  # noqa
            exc = type(e).__name__
        req.append(line)
        impl.append(impl_string(exc, out, h, [], True, False))
        meta.append({"kind": 8, "regime": "invertible", "dcls": "-", "outcome": "err" if exc else "accept", "warned": False, "n": n,
                     "negpair": False, "real": True})
        case = {"request": line, **case}
        if exc is not None:
            ctx.fail(f"{name}:unexpected-exception", case, f"send_out_state raised {exc}")
            return
        if fake.calls:
            ctx.fail(f"{name}:draws-a-uniform-number", case, "a directly invertible event is never thinned, yet random.uniform was called")
        if sc["plain"]:
            dt = transfer_oracle(name, case, sc, branches, et, L)
            aid = roots[act].value.identifier
            for u in flat_units(branches):       # positions: the moving composite object advanced to the event time, the other untouched
                for k in range(3):
                    wantp = before[u.identifier][k] + (v[k] * dt if u.identifier[0] == aid[0] else 0.0)
                    diff = (u.position[k] - wantp) % L
                    if min(diff, L - diff) > 1e-9 * L:
                        ctx.fail(f"{name}:out-state-position", case, f"unit {u.identifier} component {k}: {u.position[k]!r}, expected {wantp % L!r}")

    try:
        n_mock, n_real, n_8 = ctx.n(1500, 9000), ctx.n(70, 500), ctx.n(300, 2500)
        groups = [(L, nleaf) for L in (1.0, 2.5, 0.7) for nleaf in (2, 3)]
        for gi, (L, nleaf) in enumerate(groups):
            setting.reset()
            hypercubic_setting.HypercubicSetting(beta=1.0, dimension=3, system_length=L)
            setting.set_number_of_root_nodes(2)
            setting.set_number_of_nodes_per_root_node(nleaf)
            setting.set_number_of_node_levels(2)
            for _ in range(max(1, n_mock // len(groups))):
                run7(scenario(L, nleaf, False), L, False, None, [(None, 0.0, "")])
            if L != 0.7 or not ctx.quick:
                from jellyfysh.potential.merged_image_coulomb_potential import MergedImageCoulombPotential
                from jellyfysh.potential.inverse_power_coulomb_bounding_potential import InversePowerCoulombBoundingPotential
                P = (MergedImageCoulombPotential(), InversePowerCoulombBoundingPotential())
                for _ in range(max(1, n_real // 4)):
                    # one scenario, many draws: the thresholds and a grid of random() values over [0, 1)
                    draws = [("thr", 0, "thr"), ("thr", -1, "thr-ulp"), ("thr", 1, "thr+ulp"), ("d", 0.0, "0")]
                    draws += [("r", (i + rng.random()) / 8, "r-grid") for i in range(8)]
                    run7(scenario(L, nleaf, True), L, True, P, draws)
            from jellyfysh.potential.inverse_power_potential import InversePowerPotential
            for _ in range(max(1, n_8 // len(groups))):
                uc = rng.random() < 0.5
                pot8 = InversePowerPotential(power=rng.choice([6, 6, 2, 12, 1]), prefactor=rng.choice([1.0e-6, 1.0e-6, 1.0, 1.0e-3]))
                run8(scenario(L, nleaf, uc), L, pot8, uc)
    finally:
        for m, old in patched:
            m.random = old
        jexc._logger = old_logger
        setting.reset()
    rep = ctx.model("thin", req)
    for line, s, r, m in zip(req, impl, rep, meta):
        ctx.evaluations += 1
        ctx.count(f"handler:{m['kind']}:{m['outcome']}")
        ctx.cls(("root", m["kind"], m["regime"], m["dcls"], m["outcome"], m["warned"], m["n"], m["negpair"], m["real"]))
        if s != r:
            ctx.disagree("thin.sendroot[" + KIND_NAMES[m["kind"]] + "]", {"request": line, "regime": m["regime"], "draw": m["dcls"]}, s[:600], r[:600])
        if m["kind"] == 7:
            ctx.sample({"request": line[:300] + " …", "impl": s[:200] + " …", "model": r[:200] + " …"}, cap=5)
    ctx.count("root:7:cases-with-a-pair(bound<=0,true<0)", stats["negpair"])
    ctx.count("root:7:such-cases-where-the-draw-decides", stats["negpair_decisive"])
    if stats["negpair_decisive"] < 50:
        raise RuntimeError("root-unit-active scenarios: fewer than 50 decided cases with a pair of non-positive bound and negative true derivative")


# ------------------------------------------------------------------------------------------------------------------
# the kernel alone: bounding_potential_warning and CPython's uniform
# ------------------------------------------------------------------------------------------------------------------

def part_kernel(ctx):
    import logging, random as pyrandom
    import jellyfysh.base.exceptions as jexc
    rng = ctx.rng
    recs = []

    class LogStub:
        def warning(self, msg, *a, **k):
            recs.append(1)
    old_logger = jexc._logger
    jexc._logger = LogStub()
    try:
        lines, want = [], []
        for _ in range(ctx.n(3000, 40000)):
            b, q, regime = gen_rate_pair(rng)
            mode, dv, dcls = gen_draw(rng, b, q)
            draw = dv if mode == "d" else 0 + (b - 0) * dv
            del recs[:]
            jexc.bounding_potential_warning("X", b, q)
            w1 = bool(recs)
            e = max(0.0, q)
            del recs[:]
            jexc.bounding_potential_warning("X", b, e)
            w2 = bool(recs)
            # the two comparisons exactly as the handlers write them
            leaf = (q > 0) and (draw < q)
            comp = not (e <= draw)
            lines.append(f"decide {f2b(b)} {f2b(q)} {f2b(draw)}")
            want.append(" ".join("1" if x else "0" for x in (leaf, w1, comp, w2)))
            ctx.cls(("kernel", regime, dcls, leaf, w1))
            # oracle: both comparison styles describe the same accepting set [0, max(0,q))
            # (for draws >= 0, i.e. bounds >= 0: the composite handlers assert / construct a non-negative bound)
            if draw >= 0 and (leaf != comp or leaf != (Fr(draw) < max(Fr(0), Fr(q)))):
                ctx.fail("kernel:accepting-set", {"b": b.hex(), "q": q.hex(), "draw": draw.hex()},
                         "the two-leaf and the composite comparison disagree or differ from draw < max(0,q)")
        rep = ctx.model("thin", lines)
        for l, w, r in zip(lines, want, rep):
            ctx.evaluations += 1
            if w != r:
                ctx.disagree("thin.decide (comparisons of the handlers, bounding_potential_warning)", {"request": l}, w, r)
        ctx.count("kernel:decide", len(lines))
        # CPython's uniform(0, b) for a given random()
        lines, want = [], []

        class R(pyrandom.Random):
            def random(self):
                return self._r
        rr = R()
        for _ in range(ctx.n(2000, 30000)):
            b = rng.choice([rng.uniform(0, 5), 2.0 ** rng.uniform(-1074, 100), 0.0, -0.0, -rng.random(), 5e-324])
            r = rng.choice([rng.random(), 0.0, 1 - 2.0 ** -53, 2.0 ** -53, 0.5])
            rr._r = r
            u = rr.uniform(0, b)
            lines.append(f"uniform {f2b(b)} {f2b(r)}")
            want.append(f2b(u))
            if b >= 0 and not (0.0 <= u <= b):
                ctx.fail("kernel:uniform-outside-[0,b]", {"b": b.hex(), "r": r.hex()}, f"uniform(0,b) = {u!r}")
        rep = ctx.model("thin", lines)
        for l, w, r in zip(lines, want, rep):
            ctx.evaluations += 1
            if w != r:
                ctx.disagree("thin.uniform (random.Random.uniform of this interpreter)", {"request": l}, w, r)
        ctx.count("kernel:uniform", len(lines))
    finally:
        jexc._logger = old_logger


# ------------------------------------------------------------------------------------------------------------------
# part 2: domination  (search for a failing input on the compiled C routines)
# ------------------------------------------------------------------------------------------------------------------

def read_constants(root):
    """prefactor default of InversePowerCoulombBoundingPotential and the Ewald defaults, by AST from the scratch copy"""
    out = {}
    p = os.path.join(root, "jellyfysh/potential/inverse_power_coulomb_bounding_potential/inverse_power_coulomb_bounding_potential.py")
    for node in ast.walk(ast.parse(open(p).read())):
        if isinstance(node, ast.FunctionDef) and node.name == "__init__":
            for a, dflt in zip(node.args.args[-len(node.args.defaults):], node.args.defaults):
                if a.arg == "prefactor":
                    out["bound_prefactor"] = ast.literal_eval(dflt)
    p = os.path.join(root, "jellyfysh/potential/merged_image_coulomb_potential/merged_image_coulomb_potential.py")
    for node in ast.walk(ast.parse(open(p).read())):
        if isinstance(node, ast.FunctionDef) and node.name == "__init__":
            for a, dflt in zip(node.args.args[-len(node.args.defaults):], node.args.defaults):
                out["ewald_" + a.arg] = ast.literal_eval(dflt)
    return out


class Pots:
    """the two real potential objects for one box length"""

    def __init__(self, L):
        import jellyfysh.setting as setting
        from jellyfysh.setting import hypercubic_setting
        setting.reset()
        hypercubic_setting.HypercubicSetting(beta=1.0, dimension=3, system_length=L)
        setting.set_number_of_root_nodes(2)
        setting.set_number_of_nodes_per_root_node(1)
        setting.set_number_of_node_levels(1)
        from jellyfysh.potential.merged_image_coulomb_potential import MergedImageCoulombPotential
        from jellyfysh.potential.inverse_power_coulomb_bounding_potential import InversePowerCoulombBoundingPotential
        self.L = L
        self.true = MergedImageCoulombPotential()
        self.bound = InversePowerCoulombBoundingPotential()
        self.k = self.bound._prefactor
        # The potentials that confirm thinned events in a run are, besides freshly constructed ones, deep copies (2nd..n-th handler of
        # a pool, Tagger.initialize) and unpickled ones (resumed runs): custom __deepcopy__/__getstate__/__setstate__ rebuild the C
        # object. The domination search and the consistency check below go through all three kinds.
        import copy as _copy
        import dill as _dill
        self.trues = [self.true, _copy.deepcopy(self.true), _dill.loads(_dill.dumps(self.true))]
        self.bounds = [self.bound, _copy.deepcopy(self.bound), _dill.loads(_dill.dumps(self.bound))]
        self._n = 0

    def rates(self, d, s, c1, c2, speed=1.0):
        v = [0.0, 0.0, 0.0]
        v[d] = speed
        self._n += 1
        k = self._n % 3
        return self.trues[k].derivative(v, list(s), c1, c2), self.bounds[k].derivative(v, list(s), c1, c2)

    def clones_consistent(self, ctx, rng, n):
        """fresh, deep-copied and unpickled potentials must report bit-identical rates"""
        for _ in range(n):
            s = [rng.uniform(-0.5, 0.5) * self.L for _ in range(3)]
            d = rng.randrange(3)
            v = [0.0, 0.0, 0.0]
            v[d] = 1.0
            c1, c2 = rng.choice([(1.0, 1.0), (1.0, -1.0), (0.41, -0.82)])
            for name, insts in (("true", self.trues), ("bound", self.bounds)):
                vals = [p.derivative(v, list(s), c1, c2) for p in insts]
                ctx.evaluations += 1
                if not (vals[0] == vals[1] == vals[2]):
                    ctx.fail("C04:%s-rate-differs-after-deepcopy-or-unpickle" % name,
                             {"L": self.L, "direction": d, "separation": s, "charges": [c1, c2],
                              "fresh": vals[0], "deepcopy": vals[1], "unpickled": vals[2]},
                             "a deep-copied or unpickled potential reports a different %s event rate than the freshly constructed one "
                             "(thinned events of pooled handlers / resumed runs are confirmed against it)" % name)


def dom_check(ctx, P, d, s, c1, c2, stats, speed=1.0):
    """oracle of the domination claim at one point; returns the ratio true/bound (or None)"""
    q, b = P.rates(d, s, c1, c2, speed)
    ctx.evaluations += 1
    stats["points"] += 1
    floor = FLOOR / (P.L * P.L) * abs(c1 * c2) * speed
    if not (q > floor):
        return (q / b) if b > 0 and q > 0 else None
    ratio = q / b if b > 0 else math.inf
    if ratio > stats["sup"]:
        stats["sup"], stats["argsup"] = ratio, {"L": P.L, "direction": d, "s": [x.hex() for x in s], "c1": c1, "c2": c2}
    case = {"L": P.L, "direction": d, "separation": [x.hex() for x in s], "separation_dec": list(s), "c1": c1, "c2": c2,
            "speed": speed, "true_rate": q, "bounding_rate": b, "prefactor": P.k}
    if not (b > 0):
        ctx.fail("domination:bound-not-positive-where-true-rate-positive", case,
                 f"true rate {q!r} > 0 but bounding rate {b!r} <= 0")
    elif b < q:
        ctx.fail("domination:bound-below-true-rate", case, f"bounding rate {b!r} < true rate {q!r} (ratio {q / b!r})")
    return ratio


def part_domination(ctx):
    import jellyfysh.setting as setting
    rng = ctx.rng
    consts = read_constants(ctx.root)
    ctx.extra["constants_read_from_source"] = consts
    stats = {"points": 0, "sup": 0.0, "argsup": None}
    Ls = [1.0] + ([rng.choice([0.5, 2.0, 3.7, 10.0, 0.123])] if ctx.quick else [0.5, 2.0, 3.7, 10.0, 0.123])
    budget_s = ctx.n(20.0, 300.0)
    t_end = time.time() + budget_s
    try:
        for li, L in enumerate(Ls):
            P = Pots(L)
            P.clones_consistent(ctx, rng, ctx.n(150, 1500))
            if abs(P.k - consts.get("bound_prefactor", P.k)) > 0:
                ctx.disagree("constants (AST of the source vs the constructed potential)", {"L": L}, P.k, consts)
            h = L / 2
            hm = nxt(h, -1)
            t_L = time.time() + (t_end - time.time()) / (len(Ls) - li)

            def sign_cases(d, s):
                """both charge-product signs; the rate for a negative product is positive on the mirrored half"""
                r1 = dom_check(ctx, P, d, s, 1.0, 1.0, stats)
                sm = list(s)
                sm[d] = -sm[d]
                if sm[d] < -h:
                    sm[d] = -h
                r2 = dom_check(ctx, P, d, sm, 1.0, -1.0, stats)
                return max(r1 or 0.0, r2 or 0.0)

            # (a) corners and edges, s_x log-spaced down to 1e-8 (the supremum sits at s_x -> 0+, |s_y| = |s_z| = L/2)
            nlog = ctx.n(25, 120)
            for i in range(nlog + 1):
                sx = L * 10.0 ** (-8 + (8 - 0.31) * i / nlog)
                for sy in (-h, hm, h):
                    for sz in (-h, hm, h):
                        d = rng.randrange(3)
                        s = [0.0, 0.0, 0.0]
                        s[d], s[(d + 1) % 3], s[(d + 2) % 3] = sx, sy, sz
                        sign_cases(d, s)
                        ctx.cls(("dom", "corner", L, i * 6 // (nlog + 1)))
                for (sy, sz) in ((-h, rng.uniform(-h, h)), (rng.uniform(-h, h), hm), (0.0, -h), (hm, 0.0)):
                    d = rng.randrange(3)
                    s = [0.0, 0.0, 0.0]
                    s[d], s[(d + 1) % 3], s[(d + 2) % 3] = sx, sy, sz
                    sign_cases(d, s)
                    ctx.cls(("dom", "edge", L, i * 6 // (nlog + 1)))
            # (b) symmetry planes and special points (floor regime: no claim, but no exception either)
            for sx in (0.0, -0.0, 5e-324, 1e-300, -h, hm, nxt(-h, 1)):
                for _ in range(6):
                    d = rng.randrange(3)
                    s = [0.0, 0.0, 0.0]
                    s[d], s[(d + 1) % 3], s[(d + 2) % 3] = sx, rng.uniform(-h, h), rng.uniform(-h, h)
                    sign_cases(d, s)
                    ctx.cls(("dom", "plane", L, sx == 0.0, abs(sx) >= hm))
            # (c) coarse grid over the cube
            g = ctx.n(9, 21)
            for ix in range(1, g + 1):
                for iy in range(g + 1):
                    for iz in range(iy, g + 1):          # symmetric under y<->z
                        s = [h * ix / g if ix < g else hm, -h + L * iy / g if iy < g else hm, -h + L * iz / g if iz < g else hm]
                        d = (ix + iy + iz) % 3
                        sp = [0.0, 0.0, 0.0]
                        sp[d], sp[(d + 1) % 3], sp[(d + 2) % 3] = s
                        sign_cases(d, sp)
                ctx.cls(("dom", "grid", L, ix * 4 // (g + 1)))
            # (d) multi-start compass search maximising true/bound (s_x > 0 half, log coordinate in s_x)
            starts = 0
            while time.time() < t_L:
                starts += 1
                d = rng.randrange(3)
                c = rng.random()
                if c < 0.35:
                    x = [rng.uniform(-8, math.log10(0.5)), rng.uniform(-1, 1), rng.uniform(-1, 1)]
                elif c < 0.6:
                    x = [rng.uniform(-8, -1), rng.choice([-1, 1]) * rng.uniform(0.8, 1), rng.choice([-1, 1]) * rng.uniform(0.8, 1)]
                elif c < 0.8:
                    x = [rng.uniform(-3, math.log10(0.5)), rng.uniform(-1, 1), rng.choice([-1.0, 1.0])]
                else:
                    x = [rng.uniform(-2, math.log10(0.5)), rng.uniform(-0.3, 0.3), rng.uniform(-0.3, 0.3)]

                def f(x):
                    sx = L * 10.0 ** min(x[0], math.log10(0.5))
                    sy = max(-h, min(hm, h * x[1]))
                    sz = max(-h, min(hm, h * x[2]))
                    s = [0.0, 0.0, 0.0]
                    s[d], s[(d + 1) % 3], s[(d + 2) % 3] = min(sx, hm), sy, sz
                    return sign_cases(d, s)
                best = f(x)
                step = [1.0, 0.25, 0.25]
                it = 0
                while max(step) > 1e-4 and it < 60 and time.time() < t_L:
                    it += 1
                    improved = False
                    for i in range(3):
                        for sg in (1, -1):
                            y = list(x)
                            y[i] += sg * step[i]
                            if i > 0:
                                y[i] = max(-1.0, min(1.0, y[i]))
                            else:
                                y[i] = max(-9.0, min(math.log10(0.5), y[i]))
                            if y == x:
                                continue
                            v = f(y)
                            if v > best:
                                best, x, improved = v, y, True
                                break
                    if not improved:
                        step = [s_ / 2 for s_ in step]
                ctx.cls(("dom", "search", L, int(best * 20)))
            ctx.count(f"domination:starts:L={L}", starts)
            # (e) general charges and speeds: the ratio does not depend on them
            for _ in range(ctx.n(300, 3000)):
                d = rng.randrange(3)
                s = [rng.uniform(-h, h) for _ in range(3)]
                if rng.random() < 0.4:
                    s[(d + 1) % 3] = rng.choice([-h, hm])
                    s[(d + 2) % 3] = rng.choice([-h, hm])
                    s[d] = rng.choice([-1, 1]) * L * 10.0 ** rng.uniform(-8, -0.4)
                c1, c2 = rng.choice([1.0, -1.0, 0.5, 2.0, -0.3]), rng.choice([1.0, -1.0, 0.5, -2.0, 1.7])
                dom_check(ctx, P, d, s, c1, c2, stats, speed=rng.choice([1.0, 0.5, 2.0]))
                ctx.cls(("dom", "charges", c1 * c2 > 0, s[d] > 0))
    finally:
        setting.reset()
    ctx.count("domination:points", stats["points"])
    ctx.extra["domination_search"] = {"points": stats["points"], "sup_true_over_bound": stats["sup"], "argsup": stats["argsup"],
                                      "note": "search for a failing input, not a proof; clean-tree calibration 0.999902"}
    if stats["sup"] < 0.9995:
        ctx.notes.append(f"domination search reached only sup={stats['sup']!r} (calibration 0.999902): search is weaker than designed")


# ------------------------------------------------------------------------------------------------------------------
# the 1/r bound: C routine + Python wrapper vs model (bit for bit; Lean's Float.pow is the same libm pow)
# ------------------------------------------------------------------------------------------------------------------

def part_bound_formula(ctx):
    import jellyfysh.setting as setting
    rng = ctx.rng
    try:
        P = Pots(1.0)
        lines, want, metas = [], [], []
        for _ in range(ctx.n(3000, 40000)):
            d = rng.randrange(3)
            c = rng.random()
            if c < 0.6:
                s = [rng.uniform(-0.5, 0.5) for _ in range(3)]
            elif c < 0.8:
                s = [rng.choice([-1, 1]) * 10.0 ** rng.uniform(-8, -0.3) for _ in range(3)]
            else:
                s = [rng.choice([0.0, -0.0, 0.5, -0.5, rng.uniform(-0.5, 0.5)]) for _ in range(3)]
                if s[0] == 0 and s[1] == 0 and s[2] == 0:
                    s[rng.randrange(3)] = 0.25
            c1, c2 = rng.choice([1.0, -1.0, 0.5, rng.uniform(-2, 2)]), rng.choice([1.0, -1.0, 2.0, rng.uniform(-2, 2)])
            speed = rng.choice([1.0, 0.5, rng.uniform(0.1, 3)])
            v = [0.0, 0.0, 0.0]
            v[d] = speed
            b = P.bound.derivative(v, list(s), c1, c2)
            lines.append(f"bound {f2b(P.k)} {f2b(c1)} {f2b(c2)} {d} {f2b(s[0])} {f2b(s[1])} {f2b(s[2])} {f2b(speed)}")
            want.append(f2b(b))
            metas.append((d, s, c1, c2, speed, b))
        rep = ctx.model("thin", lines)
        for l, w, r, (d, s, c1, c2, speed, b) in zip(lines, want, rep, metas):
            ctx.evaluations += 1
            ctx.cls(("bound-formula", d, c1 * c2 > 0, s[d] > 0))
            if w != r:
                ctx.disagree("thin.bound (InversePowerCoulombBoundingPotential.derivative, C routine)", {"request": l}, w, r)
            # oracle: the bounding rate has the sign of c1*c2*s_d  (it is a *rate bound*: positive on the uphill side)
            sg = c1 * c2 * s[d]
            if (sg > 0 and not b > 0) or (sg < 0 and not b < 0):
                ctx.fail("bound-formula:wrong-sign", {"request": l, "s": s, "c1": c1, "c2": c2, "direction": d},
                         f"bound derivative {b!r} does not have the sign of c1*c2*s_d = {sg!r}")
        ctx.count("bound-formula:points", len(lines))
    finally:
        setting.reset()


# ------------------------------------------------------------------------------------------------------------------
# part 3: run level
# ------------------------------------------------------------------------------------------------------------------

RUN_CONFIGS = [   # (ini, end_of_run_time quick, thorough)
    ("coulomb_atoms/power_bounded.ini", 2000.0, 30000.0),
    ("coulomb_atoms/cell_bounded.ini", 150.0, 3000.0),
    ("coulomb_atoms/cell_veto.ini", 50.0, 1000.0),
    ("dipoles/dipole_factors_inside_first.ini", 500.0, 10000.0),
    ("dipoles/cell_bounded.ini", 30.0, 500.0),
    ("dipoles/cell_veto.ini", 3.0, 60.0),
]


def runs_start(ctx):
    """start the run helper subprocesses (they work while this process does the domination search)"""
    cfgs = RUN_CONFIGS if not ctx.quick else [RUN_CONFIGS[0], RUN_CONFIGS[3],
                                              ctx.rng.choice([RUN_CONFIGS[1], RUN_CONFIGS[2], RUN_CONFIGS[4], RUN_CONFIGS[5]])]
    helper = os.path.join(os.path.dirname(os.path.dirname(os.path.abspath(__file__))), "c04_run.py")
    procs = []
    # the same cell-bounded configurations with several particles and as many event handlers per tagger: several cell-bounded
    # candidates of one tagger are pending at once, each on its own deep copy of the prepared handler (and of its bounding potential)
    # every section of the .ini that has `number_event_handlers` gets a pool of 2 x number_of_root_nodes: the shipped pools equal their
    # demand bound for 2 root nodes and the demand grows with the number of root nodes (a too small pool of ANY tagger, also of the
    # factor taggers Repulsive / Harmonic of the dipoles, ends the run with a TagActivatorError, which is no statement about C04)
    many = [("coulomb_atoms/cell_bounded.ini", 1.2, 6.0, {"RandomInputHandler": {"number_of_root_nodes": 6},
             "CoulombCellBounding": {"number_event_handlers": 12}, "CoulombNearby": {"number_event_handlers": 12},
             "CoulombSurplus": {"number_event_handlers": 12}, "CuboidPeriodicCells": {"cells_per_side": "5, 5, 5"}}),
            ("dipoles/cell_bounded.ini", 0.6, 3.0, {"RandomInputHandler": {"number_of_root_nodes": 4},
             "CoulombCellBounding": {"number_event_handlers": 8}, "CoulombNearby": {"number_event_handlers": 8},
             "CoulombSurplus": {"number_event_handlers": 8}, "Repulsive": {"number_event_handlers": 8},
             "Harmonic": {"number_event_handlers": 8}})]
    for _ini, _tq, _tt, _ov in many:       # the rule above, checked against the .ini of the tree under test
        from configparser import ConfigParser
        _cfg = ConfigParser()
        _cfg.read(os.path.join(ctx.root, "jellyfysh", "config_files", "2018_JCP_149_064113", _ini))
        _need = 2 * int(_ov["RandomInputHandler"]["number_of_root_nodes"])
        for _sec in _cfg.sections():
            if _cfg.has_option(_sec, "number_event_handlers") and int(_ov.get(_sec, {}).get("number_event_handlers", 0)) < _need:
                raise RuntimeError(f"harness: many-particle override of {_ini} leaves the pool of [{_sec}] below {_need}")
    cfgs = [c + (None,) for c in cfgs] + ([many[0]] if ctx.quick else many)
    for ini, tq, tt, ov in cfgs:
        seed = ctx.rng.randrange(2 ** 31)
        end = tq if ctx.quick else tt
        # output goes to files next to the scratch tree (a pipe would block the child until it is drained)
        base = os.path.join(os.path.dirname(ctx.root), "c04_run_%d" % len(procs))
        fo, fe = open(base + ".out", "w"), open(base + ".err", "w")
        p = subprocess.Popen(["/venv/bin/python", helper, ctx.root, ini, str(end), str(seed)] + ([json.dumps(ov)] if ov else []), stdout=fo, stderr=fe,
                             cwd=ctx.root, env=dict(os.environ, PYTHONPATH=ctx.root))
        fo.close()
        fe.close()
        procs.append((ini + (" +many" if ov else ""), end, seed, p, base))
    return procs


def runs_collect(ctx, procs):
    lines, metas = [], []
    deadline = time.time() + ctx.n(20, 90)
    for ini, end, seed, p, base in procs:
        try:
            p.wait(timeout=max(1.0, deadline - time.time()))
        except subprocess.TimeoutExpired:
            p.kill()
            p.wait()
            ctx.notes.append(f"run {ini} (end_of_run_time {end}) stopped by the time budget; the events recorded so far are used")
        out, err = open(base + ".out").read(), open(base + ".err").read()
        recs = []
        for ln in out.splitlines():
            if ln.startswith("REC "):
                try:
                    recs.append(json.loads(ln[4:]))
                except ValueError:      # a line cut off by the time budget
                    pass
        done = any(ln.startswith("DONE") for ln in out.splitlines())
        if not done and not recs:
            raise RuntimeError(f"run helper failed for {ini}: {err[-1500:]}")
        ctx.traces += 1
        ctx.count(f"run:{ini}:events", len(recs))
        for r in recs:
            case = {"ini": ini, "end_of_run_time": end, "seed": seed,
                    **{k: r[k] for k in ("handler", "n", "bound", "true", "draw", "accepted", "one_over_r")}}
            b, q, dr = b2f(r["bound"]), b2f(r["true"]), (b2f(r["draw"]) if r["draw"] is not None else None)
            ctx.evaluations += 1
            ctx.cls(("run", ini, r["handler"], r["accepted"], q > 0, r["one_over_r"]))
            pb = r.get("proposal_bound")
            if pb is not None:
                ctx.count("run:proposal-vs-confirmation-bound-compared")
                if pb != r["bound"]:
                    ctx.fail(f"run:{r['handler']}:confirmed-against-a-bound-other-than-the-one-the-event-was-proposed-with",
                             {**case, "proposal_bound": b2f(pb).hex(), "confirmation_bound": b.hex()},
                             f"the candidate was proposed at the constant cell bound {b2f(pb)!r} but confirmed against {b!r}: the acceptance "
                             f"probability is not max(0, true rate) / bounding rate of this event")
            if r["velocity_changed"] != r["accepted"]:
                ctx.fail(f"run:{r['handler']}:velocities-vs-decision", case,
                         f"confirmed={r['accepted']} but velocities changed={r['velocity_changed']}")
            if r["one_over_r"] and q > FLOOR and b < q:
                ctx.fail(f"run:{r['handler']}:bound-below-true-rate", case, f"bounding rate {b!r} < true rate {q!r} in a run of {ini}")
            if not r["one_over_r"] and q > 0 and b < q:
                ctx.count(f"run:{ini}:estimator-bound-exceeded(not the 1/r bound; outside the property)")
            qp = max(0.0, q)
            if dr is None:
                if qp > 0:
                    ctx.fail(f"run:{r['handler']}:no-uniform-drawn", case, "true rate positive but no uniform number drawn")
                if r["accepted"]:
                    ctx.fail(f"run:{r['handler']}:accepted-without-draw", case, "velocities changed although the true rate is <= 0")
                dr = 0.0
            else:
                if not (0.0 <= dr <= b) and b >= 0:
                    ctx.fail(f"run:{r['handler']}:draw-outside-[0,bound]", case, f"draw {dr!r} not in [0, {b!r}]")
                if r["accepted"] != (dr < qp):
                    ctx.fail(f"run:{r['handler']}:acceptance-not-exact-ratio", case, f"accepted={r['accepted']} draw={dr!r} true={q!r}")
            lines.append(f"decide {r['bound']} {r['true']} {f2b(dr)}")
            metas.append((r, case))
    rep = ctx.model("thin", lines) if lines else []
    for (r, case), rl in zip(metas, rep):
        t = rl.split()
        m_acc = t[0] == "1" if r["leaf"] else t[2] == "1"
        if m_acc != r["accepted"]:
            ctx.disagree("thin.decide on recorded run events", case, r["accepted"], rl)
    ctx.extra["run_events"] = len(lines)


def replay(ctx, case):
    """re-evaluate a recorded failing input on the current tree (./check C04 --replay FILE)"""
    c = case.get("case", {})
    sig = case.get("signature", "")
    if sig.startswith("domination:"):
        import jellyfysh.setting as setting
        try:
            P = Pots(float(c["L"]))
            s = [float.fromhex(x) for x in c["separation"]]
            q, b = P.rates(int(c["direction"]), s, c["c1"], c["c2"], c.get("speed", 1.0))
        finally:
            setting.reset()
        return {"signature": sig, "true_rate": q, "bounding_rate": b, "ratio": (q / b if b else None),
                "prefactor": P.k, "still_failing": bool(q > FLOOR / (P.L * P.L) and not (b >= q and b > 0))}
    if "request" in c:
        return {"signature": sig, "model_reply": ctx.model("thin", [c["request"]])[0][:2000],
                "note": "the request line encodes the time-sliced in-state, the values returned by the mocked potentials, "
                        "the draw and the lifting answer; see harness/props/c04.py: handler_cases for the implementation side "
                        "(`sendroot` lines: in-state, branches handed to send_out_state, the (bound, true) value of every (active leaf, "
                        "target leaf) pair in loop order — listed again under case['pairs'] with separations and charges —, the draw; "
                        "implementation side: part_root)"}
    if "ini" in c:
        return {"signature": sig, "note": "re-run: /venv/bin/python harness/c04_run.py <tree> %s %s %s and look at event n=%s"
                                          % (c["ini"], c["end_of_run_time"], c["seed"], c["n"])}
    return {"signature": sig, "note": "no replay recipe for this kind of case"}


def run(ctx):
    ctx.rule = ("(1) handler cases: seeded generator over (handler kind 1..6, box length, branch shape, charge/no charge, rate regime "
                "q<0|q=0|0<q<b|q=b|q=b+-ulp|q>b|b=0|b<0|subnormal, draw class 0|thr|thr+-ulp|bound|inner|r-mode, lifting answer); "
                "distinct = (kind, regime, draw class, outcome, warned, #targets). (1b) root-unit-active handlers (kinds 7, 8): two composite "
                "objects with 2 or 3 leaf units, all units of one moving; per-pair (bound, true) tables from the regimes dominated|sum<=0|"
                "all<=0|split:<regime of (1)> (stand-in potentials) or from the real merged-image and 1/r potentials on mixed-sign charges "
                "(thresholds +-ulp and a grid of random() values per scenario); non-trivial = the draw decides and some pair has a "
                "non-positive bound and a negative true derivative (counted; the run stops if fewer than 50); distinct = (kind, regime, "
                "draw class, outcome, warned, #leaves, such a pair present, real potentials). (2) domination: points of the minimum-image cube "
                "(corners/edges with s_x log-spaced to 1e-8 L, symmetry planes, grid, compass-search iterates), both charge signs, all 3 "
                "directions, several L; distinct = (family, L, bucket). (3) run events of shipped configurations; distinct = (ini, handler, "
                "accepted, true>0, uses 1/r bound)")
    t0 = time.time()
    procs = runs_start(ctx)      # the run subprocesses work in the background
    try:
        part_kernel(ctx)
        part_bound_formula(ctx)
        part_handlers(ctx)
        part_root(ctx)
        from harness import c04_piecewise      # the piecewise-constant bounding family (sequences on one handler object)
        c04_piecewise.run(ctx)
        t1 = time.time()
        part_domination(ctx)
        t2 = time.time()
        runs_collect(ctx, procs)
        procs = []
    finally:
        for pr in procs:
            pr[3].kill()
    ctx.extra["wall_parts_s"] = {"kernel+formula+handlers": round(t1 - t0, 1), "domination": round(t2 - t1, 1),
                                 "waiting for runs": round(time.time() - t2, 1)}
