"""C14 — Time stamps keep full resolution and order.

Correspondence: the Lean model `JF.Model.Time` (binary64 reading) vs the real `jellyfysh.base.time.Time`,
bit for bit.  Oracle: every clause of the property recomputed with `fractions.Fraction` on the
implementation's own outputs."""
import math, struct
from fractions import Fraction as Fr
from harness.drive import f2b, b2f

ID = "C14"
THEOREM_MODULES = ["JF.Props.C14", "JF.Props.C14Float", "JF.Props.C14FloatInf"]
COMPONENTS = ["time", "num"]
ASSUMPTIONS = ["left operands are finite normalised times with |quotient| <= 2^52; displacements in [0, 2^40] or +inf "
               "(the property's quantifier)"]
TRUSTED = ["Lean native Float (+ - * / floor are the hardware's IEEE-754 binary64 operations); "
           "JF.Num.Ops.ffmod (exact integer fmod) validated against math.fmod in this run"]

EPS = Fr(1, 2 ** 53)


def nxt(x, k=1):
    for _ in range(abs(k)):
        x = math.nextafter(x, math.inf if k > 0 else -math.inf)
    return x


def gen_time(rng):
    c = rng.random()
    if c < 0.15:
        q = 0.0
    elif c < 0.3:
        q = float(rng.choice([1, 2, 3, 2 ** 52, 2 ** 52 - 1, 2 ** 31, 2 ** 32 - 1]))
    elif c < 0.6:
        q = float(2 ** rng.randint(0, 52) + rng.choice([-1, 0, 1]))
    else:
        q = float(rng.randint(0, 2 ** rng.randint(1, 52)))
    q = min(q, float(2 ** 52))
    c = rng.random()
    if c < 0.1:
        r = 0.0
    elif c < 0.2:
        r = rng.choice([5e-324, 2.0 ** -53, 1 - 2.0 ** -53, 0.5, nxt(0.5, -1), nxt(0.5, 1), 2.0 ** -1022])
    elif c < 0.4:
        r = 2.0 ** -rng.randint(1, 1074)
    else:
        r = rng.random()
    return q, r


def gen_disp(rng, r):
    c = rng.random()
    if c < 0.05:
        return math.inf
    if c < 0.1:
        return 0.0
    if c < 0.2:
        return rng.choice([5e-324, 2.0 ** -1022, 2.0 ** 40, 1.0, 2.0 ** -53, 1 - 2.0 ** -53])
    if c < 0.45:
        # land r + d within a few ulp of an integer
        k = rng.randint(1, rng.choice([1, 2, 5, 1000, 2 ** 20]))
        d = nxt(k - r, rng.randint(-3, 3))
        return d if d >= 0 else 0.0
    if c < 0.75:
        return 2.0 ** rng.uniform(-1074, 40)
    return rng.random() * 2.0 ** rng.randint(-60, 39)


def run(ctx):
    from jellyfysh.base.time import Time, inf
    rng = ctx.rng
    N = ctx.n(20000, 1000000)
    ctx.rule = ("seeded generator over (quotient class, remainder class, displacement class); a case is non-trivial and "
                "distinct by its class (op, carry count bucket, rounding happened?, exponent gap bucket, comparison outcome)")
    req, meta = [], []

    # --- self-check of the soft fmod / wire format against the hardware
    fm_cases = [(rng.uniform(-1e6, 1e6) * 2.0 ** rng.randint(-300, 300), rng.choice([1.0, rng.random() * 2.0 ** rng.randint(-300, 300) or 1.0]))
                for _ in range(ctx.n(2000, 50000))]
    fm_cases += [(5e-324, 1.0), (-5e-324, 1.0), (1e308, 3e-320), (-0.0, 1.0), (1.0, 1.0), (2.0 ** 53, 1.0), (-1e-17, 1.0)]
    rep = ctx.model("num", [f"fmod {f2b(x)} {f2b(y)}" for x, y in fm_cases])
    for (x, y), rl in zip(fm_cases, rep):
        if f2b(math.fmod(x, y)) != rl:
            ctx.disagree("num.fmod (self-check of the model's exact fmod vs libm)", {"x": x.hex(), "y": y.hex()},
                         f2b(math.fmod(x, y)), rl)
    ctx.count("selfcheck:fmod", len(fm_cases))

    for i in range(N):
        q, r = gen_time(rng)
        op = rng.choice(["add", "add", "add", "cmp", "sub", "from_float"])
        if op == "add":
            d = gen_disp(rng, r)
            req.append(f"add {f2b(q)} {f2b(r)} {f2b(d)}"); meta.append(("add", q, r, d))
        elif op == "from_float":
            x = gen_disp(rng, 0.0) if rng.random() < 0.7 else float(rng.randint(0, 2 ** 53))
            req.append(f"from_float {f2b(x)}"); meta.append(("from_float", x))
        else:
            c = rng.random()
            if c < 0.3:
                q2, r2 = q, r
            elif c < 0.5:
                q2, r2 = q, nxt(r, rng.choice([-1, 1])) if 0 < r < 1 - 2.0 ** -53 else r
            elif c < 0.7:
                q2, r2 = q + rng.choice([-1.0, 1.0]) if 1 <= q < 2 ** 52 else q, gen_time(rng)[1]
            else:
                q2, r2 = gen_time(rng)
            if c > 0.97:
                q2 = r2 = math.inf
            req.append(f"{op} {f2b(q)} {f2b(r)} {f2b(q2)} {f2b(r2)}"); meta.append((op, q, r, q2, r2))
    # corpus: inf cases
    for q, r in [(0.0, 0.0), (float(2 ** 52), 1 - 2.0 ** -53)]:
        req.append(f"cmp {f2b(q)} {f2b(r)} {f2b(math.inf)} {f2b(math.inf)}"); meta.append(("cmp", q, r, math.inf, math.inf))
        req.append(f"cmp {f2b(math.inf)} {f2b(math.inf)} {f2b(q)} {f2b(r)}"); meta.append(("cmp", math.inf, math.inf, q, r))
    req.append(f"cmp {f2b(math.inf)} {f2b(math.inf)} {f2b(math.inf)} {f2b(math.inf)}"); meta.append(("cmp", math.inf, math.inf, math.inf, math.inf))

    rep = ctx.model("time", req)
    ctx.evaluations = len(req)

    def val(q, r):
        return Fr(q) + Fr(r)

    for m, line, rl in zip(meta, req, rep):
        op = m[0]
        ctx.count("op:" + op)
        try:
            if op == "add":
                _, q, r, d = m
                t = Time(q, r) + d
                impl = f"{f2b(t.quotient)} {f2b(t.remainder)}"
                if math.isinf(d):
                    ctx.cls(("add", "inf"))
                    if not (t == inf and Time(q, r) < t and not (t < t)):
                        ctx.fail("add:inf-not-absorbing", {"q": q.hex(), "r": r.hex(), "d": "inf"}, "t + inf is not the infinite time")
                else:
                    exact = Fr(r) + Fr(d)
                    rounded = Fr(r + d)
                    got = val(t.quotient, t.remainder)
                    carry = int(t.quotient - q)
                    gap = 0 if d == 0 else max(-60, min(45, math.frexp(d)[1]))
                    ctx.cls(("add", min(carry, 3), rounded != exact, gap // 8, t.remainder == 0.0))
                    okn = (t.quotient == math.floor(t.quotient)) and 0.0 <= t.remainder < 1.0
                    if not okn:
                        ctx.fail("add:not-normalised", {"q": q.hex(), "r": r.hex(), "d": d.hex()}, f"result {t!r} is not normalised")
                    # one rounding of the remainder, independent of q
                    if got != Fr(q) + rounded:
                        ctx.fail("add:more-than-one-rounding", {"q": q.hex(), "r": r.hex(), "d": d.hex()},
                                 f"value {got} != q + fl(r+d) = {Fr(q) + rounded}")
                    if abs(got - (Fr(q) + exact)) > EPS * exact * 2:
                        ctx.fail("add:error-bound", {"q": q.hex(), "r": r.hex(), "d": d.hex()}, "error exceeds one rounding of r+d")
                    if t < Time(q, r):
                        ctx.fail("add:decreases", {"q": q.hex(), "r": r.hex(), "d": d.hex()}, "t + d < t")
                    # monotone in d: compare with a neighbouring displacement
                    d2 = nxt(d, 1) if d < 2.0 ** 40 else d
                    if (Time(q, r) + d2) < t:
                        ctx.fail("add:not-monotone", {"q": q.hex(), "r": r.hex(), "d": d.hex(), "d2": d2.hex()}, "d<=d' but t+d' < t+d")
            elif op == "from_float":
                _, x = m
                t = Time.from_float(x)
                impl = f"{f2b(t.quotient)} {f2b(t.remainder)}"
                ctx.cls(("from_float", math.isinf(x), x >= 1.0, x == math.floor(x) if not math.isinf(x) else None))
                if not math.isinf(x):
                    if val(t.quotient, t.remainder) != Fr(x) or not (0.0 <= t.remainder < 1.0) or t.quotient != math.floor(t.quotient):
                        ctx.fail("from_float:inexact", {"x": x.hex()}, f"from_float({x!r}) = {t!r}")
            elif op == "cmp":
                _, q, r, q2, r2 = m
                a, b = Time(q, r), Time(q2, r2)
                res = [a == b, a < b, a > b, a <= b, a >= b]
                clt = a.quotient < b.quotient or (a.quotient == b.quotient and a.remainder < b.remainder)
                impl = " ".join("1" if x else "0" for x in res + [clt])
                if math.isinf(q) or math.isinf(q2):
                    ctx.cls(("cmp", "inf", tuple(res)))
                    want = ([True, False, False, True, True] if (math.isinf(q) and math.isinf(q2)) else
                            [False, True, False, True, False] if math.isinf(q2) else [False, False, True, False, True])
                else:
                    va, vb = val(q, r), val(q2, r2)
                    want = [va == vb, va < vb, va > vb, va <= vb, va >= vb]
                    ctx.cls(("cmp", q == q2, tuple(want)))
                if res != want:
                    ctx.fail("cmp:order", {"a": [q.hex(), r.hex()], "b": [q2.hex(), r2.hex()]}, f"comparisons {res} != exact order {want}")
            else:
                _, q, r, q2, r2 = m
                a, b = Time(q, r), Time(q2, r2)
                s = a - b
                impl = f2b(s)
                if not (math.isinf(q) or math.isinf(q2)):
                    diff = val(q, r) - val(q2, r2)
                    ctx.cls(("sub", diff == 0, min(60, max(-60, math.frexp(float(diff))[1])) // 8 if diff else None))
                    if abs(Fr(s) - diff) > 4 * EPS * max(1, abs(diff)):
                        ctx.fail("sub:error-bound", {"a": [q.hex(), r.hex()], "b": [q2.hex(), r2.hex()]},
                                 f"a-b = {s!r}, exact {float(diff)!r}")
                else:
                    ctx.cls(("sub", "inf"))
        except Exception as e:  # noqa
            impl = "exc:" + type(e).__name__
            ctx.fail("exception:" + op, {"line": line}, f"implementation raised {e!r}")
        if impl != rl:
            ctx.disagree("time." + op, {"line": line}, impl, rl)
        ctx.sample({"request": line, "impl": impl, "model": rl})


# ---------------------------------------------------------------------------------------------------------------------
# the second mechanism named by the property: the lexicographic comparison inside heap.c (insert / bubble_down)

class _H:            # any object works as an event handler for the schedulers
    pass


def heap_order(ctx):
    """Candidate times that differ only far below the resolution of quotient+remainder-as-one-float (large quotient, close
    remainders; equal quotients; adjacent quotients with remainders at the two ends of [0,1)) are pushed into the REAL
    HeapScheduler (freshly compiled heap.c) and the ListScheduler in random order; the delivery order must be the exact rational
    order of quotient+remainder, and must be what the model's `Time.cLt` predicts."""
    from jellyfysh.base.time import Time
    from jellyfysh.scheduler.heap_scheduler import HeapScheduler
    from jellyfysh.scheduler.list_scheduler import ListScheduler
    rng = ctx.rng
    n_batches = ctx.n(300, 6000)
    req, exp = [], []
    for b in range(n_batches):
        q = float(rng.choice([2 ** rng.randint(20, 52), 2 ** 40, 2 ** 52, 2 ** 30 + 1, rng.randint(0, 2 ** rng.randint(1, 52))]))
        q = min(q, float(2 ** 52))
        k = rng.randint(2, 6)
        base_r = rng.random()
        times = []
        for j in range(k):
            c = rng.random()
            if c < 0.5:
                r = min(max(base_r + rng.choice([-1, 1]) * 2.0 ** -rng.randint(20, 52), 0.0), nxt(1.0, -1))
                times.append((q, r))
            elif c < 0.7:
                times.append((q + rng.choice([0.0, 1.0]) if q < 2 ** 52 else q, rng.choice([0.0, nxt(1.0, -1), 2.0 ** -53, 0.5, 0.25])))
            else:
                times.append((q, nxt(base_r, rng.randint(-3, 3)) if 0.0 < base_r < 0.999 else base_r))
        times = list(dict.fromkeys(times))          # distinct times: ties are the scheduler's business (C06), not an order question
        if len(times) < 2:
            continue
        rng.shuffle(times)
        exact = sorted(times, key=lambda t: Fr(t[0]) + Fr(t[1]))
        for name, S in (("heap", HeapScheduler), ("list", ListScheduler)):
            s = S()
            hs = {}
            for t in times:
                h = _H()
                hs[id(h)] = t
                s.push_event(Time(*t), h)
            got = []
            try:
                for _ in times:
                    h = s.get_succeeding_event()
                    got.append(hs[id(h)])
                    s.trash_event(h)
            except Exception as e:
                got.append("exc:" + type(e).__name__)
            ctx.evaluations += 1
            ctx.cls(("sched-order", name, q >= 2.0 ** 24, len(times)))
            if got != exact:
                ctx.fail(f"{name}-scheduler:delivery-order-differs-from-exact-order-of-quotient+remainder",
                         {"scheduler": name, "pushed": [[a.hex(), b_.hex()] for a, b_ in times], "delivered": [g if isinstance(g, str) else [g[0].hex(), g[1].hex()] for g in got]},
                         "events are not delivered in the exact rational order of quotient + remainder")
        # the model's heap.c comparison on the sorted neighbours
        for a, b_ in zip(exact, exact[1:]):
            req.append(f"cmp {f2b(a[0])} {f2b(a[1])} {f2b(b_[0])} {f2b(b_[1])}")
            exp.append("0 1 0 1 0 1")
    rep = ctx.model("time", req) if req else []
    for line, e, r in zip(req, exp, rep):
        if e != r:
            ctx.disagree("time.cLt (model of the heap.c comparison) vs exact order", {"request": line}, e, r)
    ctx.count("scheduler-order-batches", n_batches)


# ---------------------------------------------------------------------------------------------------------------------
# times are values: sessions over Time *objects* (in-place `update`, results of `+`, the module-level `inf`)

def object_sessions(ctx):
    """Eight registers hold real `Time` objects; a session is a random sequence of `Time(q, r)`, `from_float`, `regs[i] = regs[j] + d`,
    `regs[i].update(regs[j])` (the in-place mutator used for time stamps), comparisons and subtractions. The Lean register model
    (`JF.Time.Regs`: values, no sharing) runs the same lines. After every mutating step ALL registers are compared (fields, bit for
    bit), so state shared between objects or cached inside one shows up at once; the oracle evaluates the property's comparison
    clause on every ordered pair of registers against the exact order of the objects' own fields, and checks that the module-level
    infinity and every `t + inf` obtained so far are still infinite."""
    import jellyfysh.base.time as tmod
    from jellyfysh.base.time import Time
    rng = ctx.rng
    n_sessions = ctx.n(150, 4000)
    for sidx in range(n_sessions):
        regs = [Time(0.0, 0.0) for _ in range(8)]
        lines, impl = [], []
        infs = []                       # results of `t + inf`: must stay infinite for ever
        steps = rng.randint(6, 40)
        hist = []
        for _ in range(steps):
            c = rng.random()
            i, j = rng.randrange(8), rng.randrange(8)
            try:
                if c < 0.15:
                    q, r = gen_time(rng)
                    regs[i] = Time(q, r); line = f"rnew {i} {f2b(q)} {f2b(r)}"; hist.append(f"r{i} = Time({q!r}, {r!r})")
                elif c < 0.22:
                    x = gen_disp(rng, 0.0)
                    regs[i] = Time.from_float(x); line = f"rff {i} {f2b(x)}"; hist.append(f"r{i} = Time.from_float({x!r})")
                elif c < 0.5:
                    d = gen_disp(rng, regs[j].remainder if 0.0 <= regs[j].remainder < 1.0 else 0.0)
                    if math.isinf(regs[j].quotient):
                        continue        # left operands are finite (the property's quantifier)
                    regs[i] = regs[j] + d; line = f"radd {i} {j} {f2b(d)}"; hist.append(f"r{i} = r{j} + {d!r}")
                    if math.isinf(d):
                        infs.append(regs[i])
                elif c < 0.75:
                    if i == j:
                        continue
                    infs = [t for t in infs if t is not regs[i]]      # the harness itself overwrites this object: legitimate
                    regs[i].update(regs[j]); line = f"rupd {i} {j}"; hist.append(f"r{i}.update(r{j})")
                elif c < 0.9:
                    a, b = regs[i], regs[j]
                    res = [a == b, a < b, a > b, a <= b, a >= b]
                    clt = a.quotient < b.quotient or (a.quotient == b.quotient and a.remainder < b.remainder)
                    lines.append(f"rcmp {i} {j}"); impl.append(" ".join("1" if x else "0" for x in res + [clt]))
                    continue
                else:
                    if math.isinf(regs[i].quotient) or math.isinf(regs[j].quotient):
                        continue
                    lines.append(f"rsub {i} {j}"); impl.append(f2b(regs[i] - regs[j]))
                    continue
            except Exception as e:
                ctx.fail("objects:exception", {"history": hist[-12:]}, f"implementation raised {e!r}")
                break
            lines.append(line); impl.append(f"{f2b(regs[i].quotient)} {f2b(regs[i].remainder)}")
            lines.append("rdump"); impl.append(" ".join(f"{f2b(t.quotient)} {f2b(t.remainder)}" for t in regs))
            # oracle: comparisons of every ordered pair agree with the exact order of the objects' own fields
            for a_i, a in enumerate(regs):
                for b_i, b in enumerate(regs):
                    fa, fb = (a.quotient, a.remainder), (b.quotient, b.remainder)
                    if any(math.isnan(v) for v in fa + fb):
                        continue
                    if math.isinf(fa[0]) or math.isinf(fb[0]):
                        want = ([True, False, False, True, True] if (math.isinf(fa[0]) and math.isinf(fb[0])) else
                                [False, True, False, True, False] if math.isinf(fb[0]) else [False, False, True, False, True])
                    else:
                        va, vb = Fr(fa[0]) + Fr(fa[1]), Fr(fb[0]) + Fr(fb[1])
                        want = [va == vb, va < vb, va > vb, va <= vb, va >= vb]
                    res = [a == b, a < b, a > b, a <= b, a >= b]
                    if res != want:
                        ctx.fail("objects:cmp-order-after-history", {"history": hist[-12:], "a": f"r{a_i} = ({fa[0]!r}, {fa[1]!r})",
                                                                     "b": f"r{b_i} = ({fb[0]!r}, {fb[1]!r})"},
                                 f"comparisons {res} of two time objects != exact order {want} of their quotient + remainder")
            for t in infs + [tmod.inf]:
                if not (math.isinf(t.quotient) and t.quotient > 0 and t == tmod.inf and Time(float(2 ** 52), 0.5) < t):
                    ctx.fail("objects:infinity-not-absorbing-after-history", {"history": hist[-12:], "value": repr(t)},
                             "a result of t + inf (or the module-level inf) is no longer the infinite time")
        ctx.evaluations += len(lines)
        ctx.cls(("objects", steps // 10, sum(1 for h in hist if "update" in h) > 1, bool(infs)))
        rep = ctx.model("time", lines)
        for ln, im, rl in zip(lines, impl, rep):
            if im != rl:
                ctx.disagree("time.objects (register session: values vs objects)", {"history": hist[-12:], "request": ln}, im, rl)
                break
        # restore a sane module-level inf for the rest of the run if an implementation under test damaged it
        if not math.isinf(tmod.inf.quotient):
            tmod.inf.update(Time(math.inf, math.inf))
    ctx.count("object-sessions", n_sessions)


_run_time_class = run


def run(ctx):
    _run_time_class(ctx)
    object_sessions(ctx)
    heap_order(ctx)
