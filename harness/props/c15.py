"""C15 — Periodic wrapping and minimum-image separations are exact modular arithmetic.

Correspondence: the Lean model `JF.Model.Periodic` (binary64 reading, component `pbc`) vs the real classes
`HypercubicPeriodicBoundaries` / `HypercuboidPeriodicBoundaries`, reached through `jellyfysh.setting` after
`HypercubicSetting(...)` / `HypercuboidSetting(...)`, bit for bit, for `correct_position(_entry)`,
`correct_separation(_entry)`, `separation_vector`, `next_image` and the error outcomes of the set-up.

Oracle (evaluated on the implementation's outputs for every case, exact rational arithmetic):
  position  y = f(x):  0 <= y < L (half-open, NO exception);  x - y = k*L up to ONE rounding at magnitude L
                       (|err| <= L*2^-53);  f(y) == y bit for bit (NO exception)
  separation r = g(s): |r| <= L/2 (closed, as the statement says);  r - s = k*L up to the roundings of the three
                       float operations involved (|err| <= 2^-52*(|s|+L), plus 2^-53*|b-a| for `separation_vector`)
  cubic == cuboid (bitwise) when all lengths are equal, both for the cuboid module as initialised by
  `HypercubicSetting` and for a fresh `HypercuboidSetting([L]*d)`.

History: up to /repo commit "fix: correct_position_entry returned the system length itself for tiny negative entries" the
position correction was the bare `x % L`, which returns L for -ulp(L)/4 <= x < 0 (known finding
`correct_position:tiny-negative-returns-L`, now status "fixed" in known_findings/C15.json).  The oracle no longer excuses it:
the former witnesses stay in the corpus as regression inputs and the old behaviour is reported under that signature.
"""
import math
from fractions import Fraction as Fr
from harness.drive import f2b, b2f

ID = "C15"
THEOREM_MODULES = ["JF.Props.C15"]
COMPONENTS = ["pbc"]
ASSUMPTIONS = [
    "box lengths are finite normal doubles in [2^-300, 2^300] (so that L/2 is exact and nothing overflows); positions and "
    "separations are finite doubles with |x| <= 2^75 * L; dimensions 1..4 (plus a few larger ones)",
    "for binary64 the word 'congruent' is read as: congruent up to the rounding of the float operations the "
    "formula contains (one rounding for a position, three for a separation); the theorems state exact congruence over Q",
]
TRUSTED = [
    "Lean native Float (+ - / and comparisons are IEEE-754 binary64, both compiled and in the kernel's Float.Model)",
    "JF.Num.Ops.ffmod / JF.Periodic.ffmodK (exact integer fmod): every request is evaluated with both and must agree; "
    "ffmodK is validated against math.fmod in this run",
]

# signature of the former known finding (status "fixed"): emitted again only if the repair regresses
FIXED_SIG = "correct_position:tiny-negative-returns-L"
INF = math.inf


def nxt(x, k=1):
    if k == 0:
        return x
    return math.nextafter(x, INF if k > 0 else -INF, steps=abs(k))


def hx(x):
    return float(x).hex()


# ----------------------------------------------------------------------------------------------------------- generators
FIXED_L = [1.0, 2.0, 0.5, 10.0, 3.0, 0.1, 0.3, 1 / 3, math.pi, 1e-3, 1e3, 7.0, 2.0 ** -20, 2.0 ** 20 + 1,
           nxt(1.0, -1), nxt(1.0, 1), 1.5, 6.0, 12.5, 2.0 ** -300, 2.0 ** 300, 1e-10, 1e10, 0.7, 5.0]


def gen_L(rng):
    c = rng.random()
    if c < 0.3:
        return rng.choice(FIXED_L)
    if c < 0.5:
        return 2.0 ** rng.randint(-40, 40)
    if c < 0.75:
        return (1 + rng.random()) * 2.0 ** rng.randint(-40, 40)
    return float(rng.randint(1, 1000)) / rng.choice([1, 2, 4, 10, 3, 7, 100])


def gen_x(rng, L):
    """a position entry; returns (class, x)"""
    c = rng.random()
    if c < 0.04:
        return "zero", rng.choice([0.0, -0.0])
    if c < 0.08:
        return "denormal", rng.choice([-1, 1]) * 5e-324 * rng.choice([1, 1, 2, 3, 2 ** 30])
    if c < 0.22:
        u = math.ulp(L)
        k = rng.random()
        if k < 0.5:
            x = -rng.choice([u, u / 2, u / 4, u / 8, 3 * u / 4, 3 * u / 8])
            x = nxt(x, rng.randint(-2, 2))
        elif k < 0.8:
            x = -L * 2.0 ** -rng.randint(45, 60)
        else:
            x = -L * 2.0 ** -rng.randint(1, 700)
        if x == 0.0:
            x = -5e-324
        return "tinyneg", x
    if c < 0.27:
        return "tinypos", L * 2.0 ** -rng.randint(1, 700) or 5e-324
    if c < 0.35:
        return "atL", nxt(L, rng.randint(-3, 3))
    if c < 0.42:
        return "at-L", -nxt(L, rng.randint(-3, 3))
    if c < 0.57:
        k = rng.choice([1, 2, 3, 5, 10, 2 ** 20, 10 ** 6, 2 ** 40, 2 ** 52, 2 ** 53 + 2, rng.randint(1, 10 ** 6)])
        x = nxt(rng.choice([-1, 1]) * k * L, rng.randint(-2, 2))
        return "multiple", x
    if c < 0.62:
        return "half", nxt(rng.choice([-1, 1]) * L / 2, rng.randint(-2, 2))
    if c < 0.75:
        return "inbox", rng.random() * L
    if c < 0.9:
        return "near", rng.uniform(-3, 4) * L
    return "far", rng.choice([-1, 1]) * rng.random() * L * 2.0 ** rng.uniform(0, 70)


def gen_s(rng, L):
    """a separation entry"""
    c = rng.random()
    if c < 0.25:
        return "sep-half", nxt(rng.choice([-1, 1]) * L / 2, rng.randint(-3, 3))
    if c < 0.4:
        k = rng.choice([1, 2, 3, 7, 2 ** 20, 10 ** 6, 2 ** 45, rng.randint(1, 1000)])
        return "sep-khalf", nxt(rng.choice([-1, 1]) * k * L + rng.choice([-1, 1]) * L / 2, rng.randint(-2, 2))
    if c < 0.5:
        return "sep-inrange", rng.uniform(-0.5, 0.5) * L
    return gen_x(rng, L)


def gen_op(rng, dim, Ls):
    """one request: (fn, args)   (args are python floats / ints / lists)"""
    c = rng.random()
    if c < 0.06:
        i = rng.choice([dim, dim + 1, -dim - 1, -dim, -1])          # index edge cases (negative ones are legal Python)
    else:
        i = rng.randrange(dim)
    Li = Ls[i] if -dim <= i < dim else Ls[0]
    c = rng.random()
    if c < 0.33:
        cl, x = gen_x(rng, Li)
        return "pos_entry", (x, i), cl
    if c < 0.6:
        cl, s = gen_s(rng, Li)
        return "sep_entry", (s, i), cl
    if c < 0.65:
        cl, x = gen_x(rng, Li)
        return "next", (x, i), cl
    n = dim
    r = rng.random()
    if r < 0.04:
        n = dim + 1                                                  # too long  -> IndexError for the cuboid class
    elif r < 0.08:
        n = max(0, dim - 1)                                          # too short -> IndexError in separation_vector
    if c < 0.77:
        return "pos", ([gen_x(rng, Ls[j % dim])[1] for j in range(n)],), "vec"
    if c < 0.85:
        return "sep", ([gen_s(rng, Ls[j % dim])[1] for j in range(n)],), "vec"
    ref, tgt = [], []
    for j in range(n):
        Lj = Ls[j % dim]
        a = rng.random() * Lj if rng.random() < 0.7 else gen_x(rng, Lj)[1]
        b = a + gen_s(rng, Lj)[1] if rng.random() < 0.6 else (rng.random() * Lj if rng.random() < 0.6 else gen_x(rng, Lj)[1])
        ref.append(a); tgt.append(b)
    if rng.random() < 0.03:
        tgt = tgt + [0.25 * Ls[0]]                                    # longer target: silently truncated
    return "sepvec", (ref, tgt), "vec"


# ------------------------------------------------------------------------------------------------- implementation side
def line_for(view, dim, Ls, fn, args):
    if view in ("cubic", "cubicsim"):
        head = f"{view} {dim} {f2b(Ls[0])}"
    else:
        head = f"cuboid {dim} {len(Ls)} " + " ".join(f2b(l) for l in Ls)
    if fn in ("pos_entry", "sep_entry", "next"):
        return f"{head} {fn} {f2b(args[0])} {args[1]}"
    if fn in ("pos", "sep"):
        v = args[0]
        return f"{head} {fn} {len(v)} " + " ".join(f2b(x) for x in v)
    r, t = args
    return (f"{head} sepvec {len(r)} " + " ".join(f2b(x) for x in r) + f" {len(t)} " + " ".join(f2b(x) for x in t)).replace("  ", " ")


def call_impl(pb, fn, args):
    """returns (reply string in the model's format, python result or None)"""
    try:
        if fn == "pos_entry":
            y = pb.correct_position_entry(args[0], args[1]); return f2b(y), y
        if fn == "sep_entry":
            y = pb.correct_separation_entry(args[0], args[1]); return f2b(y), y
        if fn == "next":
            y = pb.next_image(args[0], args[1]); return f2b(y), y
        if fn == "pos":
            v = list(args[0]); ret = pb.correct_position(v)
            assert ret is None
            return " ".join(f2b(x) for x in v), v
        if fn == "sep":
            v = list(args[0]); ret = pb.correct_separation(v)
            assert ret is None
            return " ".join(f2b(x) for x in v), v
        if fn == "sepvec":
            r, t = list(args[0]), list(args[1])
            v = pb.separation_vector(r, t)
            if r != list(args[0]) or t != list(args[1]):
                return "mutated-arguments", None
            return " ".join(f2b(x) for x in v), list(v)
    except IndexError:
        return "err:IndexError", None
    raise ValueError(fn)


ATTR_TOKENS = [("Dimension must be greater", "err:AttributeError:dimension"),
               ("Please give a system length for each dimension", "err:AttributeError:count"),
               ("System length must be greater", "err:AttributeError:length")]


class Impl:
    """initialise / reset the real setting package"""

    def __init__(self):
        import jellyfysh.setting as setting
        from jellyfysh.setting import hypercubic_setting, hypercuboid_setting
        self.setting, self.hc, self.hq = setting, hypercubic_setting, hypercuboid_setting

    def init(self, kind, dim, Ls):
        """returns None on success, else the error token"""
        self.setting.reset()
        try:
            if kind == "cubic":
                self.hc.HypercubicSetting(beta=1.0, dimension=dim, system_length=Ls[0])
            else:
                self.hq.HypercuboidSetting(system_lengths=list(Ls), beta=1.0, dimension=dim)
        except AttributeError as e:
            self.setting.reset()
            for frag, tok in ATTR_TOKENS:
                if frag in str(e):
                    return tok
            return "err:AttributeError:?" + str(e)
        return None

    def views(self, kind):
        if kind == "cubic":
            assert isinstance(self.setting.periodic_boundaries, self.hc.HypercubicPeriodicBoundaries)
            return [("cubic", self.setting.periodic_boundaries), ("cubicsim", self.hq.HypercuboidPeriodicBoundaries)]
        assert isinstance(self.setting.periodic_boundaries, self.hq.HypercuboidPeriodicBoundaries)
        return [("cuboid", self.setting.periodic_boundaries)]


# ------------------------------------------------------------------------------------------------------------- oracle
class Oracle:
    def __init__(self, ctx):
        self.ctx = ctx
        self.regressed = 0

    def regression(self, case, what):
        """the repaired defect is back: a plain property violation (the finding is no longer listed as known)"""
        self.ctx.count("regression:" + FIXED_SIG)
        if self.regressed < 12:             # keep the framework's failure list free for anything else
            self.regressed += 1
            self.ctx.fail(FIXED_SIG, case, what)

    def position(self, case, x, y, L, again):
        """y = correct_position_entry(x); again(y) re-applies the function"""
        ctx = self.ctx
        FL, Fx, Fy = Fr(L), Fr(x), Fr(y)
        in_range = 0 <= Fy < FL
        k = round((Fx - Fy) / FL)
        err = abs(Fx - Fy - k * FL)
        if err > FL / 2 ** 53:
            ctx.fail("correct_position:not-congruent", case, f"x - y = {float(Fx - Fy)!r} is not a multiple of L within one rounding")
        yy = again(y)
        if not in_range:
            if y == L and x < 0 and -x < math.ulp(L):
                self.regression(case, f"correct_position_entry({x!r}) == L == {L!r} (not in [0, L)); applying it again gives {yy!r}")
            else:
                ctx.fail("correct_position:out-of-range", case, f"result {y!r} not in [0, {L!r})")
        if yy is None or f2b(yy) != f2b(y):
            if self.regressed == 0 or in_range:
                ctx.fail("correct_position:not-idempotent", case, f"f(x) = {y!r} but f(f(x)) = {yy!r}")
            else:
                ctx.count("regression:not-idempotent-at-L")
        # case class: which branch of CPython's float_rem, was the +L inexact, how far away
        m = math.fmod(x, L)
        far = 0 if x == 0 else max(-60, min(80, math.frexp(abs(x) / L)[1])) // 10
        # "neg-to-zero": fmod(x, L) + L rounds to L and the `!= L` branch of the repaired function returns 0.0
        br = "zero" if m == 0 else ("pos" if m > 0 else ("neg-exact" if Fr(m) + FL == Fy else
                                                         ("neg-to-zero" if m + L == L and y == 0.0 else "neg-rounded")))
        ctx.cls(("pos", br, far, k == 0))

    def separation(self, case, s_exact, s_abs, r, L, extra_tol=Fr(0), tag="sep"):
        ctx = self.ctx
        FL, Fr_ = Fr(L), Fr(r)
        if abs(Fr_) > FL / 2:
            ctx.fail(f"{tag}:magnitude-exceeds-half-box", case, f"|{r!r}| > L/2 = {L / 2!r}")
        k = round((Fr_ - s_exact) / FL)
        err = abs(Fr_ - s_exact - k * FL)
        tol = (abs(Fr(s_abs)) + FL) / 2 ** 52 + extra_tol
        if err > tol:
            ctx.fail(f"{tag}:not-congruent", case, f"r - s = {float(Fr_ - s_exact)!r} is not a multiple of L = {L!r} within rounding")
        vac = tol >= FL / 2
        edge = "lo" if Fr_ == -FL / 2 else ("hi" if Fr_ == FL / 2 else "in")
        far = 0 if s_abs == 0 else max(-60, min(80, math.frexp(abs(s_abs) / L)[1])) // 10
        ctx.cls((tag, edge, far, k == 0, vac))
        if vac:
            ctx.count("oracle:congruence-vacuous(|s| >= 2^51 L)")


def Lat(Ls, i):
    return Ls[i]     # python indexing, negative indices allowed


def judge(orc, ctx, view, pb, dim, Ls, fn, args, reply, res):
    """property oracle on one implementation result"""
    case = {"setting": view, "dimension": dim, "lengths": [hx(l) for l in Ls], "fn": fn,
            "args": [([hx(v) for v in a] if isinstance(a, list) else (hx(a) if isinstance(a, float) else a)) for a in args]}
    n = len(Ls)
    if reply == "mutated-arguments":
        ctx.fail("separation_vector:mutates-arguments", case, "separation_vector changed its argument lists"); return
    if fn in ("pos_entry", "sep_entry", "next"):
        x, i = args
        legal = (-n <= i < n) or view == "cubic"
        if res is None:
            if legal:
                ctx.fail(f"exception:{fn}", case, "IndexError for a legal index")
            else:
                ctx.cls((fn, "IndexError"))
            return
        L = Ls[0] if view == "cubic" else Lat(Ls, i)
        if fn == "pos_entry":
            orc.position(case, x, res, L, lambda y: call_impl(pb, "pos_entry", (y, i))[1])
        elif fn == "sep_entry":
            orc.separation(case, Fr(x), x, res, L)
        else:
            # next_image is not part of the statement; sanity: one box length further, same wrapped image class
            if Fr(res) != Fr(x + L):
                ctx.fail("next_image:not-x-plus-L", case, f"next_image({x!r}) = {res!r}")
            ctx.cls(("next", x + L == x, Fr(x) + Fr(L) == Fr(res)))
        return
    if fn in ("pos", "sep"):
        v = args[0]
        legal = len(v) <= n or view == "cubic"
        if res is None:
            if legal:
                ctx.fail(f"exception:{fn}", case, "IndexError for a position that fits the dimension")
            else:
                ctx.cls((fn, "IndexError"))
            return
        if len(res) != len(v):
            ctx.fail(f"{fn}:length-changed", case, f"{len(v)} entries in, {len(res)} out"); return
        twice = call_impl(pb, "pos", (res,))[1] if fn == "pos" else None
        for j, (x, y) in enumerate(zip(v, res)):
            L = Ls[0] if view == "cubic" else Ls[j]
            cj = dict(case, component=j)
            if fn == "pos":
                orc.position(cj, x, y, L, lambda _y, j=j: None if twice is None else twice[j])
            else:
                orc.separation(cj, Fr(x), x, y, L)
        return
    # sepvec
    ref, tgt = args
    legal = len(ref) >= dim and len(tgt) >= dim
    if res is None:
        if legal:
            ctx.fail("exception:sepvec", case, "IndexError for positions that have `dimension` entries")
        else:
            ctx.cls(("sepvec", "IndexError"))
        return
    if len(res) != dim:
        ctx.fail("separation_vector:wrong-length", case, f"{len(res)} entries, dimension {dim}"); return
    for j in range(dim):
        L = Ls[0] if view == "cubic" else Ls[j]
        d = Fr(tgt[j]) - Fr(ref[j])
        orc.separation(dict(case, component=j), d, tgt[j] - ref[j], res[j], L, extra_tol=abs(d) / 2 ** 53, tag="sepvec")


# --------------------------------------------------------------------------------------------------------------- run
CORPUS = [
    # (kind, dim, Ls, fn, args)   -- first the witnesses of the former finding `correct_position:tiny-negative-returns-L`
    # (regression inputs: the bare `x % L` returns L on them, the repaired function 0.0)
    ("cubic", 3, [1.0], "pos_entry", (-1e-17, 0)),
    ("cuboid", 3, [1.0, 2.0, 3.0], "pos", ([-1e-17, -1e-17, -1e-16],)),
    ("cubic", 3, [1.0], "pos", ([-1e-17, 1.0, -5e-324],)),
    ("cubic", 2, [1.0], "pos_entry", (-2.0 ** -54, 1)),       # the tie L - ulp/4: the modulo rounds to even = L -> 0.0
    ("cubic", 2, [1.0], "pos_entry", (nxt(-2.0 ** -54, 1), 1)),
    ("cubic", 2, [1.0], "pos_entry", (nxt(-2.0 ** -54, -1), 1)),  # just beyond the tie: stays below L
    ("cubic", 2, [3.0], "pos_entry", (-2.0 ** -52, 1)),       # non power of two: tie at ulp/2
    ("cubic", 1, [1.0], "sep_entry", (0.5, 0)),
    ("cubic", 1, [1.0], "sep_entry", (-0.5, 0)),
    ("cubic", 1, [3.0], "sep_entry", (nxt(-1.5, -1), 0)),     # (s + h) tiny negative -> % returns L -> +L/2
    ("cubic", 3, [1.0], "sepvec", ([0.1, 0.2, 0.3], [0.9, 0.8, 0.2])),
    ("cuboid", 2, [1.0, 2.0], "sepvec", ([0.25, 0.5], [0.75, 1.5])),   # separations exactly L/2
    ("cubic", 4, [0.1], "pos", ([0.1, 0.2, 0.30000000000000004, -0.1],)),
]
BAD_SETUPS = [("cubic", 0, [1.0]), ("cubic", -1, [1.0]), ("cubic", 2, [0.0]), ("cubic", 2, [-1.0]), ("cubic", 0, [-1.0]),
              ("cuboid", 0, []), ("cuboid", 2, [1.0]), ("cuboid", 2, [1.0, 2.0, 3.0]), ("cuboid", 2, [1.0, 0.0]),
              ("cuboid", 2, [-0.0, 1.0]), ("cuboid", 3, [1.0, 2.0, -5e-324]), ("cuboid", -2, [1.0, 1.0])]


def gen_config(rng):
    c = rng.random()
    dim = rng.choice([1, 2, 2, 3, 3, 3, 4, 4, 6])
    if c < 0.45:
        return "cubic", dim, [gen_L(rng)]
    if c < 0.55:
        return "cuboid", dim, [gen_L(rng)] * dim                      # equal lengths through the cuboid set-up
    if c < 0.7:
        L = gen_L(rng)                                               # nearly equal lengths
        return "cuboid", dim, [nxt(L, rng.randint(-1, 1)) for _ in range(dim)]
    return "cuboid", dim, [gen_L(rng) for _ in range(dim)]


def run(ctx):
    rng = ctx.rng
    impl = Impl()
    orc = Oracle(ctx)
    ctx.rule = ("seeded generator: set-up (cubic | cuboid equal | cuboid nearly equal | cuboid mixed; dimension 1-6; box length "
                "fixed list / power of two / random mantissa / decimal fraction) x function (entry and vector forms of "
                "correct_position, correct_separation, separation_vector, next_image) x input regime (zero, denormal, tiny "
                "negative around ulp(L)/4..ulp(L), at +-L +-ulp, integer multiples +-ulp up to 2^53 L, +-L/2 +-ulp, k L +- L/2, "
                "in box, near, far). A case class = (function, branch of CPython float_rem taken, +L rounded or exact, "
                "distance bucket, image index 0 or not, result at -L/2 / +L/2 / inside)")
    budget = ctx.n(150000, 2000000)         # implementation evaluations
    per_cfg = ctx.n(150, 600)

    # --- self-check of the kernel-reducible fmod against libm
    fm = [(rng.uniform(-1e6, 1e6) * 2.0 ** rng.randint(-300, 300), rng.random() * 2.0 ** rng.randint(-300, 300) or 1.0)
          for _ in range(ctx.n(3000, 60000))]
    fm += [(5e-324, 1.0), (-5e-324, 1.0), (1e308, 3e-320), (-0.0, 1.0), (1.0, 1.0), (2.0 ** 53, 1.0), (-1e-17, 1.0),
           (3e-320, 1e-320), (1.5, 5e-324), (-7.25, 2.0 ** -1022), (INF, 1.0), (1.0, INF), (2.0 ** 1023, 3.0)]
    rep = ctx.model("pbc", [f"fmodK {f2b(x)} {f2b(y)}" for x, y in fm])
    for (x, y), rl in zip(fm, rep):
        try:
            want = f2b(math.fmod(x, y))
        except ValueError:
            want = None                       # fmod(inf, y): libm returns nan, python raises
        if want is not None and want != rl:
            ctx.disagree("pbc.fmodK (self-check of the model's exact fmod vs libm)", {"x": hx(x), "y": hx(y)}, want, rl)
    ctx.count("selfcheck:fmodK", len(fm))

    lines, impls, metas = [], [], []
    done = [0]

    def flush():
        """model side for everything collected so far, one driver batch"""
        if not lines:
            return
        rep = ctx.model("pbc", lines)
        for line, im, rl, (view, fn, cl) in zip(lines, impls, rep, metas):
            if im != rl:
                ctx.disagree(f"pbc.{view}.{fn}", {"line": line, "input-class": cl}, im, rl)
            ctx.sample({"request": line, "impl": im, "model": rl})
        done[0] += len(lines)
        ctx.evaluations = done[0]
        del lines[:], impls[:], metas[:]

    def evaluate(kind, dim, Ls, ops):
        """run `ops` on every view of the set-up; returns per-op dict view -> reply"""
        err = impl.init(kind, dim, Ls)
        out = [dict() for _ in ops]
        if err is not None:
            ctx.fail("setup:rejected-valid-setting", {"setting": kind, "dimension": dim, "lengths": [hx(l) for l in Ls]}, err)
            return out
        for view, pb in impl.views(kind):
            full = Ls if view == "cuboid" else [Ls[0]] * dim
            for o, (fn, args, cl) in zip(out, ops):
                try:
                    reply, res = call_impl(pb, fn, args)
                    judge(orc, ctx, view, pb, dim, full, fn, args, reply, res)
                except Exception as e:  # noqa
                    reply = "exc:" + type(e).__name__
                    ctx.fail(f"exception:{fn}", {"setting": view, "dimension": dim, "lengths": [hx(l) for l in Ls], "fn": fn,
                                                 "args": repr(args)}, f"implementation raised {e!r}")
                o[view] = reply
                lines.append(line_for(view, dim, Ls, fn, args)); impls.append(reply); metas.append((view, fn, cl))
                ctx.count(f"fn:{view}.{fn}"); ctx.count("input:" + cl)
        impl.setting.reset()
        return out

    def agreement(dim, L, ops, a, b):
        for (fn, args, cl), ra, rb in zip(ops, a, b):
            reps = {**ra, **rb}
            ref = reps.get("cubic")
            for view in ("cubicsim", "cuboid"):
                r = reps.get(view)
                if r is None or ref is None:
                    continue
                if r == "err:IndexError":
                    continue                        # the cubic class ignores the index (judged separately as legal/illegal)
                if r != ref:
                    ctx.fail(f"cubic-vs-cuboid:differ:{fn}", {"dimension": dim, "length": hx(L), "fn": fn, "args": repr(args),
                                                             "cuboid-set-up": view},
                             f"cubic {ref} vs cuboid {r}")
            ctx.count("agreement-checks")

    # --- corpus (regression inputs of the former finding first)
    for kind, dim, Ls, fn, args in CORPUS:
        ops = [(fn, args, "corpus")]
        a = evaluate(kind, dim, Ls, ops)
        if kind == "cubic":
            b = evaluate("cuboid", dim, [Ls[0]] * dim, ops)
            agreement(dim, Ls[0], ops, a, b)

    # --- non-finite entries (OUTSIDE the property's quantifier: no oracle, and a difference is only noted, it does not affect the
    #     verdict): the repaired function tests `corrected_entry != L`, so nan (from nan/inf inputs) passes through, in the code and
    #     in the model; a `<` test would return 0.0 here
    nf_lines, nf_impl = [], []
    for kind, dim, Ls in (("cubic", 2, [1.0]), ("cuboid", 2, [1.0, 3.0])):
        if impl.init(kind, dim, Ls) is None:
            for view, pb in impl.views(kind):
                for x in (math.nan, -math.nan, INF, -INF):
                    for i in range(dim):
                        nf_lines.append(line_for(view, dim, Ls, "pos_entry", (x, i)))
                        nf_impl.append(pb.correct_position_entry(x, i))
            impl.setting.reset()
    for line, y, rl in zip(nf_lines, nf_impl, ctx.model("pbc", nf_lines)):
        ym = b2f(rl) if rl.isdigit() else None
        if ym is None or math.isnan(y) != math.isnan(ym) or (not math.isnan(y) and f2b(y) != rl):
            ctx.count("non-finite:model-differs")
            if ctx.hist["non-finite:model-differs"] <= 3:
                ctx.notes.append(f"non-finite position entry (outside the quantifier): implementation {y!r}, model {rl} on `{line}`")
        ctx.count("input:non-finite"); ctx.cls(("pos-nonfinite", math.isnan(y)))

    # --- set-ups the real code rejects: error outcome must be the same
    for kind, dim, Ls in BAD_SETUPS:
        tok = impl.init(kind, dim, Ls)
        impl.setting.reset()
        if tok is None:
            tok = "accepted"
        lines.append(line_for(kind, dim, Ls if Ls else [1.0], "pos", ([],)) if kind == "cubic" else
                     f"cuboid {dim} {len(Ls)} " + " ".join(f2b(l) for l in Ls) + (" " if Ls else "") + "pos 0")
        impls.append(tok if tok != "accepted" else ""); metas.append((kind, "setup", "bad-setup"))
        ctx.cls(("setup", tok)); ctx.count("input:bad-setup")

    # --- generated
    while done[0] + len(impls) < budget:
        if len(lines) > 250000:
            flush()
        kind, dim, Ls = gen_config(rng)
        full = Ls if kind == "cuboid" else [Ls[0]] * dim
        ops = [gen_op(rng, dim, full) for _ in range(per_cfg)]
        ctx.count("setup:" + kind + (":equal" if kind == "cuboid" and len(set(Ls)) == 1 else ""))
        a = evaluate(kind, dim, Ls, ops)
        if kind == "cubic":
            b = evaluate("cuboid", dim, [Ls[0]] * dim, ops)
            agreement(dim, Ls[0], ops, a, b)

    flush()
    if orc.regressed:
        ctx.notes.append("REGRESSION of the repaired finding " + FIXED_SIG + ": correct_position_entry returns L again")


def replay(ctx, case):
    """re-run the oracle on one recorded failing input"""
    c = case.get("case", case)
    if "line" in c or "setting" not in c or "lengths" not in c:
        return {"note": "not a single-function case", "case": c}
    impl = Impl()
    orc = Oracle(ctx)
    Ls = [float.fromhex(h) for h in c["lengths"]]
    dim = c["dimension"]
    view = c["setting"]
    kind = "cuboid" if view == "cuboid" else "cubic"
    args = tuple(([float.fromhex(v) for v in a] if isinstance(a, list) else (float.fromhex(a) if isinstance(a, str) else a))
                 for a in c["args"])
    err = impl.init(kind, dim, Ls if kind == "cuboid" else Ls[:1])
    if err:
        return {"setup-error": err}
    pb = dict(impl.views(kind))[view]
    reply, res = call_impl(pb, c["fn"], args)
    judge(orc, ctx, view, pb, dim, Ls, c["fn"], args, reply, res)
    impl.setting.reset()
    return {"reply": reply, "result": res if res is None or isinstance(res, list) else [res],
            "oracle_failures": [f["signature"] for f in ctx.failures]}
