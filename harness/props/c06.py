"""C06 — Scheduler always yields a live event with the smallest candidate time.

Correspondence: the Lean models `JF.Model.Heap` (heap.c), `JF.Model.Sched` (HeapScheduler, ListScheduler), run over
binary64 `Time` keys, vs the real `HeapScheduler` (freshly compiled heap.c behind cffi) and `ListScheduler`:
per operation the returned handler, the returned time (bit patterns), the error class, the allocated heap size and
the heap length; at random points, after every pickle round trip and at the end of each history the complete array of
heap entries `(quotient bits, remainder bits, handler, counter)` as `lib.entry` returns it.

Oracle (evaluated on the implementation for every `get` of every protocol-respecting history): plain reference
model = dictionary handler -> time of its current event; see `Oracle`.

Sanitizer replay (run first, on every history): the finite pushes / trashes / gets / counter pokes / pickle round trips
are replayed through `harness/c06_asan/driver.c` linked against the scratch copy's heap.c under ASan+UBSan; the
sanitizers must stay silent (else: oracle failure `heap.c:invalid-memory-access:*` with the history as replay, and the
in-process run is skipped) and the driver's answers must equal the real scheduler's."""
import math, os, pickle, subprocess, tempfile
from harness.drive import f2b, b2f

ID = "C06"
THEOREM_MODULES = ["JF.Props.C06"]
COMPONENTS = ["heap"]
ASSUMPTIONS = [
    "histories respect the mediator protocol (a handler is pushed only while it has no current event); times are "
    "normalised finite Time(q, r) or Time(inf, inf), no NaN (the property's quantifier)",
    "C `uint` length/size do not wrap (fewer than 2^31 heap entries) and realloc does not fail: the model uses "
    "unbounded naturals for `length` and `size`",
    "theorems are stated for any key type with a strict weak order `lt` and a minimal sentinel key (instances: "
    "Time over any linear order with the comparison of heap.c); binary64 without NaN is such an order, the float "
    "behaviour itself is tied by the bit-exact correspondence",
]
TRUSTED = ["Lean native Float comparison (< and ==) on binary64", "cffi's OverflowError for integers >= 2^32 passed as "
           "C unsigned int (observed in this run: the overflow histories reach the delete_events branch)",
           "clang AddressSanitizer/UndefinedBehaviorSanitizer for the replay of the C code"]

INF = math.inf
STATS = {}
W = 2 ** 32


class Hd(object):
    """stand-in for an event handler (any picklable, hashable Python object works for both schedulers)"""

    def __init__(self, i):
        self.i = i


def nxt(x, k=1):
    for _ in range(abs(k)):
        x = math.nextafter(x, INF if k > 0 else -INF)
    return x


R_LATTICE = [0.0, 2.0 ** -53, 0.25, 0.5, nxt(0.5, -1), nxt(0.5, 1), 0.75, 1 - 2.0 ** -53, 5e-324]


def tkey(t):
    """quotient-then-remainder comparison key (tuple order on floats == Time.__lt__ when no NaN is involved)"""
    return (t[0], t[1])


def is_fin(t):
    return tkey(t) < (INF, INF)


# ------------------------------------------------------------------------------------------------ generator

class Gen:
    """builds one history against the reference dictionary so that it respects the protocol"""

    def __init__(self, rng, nh, wild=False):
        self.rng, self.nh, self.wild = rng, nh, wild
        self.live = {}                 # handler -> time
        self.T = (0.0, 0.0)            # last returned time according to the reference
        self.ops = []
        self.mv = {}                   # mirror of the deletion counters (to poke them upwards only)

    def time(self, mono=0.995, pinf=0.04, dense=True):
        rng = self.rng
        if rng.random() < pinf:
            return (INF, INF)
        q, r = self.T
        if rng.random() > mono:
            # a time before the last returned one (reaches the monotonicity guard)
            return (q - 1.0, rng.choice(R_LATTICE))
        c = rng.random()
        if c < (0.55 if dense else 0.1):
            cand = [x for x in R_LATTICE if x >= r] or [r]
            return (q, rng.choice(cand))
        if c < 0.6 and q == 0.0 and r == 0.0:
            return (-0.0, 0.0)
        if c < 0.85:
            return (q + float(rng.choice([1, 1, 1, 2, 3])), rng.choice(R_LATTICE))
        if c < 0.95:
            return (q + float(rng.randint(0, 4)) + 1.0, rng.random())
        return (q + float(2 ** rng.randint(2, 40)), rng.random())

    def push(self, h, t=None, **kw):
        t = self.time(**kw) if t is None else t
        self.ops.append(("push", t[0], t[1], h))
        if is_fin(t):
            if self.mv.get(h, 0) >= W:
                STATS["push:counter-overflow-branch"] = STATS.get("push:counter-overflow-branch", 0) + 1
            elif self.mv.get(h, 0) == W - 1:
                STATS["push:counter=2^32-1"] = STATS.get("push:counter=2^32-1", 0) + 1
            self.mv[h] = 0 if self.mv.get(h, 0) >= W else self.mv.get(h, 0)
        if self.wild and h in self.live:
            return
        self.live[h] = t

    def trash(self, h):
        self.ops.append(("trash", h))
        self.live.pop(h, None)
        self.mv[h] = self.mv.get(h, 0) + 1

    def poke(self, h, v):
        """set the deletion counter of an idle handler directly; never downwards (that would resurrect deleted events)"""
        if h not in self.live and v >= self.mv.get(h, 0):
            self.ops.append(("setmv", h, v))
            self.mv[h] = v

    def get(self):
        self.ops.append(("get",))
        fin = [tkey(t) for t in self.live.values() if is_fin(t)]
        if fin and not (min(fin) < self.T):
            self.T = min(fin)
        return [h for h, t in self.live.items() if fin and tkey(t) == min(fin)]

    def idle(self):
        return [h for h in range(1, self.nh + 1) if h not in self.live]

    def maybe_extra(self, ppickle=0.01, pdump=0.01):
        c = self.rng.random()
        if c < ppickle:
            self.ops.append(("pickle",))
            self.ops.append(("dump",))
        elif c < ppickle + pdump:
            self.ops.append(("dump",))


def gen_mediator(rng, big):
    """push every idle handler, ask, trash the returned one(s) and a few others, repeat"""
    g = Gen(rng, rng.choice([1, 2, 3, 5, 8, 13, 40] + ([120, 200] if big else [])))
    pp = rng.choice([0.0, 0.01, 0.05])
    dense = rng.random() < 0.7
    for _ in range(rng.randint(3, 60 if g.nh < 50 else 12)):
        for h in g.idle():
            if rng.random() < 0.9:
                g.push(h, dense=dense)
                g.maybe_extra(pp)
        arg = g.get()
        if rng.random() < 0.2:
            g.get()
        for h in arg:
            if rng.random() < 0.9:
                g.trash(h)
        for h in list(g.live):
            if rng.random() < 0.15:
                g.trash(h)
        g.maybe_extra(pp)
    return g.ops, "mediator"


def gen_churn(rng, big):
    """few handlers, a live blocker at the root, long push/trash cycles: dead entries pile up below the root
    across the reallocation boundaries, then the blockers go and one `get` has to delete long runs lazily"""
    blockers = rng.randint(0, 2)
    g = Gen(rng, blockers + rng.randint(1, 4))
    target = rng.choice([60, 62, 63, 64, 65, 126, 127, 128, 129, 130, 200, 255, 256, 257] + ([511, 512, 513, 1030] if big else []))
    for h in range(1, blockers + 1):
        g.push(h, (g.T[0], rng.choice(R_LATTICE[:3])))
    n = 0
    pp = rng.choice([0.0, 0.004])
    while n < target:
        h = rng.randint(blockers + 1, g.nh)
        if h in g.live:
            g.trash(h)
        else:
            g.push(h, pinf=0.01)
            n += 1
        if rng.random() < 0.02:
            g.get()
        g.maybe_extra(pp, 0.003)
    for _ in range(rng.randint(1, 6)):
        live = list(g.live)
        if live and rng.random() < 0.7:
            g.trash(rng.choice(live))
        g.get()
    g.ops.append(("pickle",)); g.ops.append(("dump",))
    for _ in range(rng.randint(0, 10)):
        idle = g.idle()
        if idle and rng.random() < 0.6:
            g.push(rng.choice(idle))
        elif g.live:
            g.trash(rng.choice(list(g.live)))
        g.get()
    return g.ops, "churn"


def gen_many(rng, big):
    """many handlers alive at once (heap growth with live entries), random trash/get/push afterwards"""
    nh = rng.choice([63, 64, 65, 100, 127, 128, 129, 200] + ([255, 256, 257, 520] if big else []))
    g = Gen(rng, nh)
    order = list(range(1, nh + 1)); rng.shuffle(order)
    dense = rng.random() < 0.5
    for h in order:
        g.push(h, dense=dense)
        g.maybe_extra(0.002, 0.002)
    for _ in range(rng.randint(10, 150)):
        c = rng.random()
        if c < 0.4:
            arg = g.get()
            for h in arg[: rng.randint(0, 3)]:
                g.trash(h)
        elif c < 0.7 and g.live:
            g.trash(rng.choice(list(g.live)))
        else:
            idle = g.idle()
            if idle:
                g.push(rng.choice(idle), dense=dense)
        g.maybe_extra(0.005, 0.005)
    return g.ops, "many"


def gen_overflow(rng, big):
    """deletion counters poked to 2^32-3 … 2^32+2 (only while the handler has no current event, so the poke does not
    change which events are current), then push/trash cycles across the wrap-around"""
    g = Gen(rng, rng.randint(1, 6))
    for h in range(1, g.nh + 1):
        if rng.random() < 0.5:
            g.push(h)
    for _ in range(rng.randint(5, 80)):
        c = rng.random()
        idle = g.idle()
        if c < 0.2 and idle:
            h = rng.choice(idle)
            g.poke(h, W + rng.choice([-3, -2, -2, -1, -1, 0, 0, 1, 2, 2 ** 31]))
        elif c < 0.5 and idle:
            g.push(rng.choice(idle))
        elif c < 0.8 and g.live:
            g.trash(rng.choice(list(g.live)))
        else:
            g.get()
        g.maybe_extra(0.02, 0.05)
    g.get()
    return g.ops, "overflow"


def gen_boundary(rng, big):
    """exactly k entries (dead and current) with k around size - 2 (the spare slot is the last one of the block), then
    the counter-overflow branch (delete_events writes the spare slot) for a handler with / without entries, then gets"""
    nh = rng.randint(2, 5)
    g = Gen(rng, nh + 1)
    k = rng.choice([61, 62, 62, 63, 125, 126, 126, 127] + ([253, 254, 255, 510] if big else []))
    n = 0
    while n < k:
        h = rng.randint(1, nh)
        if h in g.live:
            g.trash(h)
        else:
            g.push(h, pinf=0.0)
            n += 1
    fresh = nh + 1 if rng.random() < 0.6 else rng.randint(1, nh)
    if fresh in g.live:
        g.trash(fresh)
    g.poke(fresh, W + rng.choice([0, 1, 5]))
    g.push(fresh, pinf=0.0)
    g.ops.append(("dump",))
    for _ in range(rng.randint(1, 5)):
        g.get()
        live = list(g.live)
        if live:
            g.trash(rng.choice(live))
    if rng.random() < 0.5:
        g.ops.append(("pickle",)); g.ops.append(("dump",))
        g.get()
    return g.ops, "boundary"


def gen_random(rng, big):
    g = Gen(rng, rng.randint(1, 12))
    for _ in range(rng.randint(1, 120)):
        c = rng.random()
        idle = g.idle()
        if c < 0.4 and idle:
            g.push(rng.choice(idle), mono=0.97)
        elif c < 0.65 and g.live:
            g.trash(rng.choice(list(g.live)))
        elif c < 0.9:
            g.get()
        elif c < 0.93:
            # invalid-history stream that leaves the set of current events alone: trash of a handler without event
            if idle:
                g.trash(rng.choice(idle))
        g.maybe_extra(0.03, 0.03)
    return g.ops, "random"


def gen_wild(rng, big):
    """protocol-violating stream (double pushes, trash of absent handlers, decreasing times): correspondence only"""
    g = Gen(rng, rng.randint(1, 8), wild=True)
    for _ in range(rng.randint(1, 100)):
        c = rng.random()
        h = rng.randint(1, g.nh)
        if c < 0.45:
            g.push(h, mono=0.9)
        elif c < 0.7:
            g.trash(h)
        else:
            g.get()
        g.maybe_extra(0.03, 0.03)
    return g.ops, "wild"


CORPUS = [
    ([("get",)], "corpus"),
    ([("push", 1.0, 0.5, 1), ("get",), ("trash", 1), ("get",), ("pickle",), ("get",), ("dump",)], "corpus"),
    ([("push", INF, INF, 1), ("get",), ("push", 2.0, 0.0, 2), ("get",), ("trash", 2), ("get",), ("trash", 1), ("get",)], "corpus"),
    ([("push", 0.0, 0.5, 1), ("push", 0.0, 0.5, 2), ("push", 0.0, 0.25, 3), ("trash", 3), ("get",), ("pickle",), ("get",), ("dump",)], "corpus"),
    ([("setmv", 1, W - 1), ("push", 0.0, 0.5, 1), ("dump",), ("trash", 1), ("push", 0.0, 0.75, 1), ("dump",), ("get",),
      ("setmv", 2, W + 5), ("push", 0.0, 0.6, 2), ("get",), ("dump",)], "corpus"),
]


# ------------------------------------------------------------------------------------------------ running the real code

class Real:
    def __init__(self):
        from jellyfysh.scheduler.heap_scheduler import HeapScheduler
        from jellyfysh.scheduler.heap_scheduler import heap_scheduler as hsm
        from jellyfysh.scheduler.list_scheduler import ListScheduler
        from jellyfysh.base.time import Time
        from jellyfysh.base.exceptions import SchedulerError
        self.HS, self.LS, self.Time, self.SErr, self.lib, self.ffi = HeapScheduler, ListScheduler, Time, SchedulerError, hsm.lib, hsm.ffi
        self.esz = hsm.ffi.sizeof("struct HeapEntry")

    def dump(self, hs, limit=1 << 30):
        out, i = [], 0
        while i < limit:
            e = self.lib.entry(hs._heap, i)
            if e.event_handler == self.ffi.NULL:
                break
            out.append(f"{f2b(e.time_quotient)} {f2b(e.time_remainder)} {self.ffi.from_handle(e.event_handler).i} {e.counter}")
            i += 1
        return out

    def nonnull(self, hs, i):
        return i >= 0 and self.lib.entry(hs._heap, i).event_handler != self.ffi.NULL

    def count(self, hs, guess):
        """number of entries in the real heap (`entry(i)` is non-NULL iff i < n), probing near `guess` first"""
        if (guess == 0 or self.nonnull(hs, guess - 1)) and not self.nonnull(hs, guess):
            return guess
        lo, hi = 0, max(1, hs._allocated_memory_bytes // self.esz)
        while lo < hi:
            mid = (lo + hi) // 2
            if self.nonnull(hs, mid):
                lo = mid + 1
            else:
                hi = mid
        return lo


def classify_error(e, SErr):
    if isinstance(e, SErr):
        m = str(e)
        if "does not contain any events" in m:
            return "err:empty"
        if "is greater than" in m:
            return "err:guard"
        return "err:SchedulerError"
    return "exc:" + type(e).__name__


def run_real(real, ops, oracle=None):
    """returns (reply lines comparable with the model's, asan lines, expected asan replies)"""
    # every fourth session runs as `-vv` would make it: the schedulers cache isEnabledFor(DEBUG) at construction and log the returned
    # event then (records go to a null sink); pickled-and-restored schedulers re-read the level in __setstate__
    import logging as _lg
    _dbg = (sum(len(str(o)) for o in ops[:8]) + len(ops)) % 4 == 0
    _jl = _lg.getLogger("jellyfysh")
    _saved = (_lg.root.manager.disable, _jl.level, _jl.propagate, list(_jl.handlers))
    if _dbg:
        _lg.disable(_lg.NOTSET)
        _jl.setLevel(_lg.DEBUG)
        _jl.propagate = False
        _jl.handlers = [_lg.NullHandler()]
    try:
        return _run_real(real, ops, oracle)
    finally:
        if _dbg:
            _lg.disable(_saved[0])
            _jl.setLevel(_saved[1])
            _jl.propagate = _saved[2]
            _jl.handlers = _saved[3]


def _run_real(real, ops, oracle=None):
    hs, ls = real.HS(), real.LS()
    H = {}
    out, alines, aexp = [], ["R"], ["ok"]
    nent = 0

    def hd(i):
        if i not in H:
            H[i] = Hd(i)
        return H[i]

    for k, op in enumerate(ops):
        kind = op[0]
        if kind == "push":
            _, q, r, h = op
            try:
                hs.push_event(real.Time(q, r), hd(h))
                ls.push_event(real.Time(q, r), hd(h))
                size = hs._allocated_memory_bytes // real.esz
                nent = real.count(hs, nent + 1 if is_fin((q, r)) else nent)
                out.append(("raw", f"{nent + 1 if size else 0} {size} 0"))
            except Exception as e:  # noqa
                out.append(("raw", "exc:" + type(e).__name__))
                if oracle:
                    oracle.exception("push", k, e)
            if is_fin((q, r)):
                alines.append(f"P {f2b(q)} {f2b(r)} {h}"); aexp.append("ok")
            if oracle:
                oracle.push(h, (q, r))
        elif kind == "trash":
            h = op[1]
            try:
                hs.trash_event(hd(h))
                rh = "ok"
            except Exception as e:  # noqa
                rh = classify_error(e, real.SErr)
            try:
                ls.trash_event(hd(h))
                rl = "ok"
            except Exception as e:  # noqa
                rl = classify_error(e, real.SErr)
            out.append(("raw", rl if rh == "ok" else "heap-" + rh))
            alines.append(f"T {h}"); aexp.append("ok")
            if oracle:
                oracle.trash(h, rh, rl, k)
        elif kind == "get":
            res = []
            for s in (hs, ls):
                try:
                    x = s.get_succeeding_event()
                    t = s._last_returned_event[0]
                    res.append(("ok", x.i, t.quotient, t.remainder))
                except Exception as e:  # noqa
                    res.append((classify_error(e, real.SErr),))
            before = nent
            nent = real.count(hs, nent)
            size = hs._allocated_memory_bytes // real.esz
            out.append(("get", " | ".join(f"ok {r[1]} {f2b(r[2])} {f2b(r[3])}" if r[0] == "ok" else r[0] for r in res)
                        + f" | {nent + 1 if size else 0} 0", before - nent))
            alines.append("G")
            aexp.append(None if res[0][0] == "err:guard" else
                        (f"ok {res[0][1]} {f2b(res[0][2])} {f2b(res[0][3])}" if res[0][0] == "ok" else res[0][0]))
            if oracle:
                oracle.get(res[0], res[1], k)
        elif kind == "setmv":
            _, h, v = op
            hs._minimal_valid_counter[hd(h)] = v
            out.append(("raw", "ok"))
            alines.append(f"S {h} {v}"); aexp.append("ok")
        elif kind == "pickle":
            try:
                hs, ls, Hl = pickle.loads(pickle.dumps((hs, ls, sorted(H.values(), key=lambda x: x.i))))
                H = {x.i: x for x in Hl}
                out.append(("raw", "ok"))
            except Exception as e:  # noqa
                out.append(("raw", "exc:" + type(e).__name__))
                if oracle:
                    oracle.exception("pickle", k, e)
            alines.append("K"); aexp.append("ok")
        elif kind == "dump":
            d = real.dump(hs)
            out.append(("dump", d))
            alines.append("D"); aexp.append(" ".join([str(len(d))] + d))
    return out, alines, aexp


class Oracle:
    """the property, stated directly on a dictionary of current events"""

    def __init__(self, ctx, ops, kind):
        self.ctx, self.ops, self.kind = ctx, ops, kind
        self.live = {}
        self.last = {"heap": (-INF, -INF), "list": (-INF, -INF)}
        self.fails = []

    def fail(self, sig, k, what):
        self.fails.append((sig, k, what))

    def exception(self, where, k, e):
        self.fail(f"{where}:exception:{type(e).__name__}", k, f"{where} raised {e!r}")

    def push(self, h, t):
        self.live[h] = t

    def trash(self, h, rh, rl, k):
        had = h in self.live
        self.live.pop(h, None)
        if rh != "ok":
            self.fail("heap:trash:raises", k, f"HeapScheduler.trash_event raised {rh}")
        if had and rl != "ok":
            self.fail("list:trash:error-on-current-event", k, f"ListScheduler.trash_event raised {rl} for a handler with a current event")

    def one(self, name, res, k):
        live = self.live
        fin = {h: t for h, t in live.items() if is_fin(t)}
        mn = min(tkey(t) for t in fin.values()) if fin else None
        if res[0] == "ok":
            _, h, q, r = res
            if h not in live:
                self.fail(f"{name}:get:returned-handler-without-current-event", k, f"returned handler {h}, current events {sorted(live)}")
                return None
            if fin and not is_fin(live[h]):
                self.fail(f"{name}:get:infinite-before-finite", k, f"returned handler {h} with an infinite time while finite events exist")
            elif fin and tkey(live[h]) != mn:
                self.fail(f"{name}:get:not-minimal", k, f"returned handler {h} at {live[h]}, minimal current time is {mn}")
            if tkey((q, r)) != tkey(live[h]):
                self.fail(f"{name}:get:reported-time-differs-from-pushed", k, f"scheduler recorded {(q, r)}, event was pushed with {live[h]}")
            self.last[name] = (q, r)
            return (q, r)
        if res[0] == "err:empty":
            if name == "heap" and fin:
                self.fail("heap:get:empty-error-with-finite-current-event", k, f"current finite events {fin}")
            if name == "list" and live:
                self.fail("list:get:empty-error-with-current-event", k, f"current events {live}")
            return None
        if res[0] == "err:guard":
            if not (fin and mn < tkey(self.last[name])):
                self.fail(f"{name}:get:spurious-monotonicity-error", k, f"minimal current time {mn}, last returned {self.last[name]}")
            return "guard"
        self.fail(f"{name}:get:{res[0]}", k, "unexpected exception")
        return None

    def get(self, rh, rl, k):
        th = self.one("heap", rh, k)
        tl = self.one("list", rl, k)
        if not self.live and (rh[0] == "ok" or rl[0] == "ok"):
            self.fail("get:no-error-on-empty-scheduler", k, "a handler was returned although no event is current")
        if any(is_fin(t) for t in self.live.values()) and isinstance(th, tuple) and isinstance(tl, tuple) and tkey(th) != tkey(tl):
            self.fail("agree:heap-and-list-return-different-times", k, f"heap {th}, list {tl}")


def protocol_ok(ops):
    live, mv = set(), {}
    for op in ops:
        if op[0] == "push":
            if op[3] in live:
                return False
            live.add(op[3])
            if is_fin((op[1], op[2])):
                mv[op[3]] = 0 if mv.get(op[3], 0) >= W else mv.get(op[3], 0)
        elif op[0] == "trash":
            live.discard(op[1])
            mv[op[1]] = mv.get(op[1], 0) + 1
        elif op[0] == "setmv":
            if op[1] in live or op[2] < mv.get(op[1], 0):
                return False
            mv[op[1]] = op[2]
    return True


def jsonable(ops):
    return [[o[0]] + [x.hex() if isinstance(x, float) else x for x in o[1:]] for o in ops]


def from_json(ops):
    return [tuple([o[0]] + [float.fromhex(x) if isinstance(x, str) else x for x in o[1:]]) for o in ops]


def oracle_sigs(ctx, real, ops, kind):
    o = Oracle(ctx, ops, kind)
    try:
        run_real(real, ops, o)
    except Exception as e:  # noqa
        o.fail("harness:exception:" + type(e).__name__, -1, repr(e))
    return o


def shrink(ctx, real, ops, kind, sig, budget=250):
    """delta debugging on the operation list, keeping the protocol and the failure signature"""
    cur = list(ops)
    n = 2
    while len(cur) >= 2 and budget > 0:
        chunk = max(1, len(cur) // n)
        progressed = False
        for s in range(0, len(cur), chunk):
            cand = cur[:s] + cur[s + chunk:]
            if not cand or not protocol_ok(cand):
                continue
            budget -= 1
            if any(f[0] == sig for f in oracle_sigs(ctx, real, cand, kind).fails):
                cur, progressed = cand, True
                n = max(n - 1, 2)
                break
            if budget <= 0:
                break
        if not progressed:
            if chunk == 1:
                break
            n = min(len(cur), n * 2)
    return cur


def to_lines(ops):
    lines = ["reset"]
    for op in ops:
        if op[0] == "push":
            lines.append(f"push {f2b(op[1])} {f2b(op[2])} {op[3]}")
        elif op[0] == "trash":
            lines.append(f"trash {op[1]}")
        elif op[0] == "setmv":
            lines.append(f"setmv {op[1]} {op[2]}")
        else:
            lines.append(op[0])
    return lines


def asan_lines(ops):
    """input of the sanitizer replay driver for one history (a function of the operations only)"""
    out = ["R"]
    for op in ops:
        if op[0] == "push":
            if is_fin((op[1], op[2])):
                out.append(f"P {f2b(op[1])} {f2b(op[2])} {op[3]}")
        elif op[0] == "trash":
            out.append(f"T {op[1]}")
        elif op[0] == "get":
            out.append("G")
        elif op[0] == "setmv":
            out.append(f"S {op[1]} {op[2]}")
        elif op[0] == "pickle":
            out.append("K")
        elif op[0] == "dump":
            out.append("D")
    return out


def build_asan(ctx):
    src = os.path.join(ctx.root, "jellyfysh", "scheduler", "heap_scheduler")
    drv = os.path.join(os.path.dirname(os.path.dirname(os.path.abspath(__file__))), "c06_asan", "driver.c")
    exe = os.path.join(tempfile.mkdtemp(prefix="c06asan_", dir=os.path.dirname(ctx.root)), "replay")
    p = subprocess.run(["clang", "-O1", "-g", "-fsanitize=address,undefined", "-fno-sanitize-recover=all",
                        "-fno-omit-frame-pointer", "-I", src, os.path.join(src, "heap.c"), drv, "-o", exe],
                       capture_output=True, text=True)
    if p.returncode != 0:
        return None, p.stderr[-2000:]
    return exe, None


def run(ctx):
    rng = ctx.rng
    real = Real()
    NH = ctx.n(1500, 16000)
    big = not ctx.quick
    ctx.rule = ("seeded histories of push/trash/get/pickle/counter-poke/dump operations generated against a reference dictionary so "
                "that they respect the mediator protocol (plus a protocol-violating stream for the correspondence only); kinds: "
                "mediator cycles, churn with dead entries piling up below a live root across 64/128/256/512, many live handlers, "
                "counters around 2^32, random; times from a small lattice (ties, equal quotients, equal remainders, -0.0, inf). "
                "An evaluation is one operation of one history; a class is (kind, operation, outcome of heap and list scheduler, "
                "tie?, lazy deletions bucket, heap size, counter regime)")
    ctx.notes.append("observation (outside the property's quantifier, not an oracle failure): when only infinite-time events are current the "
                     "ListScheduler returns one of them and records inf as last returned time, after which its monotonicity assertion rejects "
                     "every finite event; the HeapScheduler never stores infinite times and raises the 'empty' SchedulerError instead. "
                     "The oracle accepts either outcome and accepts a monotonicity SchedulerError whenever the minimal current time is "
                     "smaller than the time that scheduler returned last.")
    gens = [gen_mediator] * 4 + [gen_churn] * 2 + [gen_many] + [gen_overflow] * 2 + [gen_boundary] + [gen_random] * 3 + [gen_wild]
    hist = list(CORPUS)
    STATS.clear()
    for _ in range(NH):
        hist.append(rng.choice(gens)(rng, big))

    for k_, v_ in STATS.items():
        ctx.count(k_, v_)
    # ---- sanitizer replay of heap.c FIRST (a memory error in the cffi build could take the harness process down):
    #      every history, C driver linked against the scratch copy's heap.c under ASan+UBSan
    asan_in, asan_idx = [], []
    for hi, (ops, kind) in enumerate(hist):
        al = asan_lines(ops)
        asan_idx.append((hi, len(asan_in), len(al)))
        asan_in += al
    asan_got = None
    exe, err = build_asan(ctx)
    if exe is None:
        ctx.notes.append("sanitizer replay driver could not be built: " + (err or ""))
        ctx.disagree("asan.build", {}, "build failed", err or "")
    else:
        env = dict(os.environ, ASAN_OPTIONS="detect_leaks=1:abort_on_error=0:exitcode=97", UBSAN_OPTIONS="print_stacktrace=1")
        p = subprocess.run([exe], input="".join(l + "\n" for l in asan_in), capture_output=True, text=True, env=env)
        asan_got = p.stdout.split("\n")
        if asan_got and asan_got[-1] == "":
            asan_got.pop()
        ctx.count("asan:ops", len(asan_in))
        ctx.count("asan:histories", len(asan_idx))
        try:
            os.unlink(exe); os.rmdir(os.path.dirname(exe))
        except OSError:
            pass
        if p.returncode != 0 or "Sanitizer" in p.stderr or "runtime error" in p.stderr:
            j = min(len(asan_got), len(asan_in) - 1)          # index of the request that did not get its reply
            hi = next((h for h, off, n in asan_idx if off <= j < off + n), None)
            ops_bad = hist[hi][0] if hi is not None else []
            upto = j - asan_idx[hi][1] if hi is not None else 0
            # cut the history after the operation that triggered the report
            cnt, cut = 0, len(ops_bad)
            for k, op in enumerate(ops_bad):
                if not (op[0] == "push" and not is_fin((op[1], op[2]))):
                    cnt += 1
                if cnt >= upto:
                    cut = k + 1
                    break
            kindline = next((l for l in p.stderr.splitlines() if "ERROR: AddressSanitizer" in l or "ERROR: LeakSanitizer" in l
                             or "runtime error" in l), "sanitizer report (exit code %d)" % p.returncode)
            kindtok = (kindline.split("AddressSanitizer:")[-1].split()[0] if "AddressSanitizer:" in kindline else
                       "leak" if "LeakSanitizer" in kindline else "undefined-behaviour")
            ctx.fail("heap.c:invalid-memory-access:" + kindtok,
                     {"kind": hist[hi][1] if hi is not None else None, "history_index": hi, "ops": jsonable(ops_bad[:cut]),
                      "replay_with": "harness/c06_asan/driver.c under -fsanitize=address,undefined"},
                     kindline + " || " + p.stderr[-1200:])
            ctx.notes.append("sanitizer report: the in-process run of the real scheduler was skipped (it could crash the harness)")
            ctx.evaluations = len(asan_got)
            return
    nev, ntr = 0, 0
    BATCH = 1000
    for b0 in range(0, len(hist), BATCH):
        # ---- implementation + oracle
        all_lines, per = [], []
        for hi, (ops, kind) in enumerate(hist[b0:b0 + BATCH], b0):
            ctx.count("history:" + kind)
            proto = kind != "wild"
            orc = Oracle(ctx, ops, kind) if proto else None
            try:
                out, al, ae = run_real(real, ops, orc)
            except Exception as e:  # noqa
                ctx.fail(f"harness:exception:{type(e).__name__}", {"kind": kind, "ops": jsonable(ops)}, f"replay of the history raised {e!r}")
                continue
            if orc and orc.fails:
                for sig in sorted({f[0] for f in orc.fails}):
                    small = shrink(ctx, real, ops, kind, sig)
                    o2 = oracle_sigs(ctx, real, small, kind)
                    what = next((f[2] for f in o2.fails if f[0] == sig), "")
                    ctx.fail(sig, {"kind": kind, "ops": jsonable(small), "history_index": hi}, what)
            lines = to_lines(ops)
            per.append((hi, ops, kind, out, len(all_lines), len(lines)))
            all_lines += lines
            if asan_got is not None:
                off = asan_idx[hi][1]
                for j, e in enumerate(ae):
                    g = asan_got[off + j] if off + j < len(asan_got) else "<missing>"
                    if e is not None and g != e:
                        ctx.disagree("asan.replay (C driver on heap.c vs real HeapScheduler)",
                                     {"history_index": hi, "kind": kind, "line": asan_in[off + j], "ops": jsonable(ops)[:200]}, e[:500], g[:500])
                        break

        # ---- model
        rep = ctx.model("heap", all_lines)
        for hi, ops, kind, out, off, ln in per:
            mrep = rep[off + 1: off + ln]
            bad = None
            dead_run = 0
            for k, (op, o, m) in enumerate(zip(ops, out, mrep)):
                nev += 1
                ctx.count("op:" + op[0])
                if op[0] == "push" and o[0] == "raw" and not o[1].startswith("exc"):
                    impl, model = o[1], m
                    mlen, msize, mfault = (int(x) for x in m.split())
                    ctx.cls((kind, "push", msize, is_fin((op[1], op[2])), min(mlen, 1200) // 32))
                elif o[0] == "dump":
                    t = m.split()
                    mlen, msize, mfault, n = int(t[0]), int(t[1]), int(t[2]), int(t[3])
                    ment = [" ".join(t[4 + 4 * i: 8 + 4 * i]) for i in range(n)]
                    impl = " ".join(o[1])
                    model = " ".join(ment) + (" FAULT" if mfault else "")
                    ctx.cls((kind, "dump", min(n, 600) // 40, msize))
                    ctx.count("dump:entries", n)
                    cnts = [int(x.split()[3]) for x in ment]
                    if cnts and max(cnts) >= W - 2:
                        ctx.cls((kind, "dump:counter-near-2^32", max(cnts) - W))
                else:
                    impl = o[1]
                    model = m
                    if op[0] == "get":
                        model = " | ".join("err:guard" if x.strip().startswith("err:guard") else x.strip() for x in m.split("|"))
                        a, b = [x.strip().split()[0] for x in model.split("|")[:2]]
                        tie = a == "ok" and b == "ok" and model.split("|")[0].split()[1] != model.split("|")[1].split()[1]
                        lazy = o[2]
                        ctx.cls((kind, "get", a, b, tie, min(lazy, 3) if lazy < 8 else 8 * min(lazy // 8, 40)))
                        ctx.count("get:lazy-deletions", lazy)
                        if lazy >= 64:
                            ctx.count("get:with>=64-lazy-deletions")
                        ctx.count("get:" + a + "/" + b + ("/tie-different-handler" if tie else ""))
                    elif op[0] == "trash":
                        ctx.cls((kind, "trash", m))
                    elif op[0] == "setmv":
                        ctx.cls((kind, "setmv", op[2] - W))
                    else:
                        ctx.cls((kind, op[0]))
                if impl != model and bad is None:
                    bad = (k, impl, model)
            if bad:
                k, impl, model = bad
                ctx.disagree("heap." + ops[k][0], {"kind": kind, "history_index": hi, "op_index": k, "ops": jsonable(ops[:k + 1])},
                             impl[:2000], model[:2000])
            if hi < 3:
                ctx.sample({"kind": kind, "ops": jsonable(ops)[:12], "impl": [str(o[1])[:120] for o in out][:12], "model": mrep[:12]})
        ntr += len(per)
    ctx.evaluations = nev
    ctx.traces = ntr
    # run level: the schedulers as the mediator really drives them (real simulations of shipped and dense generated
    # configurations, both schedulers), replayed operation by operation in the models
    from harness import runs as _runs, runcommon as _rc, genconfigs as _gc
    jobs = []
    for ini in _runs.SHIPPED:
        jobs.append({"ini": ini, "seed": ctx.seed * 1000 + 11, "max_legs": ctx.n(1500, 12000),
                     "overrides": {"FinalTimeEndOfRunEventHandler": {"end_of_run_time": ctx.n(15, 120)},
                                   "SingleProcessMediator": {"scheduler": rng.choice(["heap_scheduler", "list_scheduler"])}}})
    for k in range(ctx.n(4, 12)):
        j = _gc.dense_cells(rng, _runs.CFG) if k % 2 else _gc.soft_spheres_cells(rng)
        jobs.append({**j, "seed": ctx.seed * 1000 + 20 + k, "max_legs": ctx.n(1500, 12000)})
    for tr in _runs.run_jobs(ctx.root, jobs):
        if not tr["legs"]:
            ctx.count("run-replay:trace-failed:" + str(tr["end"])[:40])
            continue
        n = _rc.replay_scheduler(ctx, tr)
        ctx.evaluations += n
        ctx.traces += 1
        ctx.cls(("run-replay", tr["meta"]["scheduler"], tr["meta"]["ini"].split("/")[-1]))



def replay(ctx, case):
    c = case.get("case", case)
    ops = from_json(c["ops"])
    res = {}
    exe, err = build_asan(ctx)
    if exe:
        env = dict(os.environ, ASAN_OPTIONS="detect_leaks=1:abort_on_error=0:exitcode=97", UBSAN_OPTIONS="print_stacktrace=1")
        p = subprocess.run([exe], input="".join(l + "\n" for l in asan_lines(ops)), capture_output=True, text=True, env=env)
        res["sanitizer"] = {"exit": p.returncode, "report": p.stderr[:3000]}
        if p.returncode != 0:
            return res                      # do not run a memory-unsafe heap.c inside the harness process
    real = Real()
    o = oracle_sigs(ctx, real, ops, c.get("kind", "replay"))
    out, _, _ = run_real(real, ops)
    rep = ctx.model("heap", to_lines(ops))[1:]
    res.update({"oracle_failures": o.fails, "impl": [str(x[1])[:200] for x in out], "model": [r[:200] for r in rep]})
    return res
