"""C12 — Composite objects stay consistent with their point masses.

Run level.  Real runs of every shipped configuration with composite objects (dipoles, water, hard-disk dipoles) and of
generated dipole variants are traced from outside (harness/runtrace.py).

ORACLE       `runs.oracle_c12` on the initial state and on the global state after every commit of every trace (root
             velocity = weighted sum of the members' velocities, absent exactly when no member moves; root position advanced
             to the event time = barycentre of the members' nearest images advanced with their own time stamps), plus an
             initial-state oracle on the random node creators called directly (many seeds, dimensions, box lengths).
CORRESPONDENCE  every recorded commit is classified (start of run, keep = sampling / end of run / rejected event, cell
             boundary, leaf-to-leaf velocity exchange within or between composite objects, composite-to-composite pass, end
             of chain in leaf and root mode, the two switcher directions) and handed to the Lean model `JF.Composite.step`
             (binary64 reading, executable `jf_comp2`) together with the in-state values the handler really used; the
             model's out-state (positions, velocities, time stamps of roots and leaves) is compared bit for bit with the
             recorded out-state.  The creators' leaf positions are recomputed bit for bit by `dipoleLeaves`/`waterLeaves`."""
import math
from harness import runs, runcommon, actcorr, modecorr, translate
from harness.drive import f2b

ID = "C12"
THEOREM_MODULES = ["JF.Props.C12", "JF.Props.C12Chain", "JF.Props.ModeDiscipline", "JF.Props.SystemInv2"]
NEEDS_GEN = True
COMPONENTS = ["comp2"]
ASSUMPTIONS = [
    "theorems (JF.C12.run_rootConsistent, step_good, dipole/water_initial_good): exact (rational) reading of "
    "JF.Composite.step with the test `abs(c) < 1.0e-13` replaced by `c = 0`; any number n >= 1 of members, any dimension; "
    "barycentre stated modulo the box with explicit integer image shifts of the members (no nearest-image function); "
    "float drift between a root and its members is outside the exact reading and is bounded by the run-level oracle only",
    "admissibility hypotheses of the theorems (JF.C12.Adm) = the assertions of the code after time-slicing (the unit handing "
    "over its velocity moves, the receiver is at rest, all / exactly one leaf of the switcher's object move) + (C07, one "
    "chain) the object that receives the velocity from another object is at rest as a whole + a cell boundary is the "
    "coordinate reached at the event time + a non-zero new velocity; evaluated on every recorded event "
    "(histogram keys admissible:* / inadmissible:*, an inadmissible recorded event is reported as a disagreement)",
    "a leaf that is absent from a branch handed to an event handler is at rest (checked on every recorded event); the model "
    "works on full composite objects; several copies of one root in one out-state are identical except in the end-of-chain "
    "case modelled explicitly (eocLeaf, same object, other leaf)",
    "start of run with a root identifier (all leaves start at once) is modelled and proved but not exercised by any shipped "
    "configuration; trees with more than two levels are outside the property and the model",
]
TRUSTED = ["harness/runtrace.py (observation by wrapping bound methods of the mediator's collaborators)",
           "stand-in MDAnalysis.Universe (plain-Python PDB reader) for the two hard-disk-dipole configurations"]

THR = f2b(1.0e-13)


def _ubits(u):
    pos, vel, ts = u[0], u[1], u[2]
    s = " ".join(f2b(x) for x in pos)
    s += (" 1 " + " ".join(f2b(x) for x in vel)) if vel is not None else " 0"
    s += f" 1 {f2b(ts[0])} {f2b(ts[1])}" if ts is not None else " 0"
    return s


def _camel(label):
    return "".join(w.capitalize() for w in label.split("_"))


def build_requests(ctx, tr):
    """-> list of (leg index, request line, [(identifier, expected unit string)], kind, handler class)"""
    meta = tr["meta"]
    d, L, nper = meta["dimension"], meta["system_lengths"], meta["n_per_root"]
    ets = runs.event_times(tr)
    stored = runcommon.stored_in_states(tr)
    tag_info = {tg["tag"]: tg for tg in meta["taggers"]}
    head = "ev %d %s %s" % (d, " ".join(f2b(x) for x in L), THR)
    reqs = []
    pre = tr["initial"]
    for i, leg in enumerate(tr["legs"]):
        t = ets[i]
        if t is None:
            break
        post, out = leg["post"], leg["out"]
        tag, cls = meta["handlers"][leg["chosen"]]
        bases = tag_info[tag]["handler_bases"]
        roots = []
        for k in out:
            if k[0] not in roots:
                roots.append(k[0])
        st = stored[i]
        ins = lambda ident: st.get(ident, pre[ident])
        # model assumption: leaves that are not in the handler's branches are at rest
        absent_moving = [(r, c) for r in roots for c in range(nper) if (r, c) not in out and pre[(r, c)][1] is not None]
        if absent_moving:
            ctx.count("unmodelled:moving-leaf-absent-from-branch")
            ctx.disagree("comp2.assumption-absent-leaves-at-rest",
                         {"ini": meta["ini"], "seed": meta["seed"], "leg": i, "handler": cls, "units": [str(u) for u in absent_moving]},
                         "absent leaves at rest", "a leaf outside the branches of the event moves")
            pre = post
            continue
        comps = " ".join("%d %s %s" % (nper, _ubits(ins((r,))), " ".join(_ubits(ins((r, c))) for c in range(nper))) for r in roots)
        ci = {r: k for k, r in enumerate(roots)}
        # composite objects whose branch is time-sliced by the handler: its stored in-state, or everything it received
        if st:
            S = sorted({ci[k[0]] for k in st if k[0] in ci})
        else:
            S = list(range(len(roots)))
        Ss = "%d %s" % (len(S), " ".join(map(str, S))) if S else "0"
        tq = f"{f2b(t[0])} {f2b(t[1])}"
        mov_pre = [(ci[r], c) for r in roots for c in range(nper) if ins((r, c))[1] is not None]
        mov_post = [(ci[r], c) for r in roots for c in range(nper) if (post[(r, c)][1] is not None)]
        vel_of = lambda cc: post[(roots[cc[0]], cc[1])][1]
        ev = kind = None
        if "StartOfRunEventHandler" in bases:
            P = sorted(c for (r, c) in [k for k in out if len(k) == 2])
            if len(roots) == 1 and P and mov_post:
                ev = "start 0 %d %s %s" % (len(P), " ".join(map(str, P)), " ".join(f2b(x) for x in vel_of(mov_post[0])))
                kind = "start:" + ("all-leaves" if len(P) == nper else "one-leaf")
        elif "EndOfChainEventHandler" in bases:
            if mov_pre and mov_post:
                vn = " ".join(f2b(x) for x in vel_of(mov_post[0]))
                if len(mov_pre) == nper and nper > 1:
                    a, b = mov_pre[0][0], mov_post[0][0]
                    ev = f"eocRoot {tq} {a} {b} {vn}"
                    kind = "eoc-root:" + ("same" if a == b else "other")
                elif len(mov_pre) == 1 and len(mov_post) == 1:
                    (a, j), (b, j2) = mov_pre[0], mov_post[0]
                    ev = f"eocLeaf {tq} {a} {j} {b} {j2} {vn}"
                    kind = "eoc-leaf:" + ("same-leaf" if (a, j) == (b, j2) else "same-object" if a == b else "other-object")
        elif "RootLeafUnitActiveSwitcher" in bases:
            if len(roots) == 1:
                if len(mov_post) == 1:
                    ev, kind = f"toLeaf {tq} 0 {mov_post[0][1]}", "switch:to-leaf"
                elif len(mov_post) == nper:
                    ev, kind = f"toRoot {tq} 0", "switch:to-root"
        elif "CellBoundaryEventHandler" in bases:
            level = int(meta["config"][_camel(tag_info[tag]["internal_state_label"])]["cell_level"])
            r = roots[0]
            if len(roots) == 1 and (level == 1 or len(mov_pre) == 1):
                ident = (r,) if level == 1 else (r, mov_pre[0][1])
                v = ins(ident)[1]
                dd = max(range(d), key=lambda k: abs(v[k]))
                ev = f"snap {tq} {Ss} 0 {-1 if level == 1 else ident[1]} {dd} {f2b(out[ident][0][dd])}"
                kind = "snap:" + ("root" if level == 1 else "leaf")
        elif mov_pre == mov_post:
            ev, kind = f"keep {tq} {Ss}", "keep"
        elif any(b == "CompositeObjectsLifting" for b in bases):
            if len(roots) == 2 and mov_pre and mov_post:
                ev, kind = f"pass {tq} {Ss} {mov_pre[0][0]} {mov_post[0][0]}", "pass"
        elif "SingleActiveLeafUnitEventHandler" in bases and len(mov_pre) == 1 and len(mov_post) == 1:
            (a, j), (b, j2) = mov_pre[0], mov_post[0]
            ev = f"exchange {tq} {Ss} {a} {j} {b} {j2}"
            kind = "exchange:" + ("within-object" if a == b else "between-objects")
        if ev is None:
            ctx.count("unmodelled:" + cls)
            pre = post
            continue
        # admissibility hypotheses of the theorems (JF.C12.Adm), evaluated on the in-state the handler used
        leaf_v = lambda cc: ins((roots[cc[0]], cc[1]))[1]
        obj_rest = lambda k: all(leaf_v((k, c)) is None for c in range(nper))
        obj_all = lambda k: all(leaf_v((k, c)) is not None and leaf_v((k, c)) == leaf_v((k, 0)) for c in range(nper))
        nz = lambda v: v is not None and any(x != 0.0 for x in v)
        bad = None
        base = kind.split(":")[0]
        if base == "exchange":
            (a, j), (b, j2) = mov_pre[0], mov_post[0]
            if leaf_v((b, j2)) is not None or (a != b and not obj_rest(b)):
                bad = "receiver not at rest"
        elif base == "pass":
            a, b = mov_pre[0][0], mov_post[0][0]
            if a == b or not obj_all(a) or not obj_rest(b):
                bad = "pass between objects that are not (all moving, all at rest)"
        elif base == "eoc-leaf":
            (a, j), (b, j2) = mov_pre[0], mov_post[0]
            if len([1 for c in range(nper) if leaf_v((a, c)) is not None]) != 1 or (a != b and not obj_rest(b)) or not nz(vel_of(mov_post[0])):
                bad = "leaf mode violated / new object moving / zero new velocity"
        elif base == "eoc-root":
            a, b = mov_pre[0][0], mov_post[0][0]
            if not obj_all(a) or (a != b and not obj_rest(b)) or not nz(vel_of(mov_post[0])):
                bad = "root mode violated / new object moving / zero new velocity"
        elif base == "switch":
            if (kind.endswith("to-leaf") and not obj_all(0)) or (kind.endswith("to-root") and len(mov_pre) != 1):
                bad = "switcher in-state is not (all moving | one moving)"
        elif base == "start":
            if not obj_rest(0) or not nz(vel_of(mov_post[0])):
                bad = "object moves before the start of the run / zero initial velocity"
        elif base == "snap":
            # the boundary is the coordinate reached at the event time (up to rounding, modulo the box)
            ident = (roots[0],) if kind.endswith("root") else (roots[0], mov_pre[0][1])
            p, v, ts_ = ins(ident)[0], ins(ident)[1], ins(ident)[2]
            dd_ = max(range(d), key=lambda k: abs(v[k]))
            reached = (p[dd_] + v[dd_] * float(runs.tval(t) - runs.tval(ts_))) % L[dd_]
            if not runs.modclose(reached, out[ident][0][dd_], L[dd_], 1e-11 * max(L)):
                bad = "cell boundary is not the coordinate reached at the event time"
        if bad:
            ctx.count("inadmissible:" + base)
            ctx.disagree("comp2.admissibility", {"ini": meta["ini"], "seed": meta["seed"], "leg": i, "handler": cls, "kind": kind,
                                                 "job": tr.get("job")}, "event admissible for JF.C12.step_good", bad)
        else:
            ctx.count("admissible:" + base)
        exp = []
        for k, r in enumerate(roots):
            for ident in [(r,)] + [(r, c) for c in range(nper)]:
                exp.append((ident, _ubits(out[ident]) if ident in out else _ubits(pre[ident]), ident in out))
        reqs.append((i, f"{head} {len(roots)} {comps} {ev}", exp, kind, cls))
        pre = post
    return reqs


def replay_trace(ctx, tr):
    meta = tr["meta"]
    reqs = build_requests(ctx, tr)
    if not reqs:
        return 0
    rep = ctx.model("comp2", [r[1] for r in reqs])
    nbad = 0
    cfg = meta["ini"].split("/")[-2] + "/" + meta["ini"].split("/")[-1]
    for (i, line, exp, kind, cls), got in zip(reqs, rep):
        ctx.count("replay:" + kind)
        ctx.cls((cfg.split("/")[0], kind, cls))
        units = got.split(" | ")
        ok = got != "bad-op" and len(units) == len(exp) and all(g == e for g, (_, e, _) in zip(units, exp))
        if not ok:
            nbad += 1
            if nbad <= 3:
                diff = [(str(ident), e, g) for g, (ident, e, _) in zip(units, exp) if g != e][:4]
                ctx.disagree("comp2.event-out-state", {"ini": meta["ini"], "seed": meta["seed"], "leg": i, "handler": cls, "kind": kind,
                                                       "request": line, "job": tr.get("job")},
                             [x[1] for x in diff], [x[2] for x in diff] if got != "bad-op" else "bad-op")
    return len(reqs)


# ----------------------------------------------------------------------------------------------------------------
# random node creators called directly

class _Rec:
    """proxy of a module that records the results of selected functions"""
    def __init__(self, mod, names, log):
        self._mod, self._names, self._log = mod, names, log

    def __getattr__(self, name):
        f = getattr(self._mod, name)
        if name in self._names:
            def g(*a, **k):
                r = f(*a, **k)
                self._log.append((name, list(r) if isinstance(r, (list, tuple)) else r))
                return r
            return g
        return f


def _bary_ok(centre, members, L, tol):
    """centre ≡ mean of the members' nearest images (relative to the first member), modulo the box"""
    for d in range(len(centre)):
        ref = members[0][d]
        imgs = [ref + (((q[d] - ref + L / 2) % L) - L / 2) for q in members]
        b = (sum(imgs) / len(members)) % L
        dd = abs(b - centre[d]) % L
        if min(dd, L - dd) > tol:
            return False
    return True


def creators(ctx):
    import random
    import jellyfysh.setting as setting
    from jellyfysh.setting import hypercubic_setting
    from jellyfysh.base.node import Node
    from jellyfysh.input_output_handler.input_handler.random_node_creator import dipole_random_node_creator as dm
    from jellyfysh.input_output_handler.input_handler.random_node_creator import water_random_node_creator as wm
    import jellyfysh.base.vectors as vectors
    n = ctx.n(300, 4000)
    lines, expect, info = [], [], []
    for k in range(n):
        kind = "dipole" if k % 2 == 0 else "water"
        dim = ctx.rng.choice([2, 3]) if kind == "dipole" else 3
        Lbox = ctx.rng.choice([1.0, 2.5, 10.261, 0.37, 100.0])
        seed = ctx.rng.randrange(1 << 30)
        setting.reset()
        hypercubic_setting.HypercubicSetting(beta=1.0, dimension=dim, system_length=Lbox)
        random.seed(seed)
        log = []
        node = Node()
        case = {"creator": kind, "dimension": dim, "system_length": Lbox, "random_seed": seed}
        try:
            if kind == "dipole":
                lo, hi = ctx.rng.choice([(0.0, 0.05), (0.01, 0.3), (0.0, 0.9 * Lbox)])
                case.update(min_sep=lo, max_sep=hi)
                cr = dm.DipoleRandomNodeCreator(min_initial_dipole_separation=lo, max_initial_dipole_separation=hi)
                saved = (dm.random, dm.random_vector_on_unit_sphere)
                dm.random = _Rec(random, {"uniform"}, log)
                orig = saved[1]
                dm.random_vector_on_unit_sphere = lambda dd: (lambda r: (log.append(("dir", list(r))), r)[1])(orig(dd))
                try:
                    cr.fill_root_node(node)
                finally:
                    dm.random, dm.random_vector_on_unit_sphere = saved
            else:
                bl, ang = ctx.rng.choice([(1.012, 1.9764), (0.3 * Lbox, 1.2), (0.05, 2.8)])
                case.update(bond_length=bl, bond_angle=ang)
                cr = wm.WaterRandomNodeCreator(bond_length=bl, bond_angle=ang)
                saved = wm.vectors
                wm.vectors = _Rec(vectors, {"normalize"}, log)
                try:
                    cr.fill_root_node(node)
                finally:
                    wm.vectors = saved
        except Exception as e:
            ctx.fail("C12:creator-raises:" + type(e).__name__, case, "the random node creator raised")
            continue
        centre = list(node.value.position)
        members = [list(c.value.position) for c in node.children]
        ctx.evaluations += 1
        ctx.count("creator:" + kind)
        ctx.cls(("creator", kind, dim))
        w = [c.weight for c in node.children]
        if any(x != 1 / len(members) for x in w) or node.weight != 1:
            ctx.fail("C12:creator-weights", {**case, "weights": w}, "leaf weights are not 1/len(children) or the root weight is not 1")
        tol = 1e-12 * max(1.0, Lbox)
        # the statement needs the members within half a box of each other (nearest images); all generated geometries are
        ext = (case.get("max_sep", 0.0) if kind == "dipole" else 2 * case.get("bond_length", 0.0))
        if ext < Lbox / 2 and not _bary_ok(centre, members, Lbox, tol):
            ctx.fail("C12:creator-centre-not-barycentre:" + kind, {**case, "centre": centre, "members": members},
                     "initial position of the composite object is not the mean of its members (nearest images)")
        if any(not (0.0 <= x <= Lbox) for p in members + [centre] for x in p):
            ctx.fail("C12:creator-position-outside-box:" + kind, {**case, "centre": centre, "members": members}, "position outside [0, L]")
        # correspondence: the model recomputes the leaf positions from (centre, random direction / OH vectors)
        Ls = " ".join([f2b(Lbox)] * dim)
        if kind == "dipole":
            dirs = [x[1] for x in log if x[0] == "dir"]
            seps = [x[1] for x in log if x[0] == "uniform"]
            if len(dirs) != 1 or len(seps) != 1:
                ctx.disagree("comp2.creator-protocol", case, "one direction, one separation", str(log))
                continue
            lines.append("dipole %d %s %s %s %s" % (dim, Ls, " ".join(f2b(x) for x in centre), " ".join(f2b(x) for x in dirs[0]), f2b(seps[0])))
        else:
            norms = [x[1] for x in log if x[0] == "normalize"]
            if len(norms) != 4:
                ctx.disagree("comp2.creator-protocol", case, "four normalize calls", str(log))
                continue
            lines.append("water %d %s %s %s %s" % (dim, Ls, " ".join(f2b(x) for x in centre), " ".join(f2b(x) for x in norms[2]),
                                                    " ".join(f2b(x) for x in norms[3])))
        expect.append(" ".join(f2b(x) for p in members for x in p))
        info.append(case)
    setting.reset()
    rep = ctx.model("comp2", lines) if lines else []
    bad = 0
    for line, e, g, case in zip(lines, expect, rep, info):
        if e != g:
            bad += 1
            if bad <= 3:
                ctx.disagree("comp2.creator-geometry", {**case, "request": line}, e, g)
    # weights 1 / n
    ns = list(range(1, 12))
    rep = ctx.model("comp2", ["weight %d" % k for k in ns])
    for k, g in zip(ns, rep):
        if g != f2b(1 / k):
            ctx.disagree("comp2.weight", {"n": k}, f2b(1 / k), g)


def slow_jobs(ctx):
    """generated variants with a small speed: the velocities of the composite objects lie between the threshold 1.0e-13 of
    `_commit_sub_tree_non_leaf_velocity_change` / `EndOfChainEventHandler.send_out_state` and 1 (shipped configurations all
    run at speed 1, where every velocity is either O(1) or a rounding residue far below the threshold)"""
    jobs = []
    for k in range(ctx.n(3, 9)):
        base = [runs.CFG + "dipoles/dipole_motion.ini", runs.CFG + "dipoles/atom_factors.ini", runs.CFG + "water/single_molecule.ini"][k % 3]
        speed = [1.0e-3, 7.3e-4][k % 2] if k < 3 else 10.0 ** ctx.rng.uniform(-11.0, -2.0)
        jobs.append({"ini": base, "seed": ctx.seed * 1000 + 300 + k, "max_legs": ctx.n(600, 3000), "kind": "generated-slow",
                     "overrides": {"InitialChainStartOfRunEventHandler": {"speed": repr(speed)},
                                   "FinalTimeEndOfRunEventHandler": {"end_of_run_time": ctx.rng.choice([40.5, 77.0])}}})
    return jobs


def run(ctx):
    ctx.rule = ("real runs: the 15 shipped configurations with composite objects (shortened end time) + generated dipole variants "
                "(number of dipoles, sampling interval, scheduler), seeded; a case = one committed event; distinct non-trivial "
                "class = (family, event kind incl. same/other object and mode, committing handler class); plus direct calls of "
                "the two random node creators (seeds, dimension, box length, geometry parameters); plus generated small-speed "
                "variants (velocities between the 1e-13 threshold and 1)")
    trs = runcommon.traces(ctx, composite_only=True)
    # dumped and resumed composite runs (many dumps per run): in-states pending at the dump are pickled branches of nodes; what they
    # commit after the resume must keep the composite objects consistent like any other commit
    res = runcommon.resumed_traces(ctx, composite=True)
    ctx.count("resumed-composite-traces", len(res))
    trs = trs + [t for t in res if t["legs"]]
    slow = runs.run_jobs(ctx.root, slow_jobs(ctx))
    for t in slow:
        if not t["legs"]:
            ctx.count("trace-failed:" + str(t["end"])[:60])
        else:
            ctx.count("slow-run")
    try:
        tree = translate.Tree(ctx.root)
    except Exception as e:
        tree = None
        ctx.disagree("mode.translator", {"error": repr(e)}, "readable tree", "exception")
    for tr in trs + slow:
        meta = tr["meta"]
        if tree is not None and tr["legs"] and meta.get("levels") == 2 and (tr.get("job") or {}).get("kind") != "resumed":
            # the mode discipline C12Chain needs, derived from the wiring (JF.Props.ModeDiscipline): every recorded commit is of a
            # kind the map allows for its tagger, and the mode read off the activation flags is the observed one
            try:
                modecorr.check_trace(ctx, tr, actcorr.wiring_of_trace(ctx, tree, tr))
            except Exception as e:
                ctx.disagree("mode.check-trace", {"ini": meta.get("ini"), "job": tr.get("job")}, "evaluated", repr(e))
        if not tr["legs"]:
            if tr["end"] == "inadmissible-initial-overlap":
                # hard-core family: every re-seeded random initial state had overlapping cores (outside every property's quantifier)
                ctx.count("trace-skipped:inadmissible-initial-overlap")
                continue
            ctx.fail("C12:run-does-not-start", {"ini": meta.get("ini"), "end": tr["end"], "job": tr.get("job"),
                                                "exception": (tr.get("exception") or "")[-1500:]},
                     "the run could not be built or raised before the first commit")
            continue
        if str(tr["end"]).startswith("exc:"):
            ctx.fail("C12:run-raises:" + tr["end"], {"ini": meta["ini"], "seed": meta["seed"], "leg": len(tr["legs"]), "job": tr.get("job"),
                                                     "exception": (tr.get("exception") or "")[-1500:]}, "the run raised " + tr["end"])
        stats = {}
        runs.oracle_c12(tr, ctx.fail, stats)
        if meta["levels"] == 2 and (tr.get("job") or {}).get("kind") != "resumed":
            # (a resumed trace starts in the middle of a run: the oracle judges it, the bit-exact replay needs the history from the start)
            n = replay_trace(ctx, tr)
            stats["replayed_events"] = n
        runcommon.record_trace_stats(ctx, tr, stats)
        if len(ctx.samples) < 4 and len(tr["legs"]) > 5:
            leg = tr["legs"][5]
            ctx.sample({"ini": meta["ini"], "seed": meta["seed"], "leg": leg["i"], "handler": meta["handlers"][leg["chosen"]],
                        "out_state": {str(k): [v[0], v[1], v[2]] for k, v in leg["out"].items()}})
    creators(ctx)
