"""C02 — Candidate event distance inverts the cumulative uphill energy exactly.

Correspondence: the native-Float Lean model `JF.Model.Potential.Displacement` (driver component `pot`) vs the real
classes `InversePowerPotential`, `LennardJonesPotential`, `DisplacedEvenPowerPotential`,
`InversePowerCoulombBoundingPotential` (freshly compiled C), `HardSpherePotential`, `HardDipolePotential`,
`CellBoundingPotential`: same outcome class (value / exception name), values to 1e-9 relative (libm `pow`), an
inf/finite or branch disagreement counts only if no deciding comparison of the model is within 1e-9 of equality.

Oracle (independent of the code's formulas): the exact positive variation of an independently written energy
function along the straight path, computed from its break points (closest approach, crossings of the minimum sphere,
periodic wrap points); between consecutive break points the energy is monotone, so the accumulated uphill energy is
`sum(max(0, dU))` over them.  Checked against the budget in the well-conditioned range; totality and sign for all
positive budgets down to denormals.  Hard cores: exact rational contact equation."""
import math
from fractions import Fraction as Fr
from harness.drive import f2b, b2f

ID = "C02"
THEOREM_MODULES = ["JF.Props.C02"]
COMPONENTS = ["pot"]
ASSUMPTIONS = [
    "admissible separation: non-zero, every component in [-L/2, L/2] (periodic potential), hard spheres not "
    "overlapping (|s|^2 >= (2r)^2 exactly), dipole atoms inside the bond annulus; charges non-zero; speed > 0 along "
    "one positive axis (standard velocity potentials), arbitrary non-zero velocity for hard cores",
    "inversion identity checked where well conditioned: budget >= 1e-5 x (largest |U| met on the path, for "
    "Lennard-Jones also the prefactor), tolerance 1e-6 x budget + 1e-11 x that scale; totality and sign for every "
    "positive budget (2^-1074 .. 2^200 x scale)",
    "sign: a returned distance is 'negative beyond rounding' if < -1e-7 x length scale; for a start that binary64 "
    "cannot tell from a turning point of the path (energy difference <= 1e-11 x scale) if < -(1e-5 x length scale + "
    "3 x distance to that turning point)",
    "hard cores: contact equation evaluated in exact rational arithmetic, residual <= 1e-9 x (|s|^2 + R^2), closest "
    "approach known to 1e-9 x |s|/|v|; grazing passes (|discriminant| <= 1e-9 x scale) accept either outcome",
    "theorems are about the real-number reading of the model; binary64 totality is explored by the run, not proved",
]
TRUSTED = ["Lean native Float + libm pow/sqrt (the driver's model runs on the same libm as CPython and the compiled C)",
           "JF.Num.Ops.ffmod (exact integer fmod)"]

INF = math.inf
RTOL = 1e-9          # correspondence
WELL = 1e-5          # budget / scale above which the inversion identity is demanded
ID_RTOL, ID_ATOL = 1e-6, 1e-11


def nxt(x, k=1):
    for _ in range(abs(k)):
        x = math.nextafter(x, INF if k > 0 else -INF)
    return x


def logu(rng, lo, hi):
    return math.exp(rng.uniform(math.log(lo), math.log(hi)))


# ------------------------------------------------------------------------------------------------------------------
# independent energy functions and the break-point positive variation
# ------------------------------------------------------------------------------------------------------------------
def energy_fn(case):
    k = case["kind"]
    if k == "ip":
        K, p = case["prefactor"] * case["c1"] * case["c2"], case["power"]
        return lambda r: K * math.exp(-p * math.log(r)) if r > 0 else (INF if K > 0 else -INF)
    if k == "cb":
        K = case["prefactor"] * case["c1"] * case["c2"]
        return lambda r: K / r if r > 0 else (INF if K > 0 else -INF)
    if k == "lj":
        kk, cl = case["prefactor"], case["cl"]

        def u(r):
            if r <= 0:
                return INF
            x = (cl / r) ** 2
            x3 = x * x * x
            return kk * (x3 * x3 - x3)
        return u
    if k == "ep":
        kk, r0, p = case["prefactor"], case["eq"], case["power"]
        return lambda r: kk * abs(r - r0) ** p
    raise KeyError(k)


def r_min_of(case):
    if case["kind"] == "lj":
        return case["cl"] * 2.0 ** (1.0 / 6.0)
    if case["kind"] == "ep":
        return case["eq"]
    return None


class Path:
    """x -> U(sep - x e_d), x >= 0, with its break points"""

    def __init__(self, case):
        self.case = case
        self.U = energy_fn(case)
        self.d = next(i for i, v in enumerate(case["vel"]) if v != 0.0)
        self.s = case["sep"][self.d]
        self.perp = math.sqrt(math.fsum(c * c for i, c in enumerate(case["sep"]) if i != self.d))
        self.L = case.get("L")
        self.r0 = r_min_of(case)

    def r(self, x):
        w = self.s - x
        if self.L is not None:
            L = self.L
            w = math.fmod(w + L / 2, L)
            if w < 0:
                w += L
            w -= L / 2
        return math.hypot(w, self.perp)

    def f(self, x):
        try:
            return self.U(self.r(x))
        except OverflowError:
            r = self.r(x)
            k = self.case["kind"]
            if k == "ep":
                return INF
            # r -> 0: sign of the singular term
            if k == "lj":
                return INF
            K = self.case["prefactor"] * self.case["c1"] * self.case["c2"]
            return INF if (K > 0) == (r < 1) else 0.0

    def raw_breaks(self, upto):
        """break points in (0, upto) (upto may be inf for the non-periodic potentials)"""
        b = []
        if self.L is None:
            b.append(self.s)
            if self.r0 is not None and self.perp < self.r0:
                h = math.sqrt((self.r0 - self.perp) * (self.r0 + self.perp))
                b += [self.s - h, self.s + h]
        else:
            L = self.L
            k0 = math.floor((0 - self.s) / L) - 1
            k = k0
            while True:
                x1, x2 = self.s + k * L, self.s + L / 2 + k * L
                if x1 > upto and x2 > upto:
                    break
                b += [x1, x2]
                k += 1
                if k - k0 > 100000:
                    raise RuntimeError("too many laps")
        return b

    def breaks(self, upto):
        b = self.raw_breaks(upto)
        return sorted(x for x in b if 0 < x < upto)

    def uphill(self, upto):
        """(positive variation on [0, upto], largest |U| met); upto = inf: limit (non-periodic only)"""
        if self.L is not None and upto > 3 * self.L:
            # whole periods: V(0 -> nL) = n * V(0 -> L), V(nL -> x) = V(0 -> x - nL)
            n = math.floor(upto / self.L) - 1
            per, sc1 = self.uphill(self.L)
            rest, sc2 = self.uphill(upto - n * self.L)
            return n * per + rest, max(sc1, sc2)
        xs = [0.0] + self.breaks(upto)
        vals = [self.f(x) for x in xs]
        if upto == INF:
            k = self.case["kind"]
            vals.append(0.0 if k in ("ip", "lj") else INF)
        else:
            vals.append(self.f(upto))
        tot = 0.0
        for a, c in zip(vals, vals[1:]):
            if c > a:
                tot += c - a
        scale = max(abs(v) for v in vals if not math.isinf(v)) if any(not math.isinf(v) for v in vals) else INF
        return tot, scale


# ------------------------------------------------------------------------------------------------------------------
# generators
# ------------------------------------------------------------------------------------------------------------------
def axis_velocity(rng, n):
    d = rng.randrange(n)
    c = rng.random()
    speed = 1.0 if c < 0.3 else logu(rng, 1e-3, 1e3)
    v = [0.0] * n
    v[d] = speed
    return v, d


def small_or(rng, x):
    """boundary values around zero for the component along the direction of motion"""
    c = rng.random()
    if c < 0.04:
        return 0.0
    if c < 0.06:
        return -0.0
    if c < 0.10:
        return rng.choice([-1, 1]) * 2.0 ** rng.uniform(-1074, -30)
    if c < 0.14:
        return rng.choice([-1, 1]) * logu(rng, 1e-9, 1e-3) * abs(x)
    return x


def gen_budget(rng, T, scale):
    """budget relative to the total climb T (may be 0 or inf) and the local energy scale"""
    base = T if (0 < T < INF) else scale
    if not (0 < base < INF):
        base = 1.0
    c = rng.random()
    if c < 0.45:
        return base * logu(rng, 1e-4, 10.0), "mid"
    if c < 0.55:
        return base * logu(rng, 1e-12, 1e-4), "small"
    if c < 0.62:
        return 2.0 ** rng.uniform(-1074, -900), "denormalish"
    if c < 0.65:
        return rng.choice([5e-324, 2.0 ** -1022, 2.0 ** -1023]), "denormal"
    if c < 0.72:
        return base * logu(rng, 10.0, 1e12), "large"
    if c < 0.75:
        return base * 2.0 ** rng.uniform(40, 200), "huge"
    if c < 0.93 and 0 < T < INF:
        return max(5e-324, nxt(T, rng.randint(-4, 4))), "at-climb"
    if 0 < T < INF:
        return T * (1 + rng.choice([-1, 1]) * logu(rng, 1e-15, 1e-6)), "near-climb"
    return base * logu(rng, 1e-4, 10.0), "mid"


def gen_sep(rng, n, lo, hi):
    """random direction, length log-uniform in [lo, hi]"""
    while True:
        v = [rng.gauss(0, 1) for _ in range(n)]
        nv = math.sqrt(sum(c * c for c in v))
        if nv > 0:
            break
    r = logu(rng, lo, hi)
    return [c / nv * r for c in v]


def gen_ip(rng):
    n = rng.choice([2, 3, 3, 3])
    vel, d = axis_velocity(rng, n)
    power = rng.choice([1.0, 1.0, 2.0, 6.0, 12.0, 0.5, 3.0, rng.uniform(0.3, 14.0)])
    k = rng.choice([-1, 1]) * logu(rng, 0.05, 20.0)
    c1 = rng.choice([-1, 1]) * rng.choice([1.0, 0.41, 0.82, logu(rng, 0.1, 3.0)])
    c2 = rng.choice([-1, 1]) * rng.choice([1.0, 0.41, 0.82, logu(rng, 0.1, 3.0)])
    sep = gen_sep(rng, n, 0.05, 3.0)
    c = rng.random()
    if c < 0.12:      # grazing: small perpendicular distance
        f = logu(rng, 1e-3, 1e-1)
        sep = [x if i == d else x * f for i, x in enumerate(sep)]
    if rng.random() < 0.02:  # head-on along the axis of motion
        sep = [x if i == d else 0.0 for i, x in enumerate(sep)]
    else:
        sep[d] = small_or(rng, sep[d])
    return {"kind": "ip", "power": power, "prefactor": k, "c1": c1, "c2": c2, "vel": vel, "sep": sep}


def place_on_radius(rng, sep, d, r, keep_perp=True):
    """rescale the component along d so that |sep| ~ r (if the perpendicular part allows), keeping its sign"""
    p2 = sum(x * x for i, x in enumerate(sep) if i != d)
    if p2 >= r * r:
        return sep
    sd = math.sqrt(r * r - p2)
    out = list(sep)
    out[d] = math.copysign(sd, sep[d]) if sep[d] != 0 else sd
    return out


def gen_hat(rng, kind):
    n = rng.choice([2, 3, 3, 3])
    vel, d = axis_velocity(rng, n)
    if kind == "lj":
        cl = rng.choice([1.0, logu(rng, 0.3, 3.0)])
        k = rng.choice([1.0, logu(rng, 0.05, 20.0)])
        if rng.random() < 0.12:                     # "all potential parameters": energy scales far from 1 (SI units, weak couplings)
            k = logu(rng, 1e-22, 1e-9) if rng.random() < 0.6 else logu(rng, 1e4, 1e9)
        r0 = cl * 2.0 ** (1.0 / 6.0)
        case = {"kind": "lj", "prefactor": k, "cl": cl}
        lo, hi = 0.75 * cl, 4.0 * cl
    else:
        r0 = rng.choice([1.0, logu(rng, 0.3, 3.0)])
        k = rng.choice([1.0, logu(rng, 0.05, 20.0)])
        if rng.random() < 0.12:                     # "all potential parameters": energy scales far from 1 (SI units, weak couplings)
            k = logu(rng, 1e-22, 1e-9) if rng.random() < 0.6 else logu(rng, 1e4, 1e9)
        power = rng.choice([2, 2, 4, 6, 8])
        case = {"kind": "ep", "prefactor": k, "eq": r0, "power": power}
        lo, hi = 0.02 * r0, 3.0 * r0
    c = rng.random()
    if c < 0.35:
        sep = gen_sep(rng, n, lo, r0)              # inside
    elif c < 0.7:
        sep = gen_sep(rng, n, r0, hi)              # outside
    elif c < 0.8:                                   # on the minimum sphere (+- a few ulp)
        sep = gen_sep(rng, n, r0, r0)
        f = nxt(1.0, rng.randint(-3, 3))
        sep = [x * f for x in sep]
    elif c < 0.9:                                   # outside, perpendicular distance close to r0 (tangent pass)
        sep = gen_sep(rng, n, r0, hi)
        p = math.sqrt(sum(x * x for i, x in enumerate(sep) if i != d))
        if p > 0:
            t = r0 * (1 + rng.choice([-1, 1]) * logu(rng, 1e-16, 1e-2)) / p
            sep = [x if i == d else x * t for i, x in enumerate(sep)]
    else:                                           # close to the sphere
        sep = gen_sep(rng, n, r0, r0)
        f = 1 + rng.choice([-1, 1]) * logu(rng, 1e-14, 1e-3)
        sep = [x * f for x in sep]
    if rng.random() < 0.02:  # head-on along the axis of motion
        sep = [x if i == d else 0.0 for i, x in enumerate(sep)]
    else:
        sep[d] = small_or(rng, sep[d])
    case.update({"vel": vel, "sep": sep})
    return case


def gen_cb(rng, L):
    vel, d = axis_velocity(rng, 3)
    k = rng.choice([1.5837, 1.6, logu(rng, 0.1, 10.0)])
    c1 = rng.choice([-1, 1]) * rng.choice([1.0, 0.41, 0.82, logu(rng, 0.1, 3.0)])
    c2 = rng.choice([-1, 1]) * rng.choice([1.0, 0.41, 0.82, logu(rng, 0.1, 3.0)])
    c = rng.random()
    if c < 0.7:
        sep = [rng.uniform(-L / 2, L / 2) for _ in range(3)]
    elif c < 0.85:
        sep = [rng.choice([-L / 2, nxt(-L / 2, 1), nxt(L / 2, -1), L / 2, rng.uniform(-L / 2, L / 2)]) for _ in range(3)]
    else:
        sep = [rng.uniform(-L / 2, L / 2) * logu(rng, 1e-3, 1) for _ in range(3)]
    if rng.random() < 0.02:  # head-on along the axis of motion
        sep = [x if i == d else 0.0 for i, x in enumerate(sep)]
    else:
        sep[d] = small_or(rng, sep[d])
    return {"kind": "cb", "prefactor": k, "L": L, "c1": c1, "c2": c2, "vel": vel, "sep": sep}


def gen_vel_any(rng, n):
    c = rng.random()
    if c < 0.3:
        return axis_velocity(rng, n)[0]
    v = [rng.gauss(0, 1) for _ in range(n)]
    if c < 0.4:
        v[rng.randrange(n)] = 0.0
    s = logu(rng, 1e-2, 1e2)
    v = [x * s for x in v]
    if all(x == 0 for x in v):
        v[0] = 1.0
    return v


def gen_hs(rng):
    n = rng.choice([2, 3, 3])
    radius = rng.choice([0.5, 0.1, logu(rng, 0.01, 2.0)])
    sig = 2 * radius
    vel = gen_vel_any(rng, n)
    c = rng.random()
    if c < 0.45:       # aimed at the target with a random impact parameter around sigma
        dist = sig * (1 + logu(rng, 1e-6, 10.0))
        nv = math.sqrt(sum(x * x for x in vel))
        e = [x / nv for x in vel]
        # perpendicular unit vector
        while True:
            w = [rng.gauss(0, 1) for _ in range(n)]
            dp = sum(a * b for a, b in zip(w, e))
            w = [a - dp * b for a, b in zip(w, e)]
            nw = math.sqrt(sum(x * x for x in w))
            if nw > 1e-6:
                break
        w = [x / nw for x in w]
        cc = rng.random()
        if cc < 0.5:
            b = sig * rng.uniform(0, 1.3)
        elif cc < 0.8:
            b = sig * (1 + rng.choice([-1, 1]) * logu(rng, 1e-16, 1e-3))
        else:
            b = 0.0
        b = min(b, dist)
        along = math.sqrt(max(dist * dist - b * b, 0.0)) * rng.choice([1, 1, 1, -1])
        sep = [along * a + b * c_ for a, c_ in zip(e, w)]
    elif c < 0.75:
        sep = gen_sep(rng, n, sig, sig * 10)
    else:              # in contact (+- a few ulp)
        sep = gen_sep(rng, n, sig, sig)
        f = nxt(1.0, rng.randint(-2, 6))
        sep = [x * f for x in sep]
    return {"kind": "hs", "radius": radius, "vel": vel, "sep": sep}


def gen_hd(rng):
    n = rng.choice([2, 3, 3])
    a = rng.choice([0.5, 1.0, logu(rng, 0.05, 2.0)])
    b = a * (1 + rng.choice([0.01, 0.5, 1.0, logu(rng, 1e-3, 5.0)]))
    vel = gen_vel_any(rng, n)
    c = rng.random()
    if c < 0.7:
        sep = gen_sep(rng, n, a, b)
    elif c < 0.85:
        sep = gen_sep(rng, n, a, a)
        sep = [x * nxt(1.0, rng.randint(-1, 6)) for x in sep]
    else:
        sep = gen_sep(rng, n, b, b)
        sep = [x * nxt(1.0, rng.randint(-6, 1)) for x in sep]
    if rng.random() < 0.25:   # grazing the inner sphere
        nv = math.sqrt(sum(x * x for x in vel))
        e = [x / nv for x in vel]
        r = math.sqrt(sum(x * x for x in sep))
        if r > a:
            while True:
                w = [rng.gauss(0, 1) for _ in range(n)]
                dp = sum(p * q for p, q in zip(w, e))
                w = [p - dp * q for p, q in zip(w, e)]
                nw = math.sqrt(sum(x * x for x in w))
                if nw > 1e-6:
                    break
            w = [x / nw for x in w]
            bb = a * (1 + rng.choice([-1, 1]) * logu(rng, 1e-16, 1e-2))
            bb = min(bb, r)
            along = math.sqrt(max(r * r - bb * bb, 0.0))
            sep = [along * p + bb * q for p, q in zip(e, w)]
    return {"kind": "hd", "min": a, "max": b, "vel": vel, "sep": sep}


def gen_cell(rng):
    n = 3
    vel, d = axis_velocity(rng, n)
    mode = rng.choice(["cell", "cell0"])
    b0 = rng.choice([0.0, -1.0, logu(rng, 1e-3, 1e3), logu(rng, 1e-3, 1e3)])
    b1 = rng.choice([0.0, 1.0, -logu(rng, 1e-3, 1e3), -logu(rng, 1e-3, 1e3)])
    a = rng.choice([-1, 1]) * rng.choice([1.0, 0.41, 0.82])
    t = rng.choice([-1, 1]) * rng.choice([1.0, 0.41, 0.82])
    dE = rng.choice([logu(rng, 1e-6, 1e3), 2.0 ** rng.uniform(-1074, 100), 5e-324])
    if mode == "cell0":
        a = t = 1.0
    elif rng.random() < 0.2:
        # a neutral unit (vanishing charge correction factor): no energy is accumulated, the displacement is
        # infinite whatever an earlier call on the same potential object left behind (seeded C02_r2m2)
        if rng.random() < 0.5:
            a = rng.choice([0.0, -0.0])
        else:
            t = rng.choice([0.0, -0.0])
    return {"kind": mode, "b0": b0, "b1": b1, "a": a, "t": t, "dE": dE, "vel": vel, "sep": []}


# ------------------------------------------------------------------------------------------------------------------
# request lines, implementation calls
# ------------------------------------------------------------------------------------------------------------------
def fl(xs):
    return " ".join(f2b(x) for x in xs)


def request(case):
    k = case["kind"]
    n = len(case["vel"])
    if k == "ip":
        return f"ip {f2b(case['power'])} {f2b(case['prefactor'])} {n} {fl(case['vel'])} {fl(case['sep'])} " \
               f"{f2b(case['c1'])} {f2b(case['c2'])} {f2b(case['dE'])}"
    if k == "lj":
        return f"lj {f2b(case['prefactor'])} {f2b(case['cl'])} {n} {fl(case['vel'])} {fl(case['sep'])} {f2b(case['dE'])}"
    if k == "ep":
        return f"ep {f2b(case['eq'])} {f2b(float(case['power']))} {f2b(case['prefactor'])} {n} {fl(case['vel'])} " \
               f"{fl(case['sep'])} {f2b(case['dE'])}"
    if k == "cb":
        return f"cb {f2b(case['prefactor'])} {f2b(case['L'])} {fl(case['vel'])} {fl(case['sep'])} " \
               f"{f2b(case['c1'])} {f2b(case['c2'])} {f2b(case['dE'])}"
    if k == "hs":
        return f"hs {f2b(case['radius'])} {n} {fl(case['vel'])} {fl(case['sep'])}"
    if k == "hd":
        return f"hd {f2b(case['min'])} {f2b(case['max'])} {n} {fl(case['vel'])} {fl(case['sep'])}"
    if k == "cell":
        return f"cell {f2b(case['b0'])} {f2b(case['b1'])} {f2b(case['a'] * case['t'])} {f2b(case['dE'])} {n} {fl(case['vel'])}"
    if k == "cell0":
        return f"cell0 {f2b(case['b0'])} {f2b(case['a'])} {f2b(case['t'])} {f2b(case['dE'])} {n} {fl(case['vel'])}"
    raise KeyError(k)


class Impl:
    """the real classes (imported from the scratch copy)"""

    def __init__(self):
        from jellyfysh.potential.inverse_power_potential import InversePowerPotential
        from jellyfysh.potential.lennard_jones_potential import LennardJonesPotential
        from jellyfysh.potential.displaced_even_power_potential import DisplacedEvenPowerPotential
        from jellyfysh.potential.hard_sphere_potential import HardSpherePotential
        from jellyfysh.potential.hard_dipole_potential import HardDipolePotential
        self.IP, self.LJ, self.EP, self.HS, self.HD = (InversePowerPotential, LennardJonesPotential,
                                                       DisplacedEvenPowerPotential, HardSpherePotential,
                                                       HardDipolePotential)
        self.cache = {}
        self.L = None
        self.cb_cls = None

    def set_box(self, L):
        import jellyfysh.setting as setting
        from jellyfysh.setting import hypercubic_setting
        if self.L is not None:
            setting.reset()
        self.L = L
        if L is None:
            return
        hypercubic_setting.HypercubicSetting(beta=1.0, dimension=3, system_length=L)
        setting.set_number_of_root_nodes(2)
        setting.set_number_of_nodes_per_root_node(2)
        setting.set_number_of_node_levels(1)
        from jellyfysh.potential.inverse_power_coulomb_bounding_potential import InversePowerCoulombBoundingPotential
        self.cb_cls = InversePowerCoulombBoundingPotential

    def cell_potential(self, lower):
        key = ("cell", lower)
        if key not in self.cache:
            from unittest import mock
            from jellyfysh.potential.cell_bounding_potential import CellBoundingPotential
            from jellyfysh.activator.internal_state.cell_occupancy.cells.cuboid_periodic_cells import CuboidPeriodicCells
            from jellyfysh.estimator import Estimator
            import contextlib, io
            est = mock.MagicMock(spec_set=Estimator)
            est.charge_correction_factor = lambda a, t: a * t
            cells = mock.MagicMock(spec_set=CuboidPeriodicCells)
            cells.yield_cells = lambda: []
            pot = CellBoundingPotential(estimator=est)
            with contextlib.redirect_stdout(io.StringIO()):
                pot.initialize(cells, lower)
            self.cache[key] = pot
        return self.cache[key]

    def get(self, key, make):
        if key not in self.cache:
            if len(self.cache) > 5000:
                self.cache.clear()
            self.cache[key] = make()
        return self.cache[key]

    def call(self, case):
        k = case["kind"]
        try:
            sep = list(case["sep"])
            vel = list(case["vel"])
            if k == "ip":
                p = self.get(("ip", case["power"], case["prefactor"]),
                             lambda: self.IP(power=case["power"], prefactor=case["prefactor"]))
                r = p.displacement(vel, sep, case["c1"], case["c2"], case["dE"])
            elif k == "lj":
                p = self.get(("lj", case["prefactor"], case["cl"]),
                             lambda: self.LJ(prefactor=case["prefactor"], characteristic_length=case["cl"]))
                r = p.displacement(vel, sep, case["dE"])
            elif k == "ep":
                p = self.get(("ep", case["eq"], case["power"], case["prefactor"]),
                             lambda: self.EP(equilibrium_separation=case["eq"], power=case["power"],
                                             prefactor=case["prefactor"]))
                r = p.displacement(vel, sep, case["dE"])
            elif k == "cb":
                assert self.L == case["L"]
                p = self.get(("cb", case["L"], case["prefactor"]), lambda: self.cb_cls(prefactor=case["prefactor"]))
                r = p.displacement(vel, sep, case["c1"], case["c2"], case["dE"])
            elif k == "hs":
                p = self.get(("hs", case["radius"]), lambda: self.HS(radius=case["radius"]))
                r = p.displacement(vel, sep)
            elif k == "hd":
                p = self.get(("hd", case["min"], case["max"]),
                             lambda: self.HD(minimum_separation=case["min"], maximum_separation=case["max"]))
                r = p.displacement(vel, sep)
            elif k == "cell":
                p = self.cell_potential(True)
                d = next(i for i, v in enumerate(vel) if v != 0.0)
                b0 = [None] * 3
                b1 = [None] * 3
                b0[d], b1[d] = case["b0"], case["b1"]
                p._derivative_bounds[0][7] = b0
                p._derivative_bounds[1][7] = b1
                r = p.displacement(vel, 7, case["a"], case["t"], case["dE"])
            elif k == "cell0":
                p = self.cell_potential(False)
                d = next(i for i, v in enumerate(vel) if v != 0.0)
                b0 = [None] * 3
                b0[d] = case["b0"]
                p._derivative_bounds[7] = b0
                r = p.displacement(vel, 7, case["a"], case["t"], case["dE"])
            else:
                raise KeyError(k)
            if isinstance(r, complex):
                return ("e", "complex-result")
            return ("v", float(r))
        except (ZeroDivisionError, ValueError, OverflowError, TypeError, AssertionError) as e:
            return ("e", type(e).__name__)


REPORT_CAP = 12


def report(ctx, sig, case, what):
    """ctx.fail, but at most REPORT_CAP stored cases per signature (the framework keeps 500 in total; the
    histogram still counts every occurrence)"""
    key = "oracle-failure:" + sig
    if ctx.hist.get(key, 0) < REPORT_CAP:
        ctx.fail(sig, case, what)
    else:
        ctx.count(key)


def same_value(a, b):
    if math.isnan(a) or math.isnan(b):
        return math.isnan(a) and math.isnan(b)
    if a == b:
        return True
    if math.isinf(a) or math.isinf(b):
        return False
    return abs(a - b) <= RTOL * max(abs(a), abs(b))


def jcase(case):
    out = {}
    for k, v in case.items():
        if k.startswith("_"):
            continue
        if isinstance(v, float):
            out[k] = v.hex()
        elif isinstance(v, list):
            out[k] = [x.hex() if isinstance(x, float) else x for x in v]
        else:
            out[k] = v
    return out


def unj(case):
    out = {}
    for k, v in case.items():
        if isinstance(v, str) and (v.startswith("0x") or v.startswith("-0x") or v in ("inf", "-inf", "nan")):
            out[k] = float.fromhex(v)
        elif isinstance(v, list):
            out[k] = [float.fromhex(x) if isinstance(x, str) else x for x in v]
        else:
            out[k] = v
    return out


# ------------------------------------------------------------------------------------------------------------------
# branch / regime labels
# ------------------------------------------------------------------------------------------------------------------
def regime(case):
    k = case["kind"]
    if k in ("cell", "cell0"):
        return (k,)
    if k in ("hs", "hd"):
        return (k,)
    d = next(i for i, v in enumerate(case["vel"]) if v != 0.0)
    s = case["sep"][d]
    side = "front" if s <= 0.0 else "behind"
    if k in ("ip", "cb"):
        sign = "rep" if case["prefactor"] * case["c1"] * case["c2"] > 0 else "att"
        return (k, sign, side)
    r0 = r_min_of(case)
    r = math.sqrt(sum(x * x for x in case["sep"]))
    p = math.sqrt(sum(x * x for i, x in enumerate(case["sep"]) if i != d))
    return (k, "outside" if r >= r0 else "inside", side, "reach" if p < r0 else "miss")


# ------------------------------------------------------------------------------------------------------------------
# oracles
# ------------------------------------------------------------------------------------------------------------------
def admissible(case):
    k = case["kind"]
    if k in ("cell", "cell0"):
        return True
    sep = case["sep"]
    if all(x == 0.0 for x in sep):
        return False
    if k == "cb":
        L = case["L"]
        return all(-L / 2 <= x <= L / 2 for x in sep) and case["c1"] != 0 and case["c2"] != 0
    if k == "ip":
        return case["c1"] != 0 and case["c2"] != 0
    if k == "hs":
        return sum(Fr(x) ** 2 for x in sep) >= 4 * Fr(case["radius"]) ** 2
    if k == "hd":
        s2 = sum(Fr(x) ** 2 for x in sep)
        return Fr(case["min"]) ** 2 <= s2 <= Fr(case["max"]) ** 2
    return True


def natural_scale(case, scale):
    """energy scale of the rounding errors: largest |U| met on the path, and the potential's own scale for the
    Mexican-hat potentials (depth of the Lennard-Jones well, k * r0^p for the even power)"""
    if case["kind"] == "lj":
        return max(scale, case["prefactor"])
    if case["kind"] == "ep":
        return max(scale, case["prefactor"] * case["eq"] ** case["power"])
    return scale


def degenerate_start(path, scale):
    """turning points of the path (also just behind the start) whose energy differs from the start's by less than
    the rounding level: the start is then 'at a turning point' as far as binary64 can tell"""
    lenscale = max(abs(x) for x in path.case["sep"]) if path.L is None else path.L
    if not math.isfinite(scale):
        return []
    f0 = path.f(0.0)
    out = []
    for b in path.raw_breaks(lenscale):
        if abs(b) <= 1e-2 * lenscale:
            fb = path.f(b)
            if fb == f0 or (math.isfinite(fb) and math.isfinite(f0) and abs(fb - f0) <= ID_ATOL * scale):
                out.append(b)
    return out


def turning_landmarks(path, upto_laps=1):
    """cumulative uphill energy at the turning points of the path (closest approach, minimum sphere, box faces,
    infinity), with the energy scale; for the periodic potential: within the first lap, plus the lap climb"""
    if path.L is None:
        xs = [0.0] + path.breaks(INF)
        vals = [path.f(x) for x in xs] + [0.0 if path.case["kind"] in ("ip", "lj") else INF]
    else:
        xs = [0.0] + path.breaks(path.L) + [path.L]
        vals = [path.f(x) for x in xs]
    fin = [abs(v) for v in vals if math.isfinite(v)]
    scale = natural_scale(path.case, max(fin) if fin else INF)
    start_turning = bool(degenerate_start(path, scale))
    cum, out = 0.0, ([0.0] if start_turning else [])
    for a, c in zip(vals, vals[1:]):
        if c > a:
            cum += c - a
        out.append(cum)
    return out, scale


def at_turning_point(case, path, dE):
    """is the budget within rounding (1e-11 x energy scale) of the uphill energy accumulated at a turning point?"""
    try:
        marks, scale = turning_landmarks(path)
    except (ValueError, ZeroDivisionError, OverflowError):
        return False
    if not math.isfinite(scale):
        return False
    tol = ID_ATOL * scale
    if path.L is not None:
        P = marks[-1]
        if P > 0 and math.isfinite(P):
            r = math.fmod(dE, P)
            return any(abs(r - m) <= tol + 1e-12 * dE for m in marks + [0.0])
        return False
    return any(abs(dE - m) <= tol for m in marks if math.isfinite(m))


def oracle_soft(ctx, case, out):
    """standard-velocity potentials with an energy budget"""
    k = case["kind"]
    reg = regime(case)
    sig0 = ":".join(reg)
    dE = case["dE"]
    bclass = case.get("_bclass", "?")
    path = Path(case)
    bad = out[1] if out[0] == "e" else ("nan" if math.isnan(out[1]) else None)
    if bad is not None:
        if path.perp == 0.0 and bad == "ZeroDivisionError":
            sig = f"{k}:{bad}:head-on"
        elif at_turning_point(case, path, dE):
            sig = f"{k}:{bad}:budget-within-rounding-of-turning-point"
        elif path.perp == 0.0:
            sig = f"{k}:{bad}:head-on"
        else:
            sig = f"{sig0}:{bad}"
        report(ctx, sig, jcase(case), f"displacement gave {bad} on an admissible input (no value returned)")
        return
    t = out[1]
    speed = max(case["vel"])
    lenscale = max(abs(x) for x in case["sep"]) if case.get("L") is None else case["L"]
    if t == INF:
        x = INF
    else:
        x = t * speed
        ctx.extra["most_negative_displacement_over_length"] = min(
            ctx.extra.get("most_negative_displacement_over_length", 0.0), x / lenscale)
        negtol = 1e-7 * lenscale
        if x < -negtol:
            # a start that binary64 cannot tell from a turning point: the returned distance is resolved only up to
            # the distance of that turning point
            try:
                deg = degenerate_start(path, natural_scale(case, path.uphill(0.0)[1]))
            except (ValueError, ZeroDivisionError, OverflowError):
                deg = []
            if deg:
                # ... and to the square root of the energy rounding level (flat energy at a turning point)
                negtol += 3 * max(abs(b) for b in deg) + 1e-5 * lenscale
                ctx.count(f"oracle:{k}:negative-within-degenerate-start")
        if x < -negtol:
            report(ctx, f"{sig0}:negative", jcase(case), f"displacement {x!r} is negative beyond rounding")
            return
        x = max(x, 0.0)
    if x == INF and case.get("L") is not None:
        report(ctx, f"{sig0}:inf-in-periodic", jcase(case), "infinite displacement although every box lap climbs")
        return
    if case.get("L") is not None and x > 1e5 * case["L"]:
        ctx.count(f"oracle:{k}:too-many-laps-for-binary64-position")
        return
    if path.perp == 0.0:
        ctx.count(f"oracle:{k}:head-on-value")
    V, scale = path.uphill(x)
    scale = natural_scale(case, scale)
    well = dE >= WELL * scale and math.isfinite(scale)
    tol = ID_RTOL * dE + ID_ATOL * scale
    ctx.count(f"oracle:{k}:" + ("inf" if x == INF else "finite") + (":well" if well else ":ill"))
    if not well:
        return
    ctx.cls(("identity",) + reg + (x == INF, bclass))
    if x == INF:
        if V > dE + tol:
            report(ctx, f"{sig0}:inf-but-climb-suffices", jcase(case),
                     f"returned inf, but the path accumulates {V!r} > budget {dE!r}")
    else:
        # the returned distance is resolved to 1e-9 relative: bracket it
        delta = 1e-9 * (x + lenscale)
        Vlo = path.uphill(max(0.0, x - delta))[0]
        Vhi = path.uphill(x + delta)[0]
        if not (Vlo - tol <= dE <= Vhi + tol):
            sig = f"{sig0}:inversion"
            if at_turning_point(case, path, dE):
                sig = f"{k}:inversion:budget-within-rounding-of-turning-point"
            report(ctx, sig, jcase(case),
                     f"uphill energy accumulated over the returned distance {x!r} is {V!r}, budget {dE!r} "
                     f"(rel. error {(V - dE) / dE:.3g})")


def isqrt_fr(x, digits=60):
    """sqrt of a non-negative Fraction to ~digits decimal digits, as a Fraction"""
    if x == 0:
        return Fr(0)
    sc = 10 ** (2 * digits)
    return Fr(math.isqrt(int(x * sc)), 10 ** digits)


def oracle_hard(ctx, case, out):
    k = case["kind"]
    if out[0] == "e":
        report(ctx, f"{k}:exception:{out[1]}", jcase(case), f"displacement raised {out[1]} on an admissible input")
        return
    t = out[1]
    v = [Fr(x) for x in case["vel"]]
    s = [Fr(x) for x in case["sep"]]
    a = sum(x * x for x in v)
    b = sum(x * y for x, y in zip(v, s))
    s2 = sum(x * x for x in s)

    def roots(R2):
        c = s2 - R2
        disc = b * b - a * c
        if disc < 0:
            return disc, None, None
        q = isqrt_fr(disc)
        return disc, (b - q) / a, (b + q) / a

    def g(tt, R2):     # |sep - v t|^2 - R^2
        tt = Fr(tt)
        return sum((si - vi * tt) ** 2 for si, vi in zip(s, v)) - R2

    if math.isnan(t):
        report(ctx, f"{k}:nan", jcase(case), "nan")
        return
    # the closest approach b/a is itself only known to rounding: 1e-9 of the time scale |s|/|v|
    tslack = Fr(1, 10 ** 9) * isqrt_fr(s2 / a)
    if k == "hs":
        R2 = 4 * Fr(case["radius"]) ** 2
        disc, t1, t2 = roots(R2)
        scale = b * b + a * s2
        amb = abs(disc) <= Fr(1, 10 ** 9) * scale or abs(b) * abs(b) <= Fr(1, 10 ** 18) * a * s2
        hit = disc >= 0 and b >= 0
        ctx.cls(("hs", hit, t == INF, bool(amb), s2 == R2))
        if t == INF:
            if hit and not amb:
                report(ctx, "hs:inf-but-contact", jcase(case), f"returned inf, first contact at {float(t1)!r}")
            return
        if t < 0 and float(t) < -1e-9 * float(isqrt_fr(s2 / a)):
            report(ctx, "hs:negative", jcase(case), f"negative time {t!r}")
            return
        if not hit:
            if not amb:
                report(ctx, "hs:contact-without-root", jcase(case), f"returned {t!r} but the spheres never touch")
            return
        # on the contact sphere, and not after the closest approach (=> the least root)
        if abs(g(t, R2)) > Fr(1, 10 ** 9) * (s2 + R2) or Fr(t) > (b / a) * (1 + Fr(1, 10 ** 9)) + tslack:
            report(ctx, "hs:not-first-contact", jcase(case), f"returned {t!r}, first contact at {float(t1)!r}")
    else:
        A2, B2 = Fr(case["min"]) ** 2, Fr(case["max"]) ** 2
        disc, t1, _ = roots(A2)
        _, _, tmax = roots(B2)
        scale = b * b + a * s2
        amb = abs(disc) <= Fr(1, 10 ** 9) * scale or b * b <= Fr(1, 10 ** 18) * a * s2
        hit = disc >= 0 and b >= 0
        ctx.cls(("hd", hit, bool(amb)))
        if t == INF:
            report(ctx, "hd:inf", jcase(case), "infinite time although the bond has a maximal length")
            return
        if t < 0 and float(t) < -1e-9 * float(isqrt_fr(s2 / a)):
            report(ctx, "hd:negative", jcase(case), f"negative time {t!r}")
            return
        ok_min = abs(g(t, A2)) <= Fr(1, 10 ** 9) * (s2 + A2) and Fr(t) <= (b / a) * (1 + Fr(1, 10 ** 9)) + tslack
        ok_max = abs(g(t, B2)) <= Fr(1, 10 ** 9) * (s2 + B2) and Fr(t) >= (b / a) * (1 - Fr(1, 10 ** 9)) - tslack
        want_min = hit
        if amb:
            good = ok_min or ok_max
        else:
            good = ok_min if want_min else ok_max
        if not good:
            report(ctx, "hd:not-first-event", jcase(case),
                     f"returned {t!r}; expected {'contact at ' + repr(float(t1)) if want_min else 'maximal length at ' + repr(float(tmax))}")


def oracle_cell(ctx, case, out):
    k = case["kind"]
    if out[0] == "e":
        report(ctx, f"{k}:exception:{out[1]}", jcase(case), f"displacement raised {out[1]}")
        return
    t = out[1]
    speed = max(case["vel"])
    if k == "cell":
        cp = case["a"] * case["t"]
        rate = (case["b0"] if cp > 0 else case["b1"]) * cp
    else:
        rate = case["b0"]
    ctx.cls((k, rate > 0, "neutral" if k == "cell" and case["a"] * case["t"] == 0 else "charged"))
    if rate > 0:
        want = Fr(case["dE"]) / Fr(rate) / Fr(speed)
        if t == INF or t < 0 or abs(Fr(t) - want) > Fr(1, 10 ** 12) * want + Fr(5e-324) * (1 + 1 / Fr(speed)):
            # overflow of the quotient to inf is accepted only when the exact value is not representable
            if not (t == INF and want > Fr(1.7976931348623157e308)):
                report(ctx, f"{k}:inversion", jcase(case), f"returned {t!r}, constant-rate inversion gives {float(want)!r}")
    elif t != INF:
        report(ctx, f"{k}:finite-without-rate", jcase(case), f"returned {t!r} for the non-positive rate {rate!r}")


def oracle(ctx, case, out):
    if not admissible(case):
        ctx.count("inadmissible:" + case["kind"])
        return
    k = case["kind"]
    if k in ("hs", "hd"):
        oracle_hard(ctx, case, out)
    elif k in ("cell", "cell0"):
        oracle_cell(ctx, case, out)
    else:
        oracle_soft(ctx, case, out)


# ------------------------------------------------------------------------------------------------------------------
def with_budget(rng, case):
    """draw the budget relative to the total climb of the path (oracle side), label its class"""
    path = Path(case)
    try:
        if case.get("L") is None:
            T, scale = path.uphill(INF)
        else:
            T, scale = path.uphill(case["L"])       # one lap
            if rng.random() < 0.5:
                T *= rng.choice([1, 1, 2, 3, 7])
    except (ValueError, ZeroDivisionError, OverflowError):
        T, scale = 1.0, 1.0
    if case["kind"] == "ep":
        # infinite climb outside: take the climb up to a random further distance
        T, scale = path.uphill(abs(path.s) + logu(rng, 0.01, 3.0) * case["eq"])
    dE, cl = gen_budget(rng, T, scale)
    if not (dE > 0):
        dE, cl = 5e-324, "denormal"
    if math.isinf(dE):
        dE, cl = 1e300, "huge"
    case["dE"] = dE
    case["_bclass"] = cl
    return case


def corpus(known):
    out = []
    for kf in known:
        w = kf.get("witness")
        if w:
            out.append(unj(w))
    # hand-made boundary cases
    out += [
        {"kind": "cb", "prefactor": 1.6, "L": 1.0, "c1": 1.0, "c2": 1.0, "vel": [1.0, 0.0, 0.0],
         "sep": [0.1907448836841521, 0.30844711493736865, -0.28453409629109017], "dE": 0.009639528698551114},
        {"kind": "cb", "prefactor": 1.6, "L": 1.0, "c1": 1.0, "c2": 1.0, "vel": [1.0, 0.0, 0.0],
         "sep": [0.1907448836841521, -0.30844711493736865, 0.28453409629109017], "dE": 1.5150110651006652},
        {"kind": "ip", "power": 1.0, "prefactor": 1.0, "c1": 1.0, "c2": -1.0, "vel": [0.0, 2.0, 0.0],
         "sep": [0.3, 0.4, 0.1], "dE": 0.5},
        {"kind": "hs", "radius": 0.5, "vel": [1.0, 0.0], "sep": [3.0, 0.0]},
        {"kind": "hs", "radius": 0.5, "vel": [1.0, 0.0], "sep": [3.0, 1.0]},
        {"kind": "hd", "min": 1.0, "max": 2.0, "vel": [1.0, 0.0], "sep": [1.5, 0.0]},
        {"kind": "hd", "min": 1.0, "max": 2.0, "vel": [-1.0, 0.0], "sep": [1.5, 0.0]},
    ]
    return out


def load_known():
    import json, os
    p = os.path.join(os.path.dirname(os.path.dirname(os.path.dirname(os.path.abspath(__file__)))), "known_findings", "C02.json")
    if os.path.exists(p):
        return json.load(open(p))
    return []


def check_batch(ctx, impl, cases):
    reqs = [request(c) for c in cases]
    reps = ctx.model("pot", reqs)
    for case, line, rl in zip(cases, reqs, reps):
        ctx.evaluations += 1
        k = case["kind"]
        ctx.count("kind:" + k)
        out = impl.call(case)
        reg = regime(case)
        ctx.cls(("outcome",) + reg + (out[0], out[1] if out[0] == "e" else ("inf" if out[1] == INF else "fin"),
                                      case.get("_bclass")))
        # ---- correspondence
        parts = rl.split()
        gap = b2f(parts[2]) if len(parts) == 3 else 1.0
        if parts[0] == "v":
            mout = ("v", b2f(parts[1]))
        elif parts[0] == "e":
            mout = ("e", parts[1])
        else:
            mout = ("?", rl)
        if out[0] == "v" and mout[0] == "v":
            agree = same_value(out[1], mout[1])
            if agree and out[1] != mout[1]:
                ctx.count("corr:within-tolerance-not-bit-equal")
        else:
            agree = out == mout
        if not agree:
            if gap <= RTOL and mout[0] != "?":
                ctx.count("corr:boundary-ambiguous")
            else:
                ctx.disagree("pot." + k, {"case": jcase(case), "line": line, "gap": gap}, list(out), list(mout))
        ctx.sample({"request": line, "impl": list(out), "model": rl})
        # ---- oracle on the implementation
        oracle(ctx, case, out)
        ctx.count("impl:" + k + ":" + (out[1] if out[0] == "e" else ("inf" if out[1] == INF else "finite")))


def run(ctx):
    rng = ctx.rng
    impl = Impl()
    ctx.evaluations = 0
    ctx.rule = ("seeded generator per potential over (parameters, regime of the separation: front/behind x inside/on/"
                "outside the minimum sphere x can/cannot reach it, grazing passes, zero/tiny component along the motion, "
                "box faces; budget class relative to the total climb of the path: mid/small/denormal/large/at-climb±ulp/"
                "several laps); a case is non-trivial and distinct by (potential, regime, outcome class, budget class)")
    N = ctx.n(90000, 1500000)
    known = load_known()

    # corpus first (known-finding witnesses are part of every run)
    corp = corpus(known)
    for L in sorted({c.get("L") for c in corp}, key=lambda x: (x is not None, x)):
        group = [c for c in corp if c.get("L") == L]
        impl.set_box(L)
        check_batch(ctx, impl, group)

    shares = [("ip", 0.26), ("lj", 0.2), ("ep", 0.16), ("cb", 0.22), ("hs", 0.07), ("hd", 0.06), ("cell", 0.03)]
    boxes = [1.0, 2.5, 10.0]
    for kind, share in shares:
        n = int(N * share)
        if kind == "cb":
            for L in boxes:
                impl.set_box(L)
                cases = [with_budget(rng, gen_cb(rng, L)) for _ in range(n // len(boxes))]
                for i in range(0, len(cases), 20000):
                    check_batch(ctx, impl, cases[i:i + 20000])
            impl.set_box(None)
            continue
        gen = {"ip": lambda: with_budget(rng, gen_ip(rng)), "lj": lambda: with_budget(rng, gen_hat(rng, "lj")),
               "ep": lambda: with_budget(rng, gen_hat(rng, "ep")), "hs": lambda: gen_hs(rng),
               "hd": lambda: gen_hd(rng), "cell": lambda: gen_cell(rng)}[kind]
        done = 0
        while done < n:
            m = min(20000, n - done)
            check_batch(ctx, impl, [gen() for _ in range(m)])
            done += m


def replay(ctx, case):
    c = unj(case["case"]) if "case" in case else unj(case)
    impl = Impl()
    impl.set_box(c.get("L"))
    out = impl.call(c)
    rl = ctx.model("pot", [request(c)])[0]
    oracle(ctx, c, out)
    return {"impl": list(out), "model": rl, "failures": ctx.failures}
