"""C01 — Sampled configurations follow the Boltzmann distribution of the configured model.

Decided part: the algebraic global-balance identity (JF.Props.C01, built on C05's flow balance) — a theorem.
Tie to the code: the kernel correspondences (C02 displacement inversion, C03 derivatives, C04 thinning, C05 lifting, C18
cell-veto proposals) are re-run here at their quick budgets, so a flipped sign in a displacement branch, a wrong
acceptance ratio, a lifting that picks the wrong unit or a mis-weighted proposal breaks a correspondence THIS check runs.
Failing-history search (supporting evidence, never a proof): the small shipped systems are run for real and the observables
of the states handed to the output handlers (computed here from the recorded states, independently of the output
handlers) are compared with the repository's reference distributions (one-sample Kolmogorov-Smirnov against the reference
CDF) and between algorithmic variants of one model (two-sample KS), with thresholds for strongly correlated samples."""
import importlib, math, os, bisect
from harness import runs

ID = "C01"
THEOREM_MODULES = ["JF.Props.C01", "JF.Props.C01Generator"]
KERNELS = ["c02", "c03", "c04", "c05", "c18"]
COMPONENTS = []      # filled from the kernels below
ASSUMPTIONS = ["infinitesimal stationarity (generator level, JF.Props.C01Generator) is proved from the balance identity under integration by parts "
               "(discharged for a pair on a circle and on a torus); the step from there to invariance under the semigroup of the piecewise-deterministic process, "
               "irreducibility and convergence of histograms are NOT formalised (DESIGN §10); the statistical comparison is a search "
               "for a failing history with deliberately loose thresholds (samples along an event chain are strongly correlated)"]
TRUSTED = ["reference CDF files under jellyfysh/output (taken as the independently computed distributions the property names)"]

for _k in KERNELS:
    try:
        _m = importlib.import_module("harness.props." + _k)
        COMPONENTS = sorted(set(COMPONENTS) | set(getattr(_m, "COMPONENTS", ())))
    except Exception:      # a kernel module that is not there yet is simply not run
        pass

CFG = runs.CFG
OUT = "output/2018_JCP_149_064113/"


def read_cdf(root, rel):
    xs, cs = [], []
    for line in open(os.path.join(root, "jellyfysh", rel)):
        if line.startswith("#") or not line.strip():
            continue
        a, b = line.split()[:2]
        xs.append(float(a)); cs.append(float(b))
    return xs, cs


def ks_one(samples, xs, cs):
    """sup |F_n - F_ref| evaluated at the reference grid"""
    s = sorted(samples)
    n = len(s)
    d = 0.0
    for x, c in zip(xs, cs):
        fn = bisect.bisect_right(s, x) / n
        d = max(d, abs(fn - c))
    return d


def ks_two(a, b):
    a, b = sorted(a), sorted(b)
    d, i, j = 0.0, 0, 0
    while i < len(a) and j < len(b):
        if a[i] <= b[j]:
            i += 1
        else:
            j += 1
        d = max(d, abs(i / len(a) - j / len(b)))
    return d


def crit(n_eff, alpha=1e-9):
    return math.sqrt(-0.5 * math.log(alpha / 2)) / math.sqrt(max(n_eff, 1)) + 0.02


def minimg(a, b, L):
    return [((y - x + l / 2) % l) - l / 2 for x, y, l in zip(a, b, L)]


def norm(v):
    return math.sqrt(sum(c * c for c in v))


def observables(tr):
    """per model the observables of the property, from the recorded written states"""
    meta = tr["meta"]
    L = meta["system_lengths"]
    out = {}
    for w in tr["writes"]:
        st = w.get("state")
        if st is None:
            continue
        if meta["levels"] == 1 and meta["n_roots"] == 2:
            out.setdefault("r", []).append(norm(minimg(st[(0,)][0], st[(1,)][0], L)))
        elif meta["levels"] == 2 and meta["n_per_root"] == 2 and meta["n_roots"] == 2:
            for i in range(2):
                for j in range(2):
                    out.setdefault("r13" if i == j else "r14", []).append(norm(minimg(st[(0, i)][0], st[(1, j)][0], L)))
        elif meta["levels"] == 2 and meta["n_per_root"] == 3 and meta["n_roots"] == 1:
            o = st[(0, 1)][0]
            v1, v2 = minimg(o, st[(0, 0)][0], L), minimg(o, st[(0, 2)][0], L)
            out.setdefault("len", []).extend([norm(v1), norm(v2)])
            c = sum(x * y for x, y in zip(v1, v2)) / (norm(v1) * norm(v2))
            out.setdefault("angle", []).append(math.acos(max(-1.0, min(1.0, c))))
    return out


MODELS = {
    "coulomb_atoms": (["coulomb_atoms/power_bounded.ini", "coulomb_atoms/cell_bounded.ini", "coulomb_atoms/cell_veto.ini"],
                      {"r": OUT + "coulomb_atoms/ReferenceDataCoulombAtoms.dat"}),
    "dipoles": (["dipoles/atom_factors.ini", "dipoles/dipole_factors_inside_first.ini", "dipoles/dipole_factors_outside_first.ini",
                 "dipoles/dipole_factors_ratio.ini", "dipoles/dipole_motion.ini", "dipoles/cell_bounded.ini", "dipoles/cell_veto.ini"],
                {"r13": OUT + "dipoles/ReferenceDataDipoles_13.dat", "r14": OUT + "dipoles/ReferenceDataDipoles_14.dat"}),
    "water_single": (["water/single_molecule.ini"],
                     {"len": OUT + "water/ReferenceLengthSingleMolecule.dat", "angle": OUT + "water/ReferenceAngleSingleMolecule.dat"}),
}
# run lengths (time units) per configuration: (quick, thorough); cell-veto runs are event-dense
T_END = {"coulomb_atoms/power_bounded.ini": (1500, 20000), "coulomb_atoms/cell_bounded.ini": (600, 6000),
         "coulomb_atoms/cell_veto.ini": (60, 600), "dipoles/cell_veto.ini": (25, 250), "dipoles/cell_bounded.ini": (120, 1200),
         "water/single_molecule.ini": (400, 4000)}
HARMONIC_BETA, HARMONIC_K, HARMONIC_R0 = 1.0, 200.0, 0.2
HARMONIC_COMMON = {"HypercubicSetting": {"beta": HARMONIC_BETA},
                   "DisplacedEvenPowerPotential": {"equilibrium_separation": HARMONIC_R0, "prefactor": HARMONIC_K, "power": 2}}
HARMONIC_VARIANTS = {
    "invertible": {"Coulomb": {"event_handler": "pair_event_handler (two_leaf_unit_event_handler)"},
                   "PairEventHandler": {"potential": "displaced_even_power_potential"}},
    "piecewise_bounding": {"Coulomb": {"event_handler": "pair_event_handler (two_leaf_unit_event_handler_with_piecewise_constant_bounding_potential)"},
                           "PairEventHandler": {"potential": "displaced_even_power_potential", "offset": 10.0, "max_displacement": 0.025}},
}
# a bond made of TWO pair factors of the same potential class under two aliases with different parameters (legitimate configuration
# glue: 'alias (real_class_name)' sections of base/factory.py): U(r) = K2 (r - r0)^2 + K4 (r - r0)^4
ANH_BETA, ANH_K2, ANH_K4, ANH_R0 = 1.0, 20.0, 40000.0, 0.2
_ANH_TAGS = "harmonic, quartic"


def anharmonic_overrides(factor_file):
    pair = lambda name: {"create": _ANH_TAGS, "trash": _ANH_TAGS, "event_handler": f"{name}_event_handler (two_leaf_unit_event_handler)",
                         "number_event_handlers": 1, "factor_type_maps": "factor_type_maps"}
    return {
        "HypercubicSetting": {"beta": ANH_BETA},
        "TagActivator": {"taggers": "harmonic (factor_type_map_in_state_tagger), quartic (factor_type_map_in_state_tagger), "
                                    "sampling (no_in_state_tagger), end_of_chain (active_global_state_in_state_tagger), "
                                    "start_of_run (no_in_state_tagger), end_of_run (no_in_state_tagger)"},
        "FactorTypeMaps": {"filename": factor_file},
        "Harmonic": pair("harmonic"), "Quartic": pair("quartic"),
        "HarmonicEventHandler": {"potential": "harmonic_potential (displaced_even_power_potential)"},
        "QuarticEventHandler": {"potential": "quartic_potential (displaced_even_power_potential)"},
        "HarmonicPotential": {"equilibrium_separation": ANH_R0, "prefactor": ANH_K2, "power": 2},
        "QuarticPotential": {"equilibrium_separation": ANH_R0, "prefactor": ANH_K4, "power": 4},
        "EndOfChain": {"create": "end_of_chain, " + _ANH_TAGS, "trash": "end_of_chain, " + _ANH_TAGS},
        "EndOfRun": {"trash": "end_of_chain, " + _ANH_TAGS + ", sampling, end_of_run"},
        "StartOfRun": {"create": _ANH_TAGS + ", sampling, end_of_chain, end_of_run"},
    }


N_CORR = 4     # samples per effectively independent one (conservative; chains are long compared with the sampling interval)


def run(ctx):
    ctx.rule = ("kernel correspondences of C02 C03 C04 C05 C18 at quick budget (their own generators), plus real runs of the small shipped "
                "systems: one case per (model, variant, observable) statistic; class = (model, variant, observable) and the kernels' classes")
    # ---- kernels
    from harness import framework
    known = framework.load_known()
    for k in KERNELS:
        try:
            mod = importlib.import_module("harness.props." + k)
        except Exception as e:
            ctx.notes.append(f"kernel module {k} not available: {e!r}")
            continue
        sub = framework.Ctx(mod.ID, "quick", ctx.seed, ctx.root)
        try:
            mod.run(sub)
        except Exception as e:
            ctx.disagree(f"kernel {mod.ID} correspondence run raised", {"kernel": mod.ID}, "runs", repr(e))
            continue
        ksigs = {x["signature"] for x in known if x.get("property") == mod.ID and x.get("status") == "known"}
        for f in sub.failures:
            if f["signature"] in ksigs:
                ctx.count(f"kernel-known-finding:{mod.ID}")
                continue      # measure-zero / ulp-level boundary findings of the kernels: listed under their own property
            ctx.fail(f"C01:kernel:{mod.ID}:{f['signature']}", f["case"], f"kernel {mod.ID}: {f['what']}")
        for d in sub.disagreements[:5]:
            ctx.disagree(f"kernel {mod.ID}: {d['correspondence']}", d["case"], d["impl"], d["model"])
        ctx.evaluations += sub.evaluations
        for c in sub.classes:
            ctx.cls((mod.ID, c))
        ctx.count(f"kernel-evaluations:{mod.ID}", sub.evaluations)

    # ---- real runs: failing-history search
    jobs = []
    for model, (inis, refs) in MODELS.items():
        for ini in inis:
            q, t = T_END.get(ini, (600, 6000))
            jobs.append({"ini": CFG + ini, "seed": ctx.seed * 10 + 1, "light": True, "model": model, "timeout": 1500,
                         "overrides": {"FinalTimeEndOfRunEventHandler": {"end_of_run_time": ctx.n(q, t)}}})
    # harness-built model (property: "plus harness-built soft-sphere … systems"): two atoms bound by U = k (r - r0)^2, realised by
    # directly invertible pair events and by thinning with a piecewise constant bounding rate; independent reference below
    for label, ov in HARMONIC_VARIANTS.items():
        jobs.append({"ini": CFG + "coulomb_atoms/power_bounded.ini", "seed": ctx.seed * 10 + 2, "light": True, "model": "harmonic_pair",
                     "variant": label, "timeout": 1500,
                     "overrides": {**HARMONIC_COMMON, **ov, "FinalTimeEndOfRunEventHandler": {"end_of_run_time": ctx.n(1200, 12000)}}})
    # anharmonic bond from two aliased sections of one potential class (factor file written into the private scratch tree)
    import os
    ff = os.path.join(ctx.root, "jellyfysh", "config_files", "factor_set_files", "verif_factor_set_anharmonic_pair.txt")
    try:
        with open(ff, "w") as f:
            f.write("[0, 1], Harmonic\n[0, 1], Quartic\n")
        jobs.append({"ini": CFG + "coulomb_atoms/power_bounded.ini", "seed": ctx.seed * 10 + 3, "light": True, "model": "anharmonic_pair",
                     "variant": "two_aliased_sections", "timeout": 1500,
                     "overrides": {**anharmonic_overrides(ff), "FinalTimeEndOfRunEventHandler": {"end_of_run_time": ctx.n(1200, 12000)}}})
    except OSError as e:
        ctx.notes.append(f"anharmonic pair not run: {e!r}")
    trs = runs.run_jobs(ctx.root, jobs, workers=12, timeout=1500)
    obs = {}
    for tr in trs:
        job = tr["job"]
        if tr["end"] != "EndOfRun":
            ctx.fail("C01:run-does-not-finish:" + str(tr["end"])[:40], {"job": job, "exception": (tr.get("exception") or "")[-800:]},
                     "a shipped configuration did not run to its end")
            continue
        obs[(job["model"], job["ini"] if "variant" not in job else job["variant"])] = observables(tr)
        wrong = {k: v for k, v in tr.get("expovariate_rates", {}).items() if k != tr.get("beta")}
        ctx.count("exponential-budgets-drawn", sum(tr.get("expovariate_rates", {}).values()))
        if wrong:
            ctx.fail("C01:energy-budget-not-drawn-at-beta", {"ini": job["ini"], "beta": tr.get("beta"), "rates_used": wrong},
                     "an event handler draws its exponential energy budget with a rate different from the inverse temperature")
        ctx.traces += 1
    stats = {}
    for model, (inis, refs) in MODELS.items():
        for name, ref in refs.items():
            xs, cs = read_cdf(ctx.root, ref)
            per = {}
            for ini in inis:
                s = obs.get((model, CFG + ini), {}).get(name)
                if not s:
                    continue
                per[ini] = s
                d = ks_one(s, xs, cs)
                c = crit(len(s) / N_CORR)
                stats[f"{model}/{ini.split('/')[-1]}/{name}"] = {"n": len(s), "D_ref": round(d, 4), "crit": round(c, 4)}
                ctx.evaluations += 1
                ctx.cls((model, ini, name))
                if d > c:
                    ctx.fail(f"C01:distribution-differs-from-reference:{model}:{name}",
                             {"ini": ini, "observable": name, "samples": len(s), "D": d, "critical": c, "seed": ctx.seed},
                             f"Kolmogorov-Smirnov distance {d:.3f} to the reference distribution exceeds {c:.3f}")
            keys = sorted(per)
            for i in range(len(keys)):
                for j in range(i + 1, len(keys)):
                    a, b = per[keys[i]], per[keys[j]]
                    d = ks_two(a, b)
                    c = crit((len(a) * len(b) / (len(a) + len(b))) / N_CORR)
                    ctx.evaluations += 1
                    if d > c:
                        ctx.fail(f"C01:variants-disagree:{model}:{name}",
                                 {"a": keys[i], "b": keys[j], "observable": name, "D": d, "critical": c, "seed": ctx.seed},
                                 f"two algorithmic variants of one model disagree (two-sample KS {d:.3f} > {c:.3f})")
    # harmonic pair against its numerically integrated Boltzmann distribution p(r) ~ r^2 exp(-beta k (r - r0)^2), r < L/2
    xs = [i * 0.0005 for i in range(1, 1000)]
    w = [x * x * math.exp(-HARMONIC_BETA * HARMONIC_K * (x - HARMONIC_R0) ** 2) for x in xs]
    tot = sum(w)
    acc, cs = 0.0, []
    for v in w:
        acc += v
        cs.append(acc / tot)
    per = {}
    for label in HARMONIC_VARIANTS:
        sm = obs.get(("harmonic_pair", label), {}).get("r")
        if not sm:
            continue
        per[label] = sm
        d = ks_one(sm, xs, cs)
        c = crit(len(sm) / N_CORR)
        stats[f"harmonic_pair/{label}/r"] = {"n": len(sm), "D_ref": round(d, 4), "crit": round(c, 4)}
        ctx.evaluations += 1
        ctx.cls(("harmonic_pair", label, "r"))
        if d > c:
            ctx.fail("C01:distribution-differs-from-reference:harmonic_pair:r",
                     {"variant": label, "samples": len(sm), "D": d, "critical": c, "seed": ctx.seed,
                      "overrides": {**HARMONIC_COMMON, **HARMONIC_VARIANTS[label]}},
                     f"Kolmogorov-Smirnov distance {d:.3f} to the integrated Boltzmann distribution exceeds {c:.3f}")
    if len(per) == 2:
        a, b = per["invertible"], per["piecewise_bounding"]
        d = ks_two(a, b)
        c = crit((len(a) * len(b) / (len(a) + len(b))) / N_CORR)
        ctx.evaluations += 1
        if d > c:
            ctx.fail("C01:variants-disagree:harmonic_pair:r", {"D": d, "critical": c, "seed": ctx.seed},
                     f"directly invertible events and thinned events of one model disagree (two-sample KS {d:.3f} > {c:.3f})")
    # anharmonic pair (two aliased sections of one class) against p(r) ~ r^2 exp(-beta (K2 (r-r0)^2 + K4 (r-r0)^4))
    w = [x * x * math.exp(-ANH_BETA * (ANH_K2 * (x - ANH_R0) ** 2 + ANH_K4 * (x - ANH_R0) ** 4)) for x in xs]
    tot = sum(w)
    acc, cs = 0.0, []
    for v in w:
        acc += v
        cs.append(acc / tot)
    sm = obs.get(("anharmonic_pair", "two_aliased_sections"), {}).get("r")
    if sm:
        d = ks_one(sm, xs, cs)
        c = crit(len(sm) / N_CORR)
        stats["anharmonic_pair/two_aliased_sections/r"] = {"n": len(sm), "D_ref": round(d, 4), "crit": round(c, 4)}
        ctx.evaluations += 1
        ctx.cls(("anharmonic_pair", "two_aliased_sections", "r"))
        if d > c:
            ctx.fail("C01:distribution-differs-from-reference:anharmonic_pair:r",
                     {"variant": "two_aliased_sections", "samples": len(sm), "D": d, "critical": c, "seed": ctx.seed,
                      "overrides": anharmonic_overrides("<factor file: [0, 1], Harmonic / [0, 1], Quartic>")},
                     f"Kolmogorov-Smirnov distance {d:.3f} to the integrated Boltzmann distribution exceeds {c:.3f}")
    ctx.extra["statistics"] = stats
    ctx.sample({"statistics_head": dict(list(stats.items())[:4])})
