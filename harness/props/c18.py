"""C18 — Cell-veto proposals pick target cells exactly in proportion to their bound rates.

Correspondence (bit for bit, no libm function is involved):
  * `walker.build`   : Lean model `JF.Walker.build` (binary64 reading) vs the real `Walker.__init__/_build_table`
                       (total rate, mean rate, every row of the table: items and rate bits, or the exception raised);
  * `walker.sample`  : `JF.Walker.sampleCell` vs the real `Walker.sample_cell` with `random.choice` / `random.uniform`
                       replaced in the namespace of `jellyfysh.event_handler.walker` by draw-controlled functions
                       (the arguments `0.0, mean_rate` handed to `uniform` are compared as well);
  * `handler.init`   : `JF.Walker.initHandler` vs the real `LeafUnitCellVetoEventHandler` /
                       `CompositeObjectCellVetoEventHandler` `.initialize` on real `CuboidPeriodicCells` with a scripted
                       estimator: the walker domain (non-nearby cells), the stored bounds, all 2*dim walker tables;
  * `handler.send`   : `JF.Walker.sendEventTime` vs the real `send_event_time` (candidate event time, target cell,
                       `_bounding_event_rate`, or the exception) under controlled draws.
Oracle (evaluated on the implementation for every case): exact selection probabilities of the implementation's own
table with `fractions.Fraction` (and, for a subset, of the black-box `sample_cell` by bisection of its switch point)
against rate/total; total == sum; zero-rate items unreachable over the *closed* lower end of the draw range; target
cell == cell at the sampled offset; confirmation bound == the estimator's bound for that offset, direction and sign;
proposal rate == total * speed."""
import contextlib, math, os, sys
from fractions import Fraction as Fr
from harness.drive import f2b, b2f

ID = "C18"
THEOREM_MODULES = ["JF.Props.C18"]
COMPONENTS = ["walker"]
ASSUMPTIONS = [
    "oracle quantifier: n >= 1 finite rates >= 0 with 1e-280 <= total <= 1e280 (outside: correspondence only; "
    "an all-zero or underflowing rate vector raises ZeroDivisionError in code and model alike)",
    "float reading: selection probabilities of the binary64 table equal rate/total up to (n+10)*2^-50 absolute "
    "(accumulated rounding of the pairing loop); exact equality is the exact-arithmetic theorem",
    "random.choice is uniform over the rows and random.uniform(0, m) is uniform on [0, m) (CPython); the harness "
    "controls their return values and checks their arguments",
    "cell_min/cell_max of the periodic cell system are inputs of the handler model (their construction is C16); "
    "active-unit positions are generated inside cells and on lower cell boundaries; the theorems about `translate` "
    "assume exact cell boundaries (cell_min = i*side, cell_max = (i+1)*side, L = n*side)",
    "not covered: the mediator's lookup of the target cell's occupant and the system-level fact that a pending "
    "cell-veto event's active cell is still current at commit time (DESIGN.md `vetoCellCurrent`, owned by the system "
    "model); the time-slicing of the in-state inside send_event_time is C07's",
]
TRUSTED = ["Lean native Float (+ - * / and comparisons are the hardware's IEEE-754 binary64 operations)",
           "JF.Num.Ops.ffmod / ftoInt (exact integer fmod / int()) used by the model of `translate`",
           "CPython 3.12 builtin sum (Neumaier compensated summation) is modelled by JF.Walker.pysum and compared "
           "bit for bit in this run"]

SIG_F4 = "Walker.sample_cell:zero-rate-item-returned-at-uniform-draw-0.0"
SIG_F4H = "CellVetoEventHandler.send_event_time:AssertionError-zero-bound-offset-sampled-at-uniform-draw-0.0"


def nxt(x, k=1):
    for _ in range(abs(k)):
        x = math.nextafter(x, math.inf if k > 0 else -math.inf)
    return x


def fail_known(ctx, sig, case, what, cap=3):
    """a known finding is reported on its first few witnesses only (the rest are counted), so that the
    framework's cap on recorded failures cannot crowd out other signatures"""
    key = "known-finding-occurrences:" + sig
    if ctx.hist.get(key, 0) < cap:
        ctx.fail(sig, case, what)
    ctx.count(key)


class Draws:
    """stands in for the module `random` inside jellyfysh.event_handler.walker / cell_veto_event_handler"""

    def __init__(self):
        self.k = 0; self.x = None; self.u = None; self.e = 1.0
        self.log = []
        self.sampled = []           # (walker, returned item) of every Walker.sample_cell call

    def choice(self, seq):
        self.log.append(("choice", len(seq)))
        return seq[self.k % len(seq)]

    def uniform(self, a, b):
        self.log.append(("uniform", a, b))
        if self.x is not None:
            return self.x
        return a + (b - a) * self.u        # CPython's random.uniform

    def expovariate(self, lambd):
        self.log.append(("expovariate", lambd))
        return self.e


# ----------------------------------------------------------------------------------------------- rate vectors
def gen_rates(rng, thorough):
    """-> (class label, list of floats)"""
    c = rng.random()
    if c < 0.10:
        n = rng.choice([1, 1, 2, 2, 3])
    elif c < 0.55:
        n = rng.randint(2, 9)
    elif c < 0.85:
        n = rng.randint(10, 60)
    elif c < 0.97 or not thorough:
        n = rng.randint(61, 400)
    else:
        n = rng.randint(401, 3000)
    kind = rng.choice(["uniform", "uniform", "equal", "zeros", "zeros", "dominant", "geometric", "geometric",
                       "integers", "meanhit", "twolevel", "tiny", "bounds-like", "nearequal"])
    if kind == "uniform":
        r = [rng.random() * 10 for _ in range(n)]
    elif kind == "equal":
        v = rng.choice([0.1, 1.0, 0.3, 1e-3, 7.0, rng.random(), 2.0 ** rng.randint(-40, 40), 1 / 3])
        r = [v] * n
    elif kind == "zeros":
        p = rng.choice([0.1, 0.5, 0.9])
        r = [0.0 if rng.random() < p else rng.random() for _ in range(n)]
        if rng.random() < 0.3:
            r = [(-0.0 if (x == 0.0 and rng.random() < 0.5) else x) for x in r]
    elif kind == "dominant":
        r = [rng.random() * 1e-3 for _ in range(n)]
        r[rng.randrange(n)] = rng.choice([1.0, 1e6, 1e3 * rng.random()])
    elif kind == "geometric":
        span = rng.choice([3, 10, 30, 30, 60])
        r = [10.0 ** rng.uniform(-span, 0) for _ in range(n)]
        if rng.random() < 0.3:
            r.sort(reverse=rng.random() < 0.5)
    elif kind == "integers":
        r = [float(rng.randint(0, rng.choice([2, 5, 100]))) for _ in range(n)]
    elif kind == "meanhit":
        # several items exactly at the mean, the others symmetric around it
        m = float(rng.randint(1, 50))
        r = []
        while len(r) < n:
            if rng.random() < 0.4 or len(r) == n - 1:
                r.append(m)
            else:
                d = float(rng.randint(0, int(m)))
                r += [m - d, m + d]
        r = r[:n] if len(r) == n else r
        rng.shuffle(r)
    elif kind == "twolevel":
        a, b = rng.random(), rng.random() * 100
        r = [a if rng.random() < 0.7 else b for _ in range(n)]
    elif kind == "tiny":
        s = 2.0 ** rng.randint(-1074, -900)
        r = [rng.randint(0, 5) * s for _ in range(n)]
    elif kind == "nearequal":
        v = rng.random() + 0.5
        r = [nxt(v, rng.randint(-3, 3)) for _ in range(n)]
    else:  # like the bound tables of a cell-veto handler: max(b, 0) of signed smooth values
        r = [max(math.sin(0.7 * i + rng.random()) / (1 + (i % 7)) ** 2, 0.0) for i in range(n)]
    return kind, r


CORPUS = [
    ("F4-witness", [0.0, 1.0]),
    ("unit-test-dir0", [0.3, 0.7, 0.8, 1.1, 0.1, 0.2, 0.3]),
    ("unit-test-dir1", [0.4, 0.7, 0.9, 1.0, 0.3, 0.4, 0.5]),
    ("single", [2.5]),
    ("single-zero", [0.0]),
    ("empty", []),
    ("all-zero", [0.0, 0.0, 0.0]),
    ("negative", [1.0, -1.0, 3.0]),
    ("nan", [1.0, math.nan]),
    ("inf", [1.0, math.inf]),
    ("overflow", [1e308, 1e308, 1e308]),
    ("underflow-mean", [5e-324, 0.0]),
    ("neg-zero", [-0.0, 1.0, -0.0]),
    ("equal-0.1", [0.1] * 10),
    ("equal-0.1x3", [0.1] * 3),
    ("mean-exact", [1.0, 2.0, 3.0]),
    ("two-equal", [1.0, 1.0]),
    ("spread", [1e-30, 1.0, 1e30]),
    ("spread2", [1e-300, 1e-10, 1.0, 1e-200, 0.0]),
    ("cancel-sum", [1e16, 1.0, 1.0, 1.0, 1.0]),
]


def transport(obj, how):
    """what a Walker goes through in real use besides plain construction: `Tagger.initialize` deep-copies a prepared event handler
    (number_event_handlers > 1), a dump pickles it with dill and `resume.py` unpickles it, a resumed run may be dumped again.
    The transported object must be observationally the object that was built (same table, same total rate, same selections)."""
    if how == "fresh":
        return obj
    if how == "deepcopy":
        import copy
        return copy.deepcopy(obj)
    import dill
    for _ in range(2 if how == "dill-twice" else 1):
        obj = dill.loads(dill.dumps(obj))
    return obj


TRANSPORTS = ["fresh", "fresh", "deepcopy", "dill", "dill-twice"]


def impl_build(wmod, rates, how="fresh"):
    """-> ('ok', walker, items) or ('err:<Type>', None, None)"""
    items = [wmod.WalkerItem(i, r) for i, r in enumerate(rates)]
    try:
        w = wmod.Walker(items)
    except (ZeroDivisionError, AssertionError, IndexError) as e:
        return "err:" + type(e).__name__, None, None
    try:
        w = transport(w, how)
    except Exception as e:
        return "err:transport:" + how + ":" + type(e).__name__, None, None
    return "ok", w, items


def impl_table_line(w):
    toks = ["ok", f2b(w._total_rate), f2b(w._mean_rate), str(len(w._table))]
    for row in w._table:
        if len(row) == 2:
            toks.append(f"p:{row[0].item}:{f2b(row[0].rate)}:{row[1].item}:{f2b(row[1].rate)}")
        elif len(row) == 1:
            toks.append(f"s:{row[0].item}:{f2b(row[0].rate)}")
        else:
            toks.append("row-of-length-%d" % len(row))
    return " ".join(toks)


SCALE = 2 ** 1074


def fint(x):
    """a finite double as an integer multiple of 2^-1074 (exact)"""
    return int(Fr(x) * SCALE)


def table_check(table, mean_rate, rates, index_of_item=lambda it: it):
    """exact selection probabilities of the implementation's own table (row uniform, x uniform on [0, mean)) against
    rate/total, in exact integer arithmetic.  -> (worst item, its |P - rate/total| as a Fraction, problem or None)"""
    n = len(rates)
    mean = fint(mean_rate)
    nrows = len(table)
    num = [0] * n                       # P_i * nrows * mean  (in units of 2^-1074)
    bad = None
    for row in table:
        s = min(max(fint(row[0].rate), 0), mean)      # measure of {x in [0, mean) : x <= s.rate}
        num[index_of_item(row[0].item)] += s
        if len(row) == 2:
            num[index_of_item(row[1].item)] += mean - s
        elif s != mean:
            bad = "a one-entry row is left with probability %g (IndexError)" % (1 - s / mean)
    r = [fint(x) for x in rates]
    tot = sum(r)
    den = nrows * mean * tot
    worst, werr = 0, -1
    for i in range(n):
        e = abs(num[i] * tot - r[i] * nrows * mean)       # |P_i - r_i/tot| * den
        if e > werr:
            worst, werr = i, e
    return worst, Fr(werr, den), bad


def in_quantifier(rates):
    if not rates or any((not math.isfinite(r)) or r < 0 for r in rates):
        return False
    return max(rates) <= 1e280 and 1e-280 <= math.fsum(rates) <= 1e280


def walker_part(ctx, wmod, draws):
    rng = ctx.rng
    N = ctx.n(4000, 40000)
    chunk = 800
    walker_cases(ctx, wmod, draws, list(CORPUS))
    for start in range(0, N, chunk):
        walker_cases(ctx, wmod, draws, [gen_rates(rng, not ctx.quick) for _ in range(min(chunk, N - start))])
    walker_blackbox(ctx, wmod, draws)


def walker_cases(ctx, wmod, draws, cases):
    rng = ctx.rng
    n_samples = 0
    # one driver session over all cases: build, then the samples of that table
    req, plan = [], []
    impls = []
    for ci, (kind, rates) in enumerate(cases):
        req.append("build " + " ".join(f2b(r) for r in rates)); plan.append(("build", ci))
        req.append("sum " + " ".join(f2b(r) for r in rates)); plan.append(("sum", ci))
        how = rng.choice(TRANSPORTS)
        status, w, items = impl_build(wmod, rates, how)
        ctx.count("walker-transport:" + how)
        impls.append((status, w))
        if status != "ok":
            continue
        mean = w._mean_rate
        nrows = len(w._table)
        if nrows == 0:
            continue
        ks = {0, nrows - 1} | {rng.randrange(nrows) for _ in range(4)}
        # rows that hold a zero-rate small item, rows with a single entry
        zr = [k for k, row in enumerate(w._table) if row[0].rate == 0.0][:3]
        sg = [k for k, row in enumerate(w._table) if len(row) == 1][:2]
        for k in sorted(ks | set(zr) | set(sg)):
            row = w._table[k]
            s = row[0].rate
            xs = [0.0, s, nxt(s, 1), mean * rng.random(), mean * (1 - 2.0 ** -53), 5e-324, nxt(mean, -1)]
            if s > 0:
                xs.append(nxt(s, -1))
            if kind == "F4-witness":
                xs = [0.0, 5e-324, 0.5, 0.25]
            for x in xs:
                if not (0.0 <= x <= mean):
                    continue
                req.append(f"sample {k} {f2b(x)}"); plan.append(("sample", ci, k, x))
    rep = ctx.model("walker", req)

    for (p, line, rl) in zip(plan, req, rep):
        op, ci = p[0], p[1]
        kind, rates = cases[ci]
        status, w = impls[ci]
        n = len(rates)
        case = {"rates": [float(r).hex() for r in rates]} if n <= 64 else \
               {"rates_hex_first64": [float(r).hex() for r in rates[:64]], "n": n, "generator": kind, "case_index": ci}
        if op == "sum":
            impl = f2b(sum(rates)) if rates else f2b(0.0)
            if impl != rl:
                ctx.disagree("walker.sum (CPython sum vs JF.Walker.pysum)", case, impl, rl)
            continue
        if op == "build":
            ctx.evaluations += 1
            ctx.count("rates:" + kind)
            impl = impl_table_line(w) if status == "ok" else status
            if impl != rl:
                ctx.disagree("walker.build", case, impl[:400], rl[:400])
            ctx.sample({"request": line[:200], "impl": impl[:200], "model": rl[:200]})
            inq = in_quantifier(rates)
            if status != "ok":
                ctx.cls(("build", status, inq))
                if inq:
                    ctx.fail("Walker.__init__:raises-on-valid-rates:" + status, case,
                             f"constructor raised {status} for non-negative finite rates with positive total")
                continue
            npair = sum(1 for r in w._table if len(r) == 2)
            nz = sum(1 for r in rates if r == 0.0)
            ctx.cls(("build", "ok", min(n, 5) if n < 5 else (n > 60) + 5, nz == 0, npair == 0, npair == n - 1,
                     any(r == w._mean_rate for r in rates)))
            if not inq:
                continue
            # ---- oracle on the implementation's own table
            tot = Fr(sum(fint(r) for r in rates), SCALE)
            if abs(Fr(w.total_rate) - tot) > Fr(n + 2, 2 ** 53) * tot:
                ctx.fail("Walker.total_rate:not-the-sum", case, f"total_rate {w.total_rate!r} vs exact sum {float(tot)!r}")
            if len(w._table) != n:
                ctx.fail("Walker._table:row-count", case, f"{len(w._table)} rows for {n} items")
            worst, err, bad = table_check(w._table, w._mean_rate, rates)
            if bad:
                ctx.fail("Walker._table:single-row-below-mean", case, bad)
            tol = Fr(n + 10, 2 ** 50)
            ctx.extra["max_probability_error_in_units_of_n_ulp"] = max(
                ctx.extra.get("max_probability_error_in_units_of_n_ulp", 0.0), float(err * 2 ** 53 / n))
            if err > tol:
                ctx.fail("Walker:selection-probability-not-rate/total", {**case, "item": worst},
                         f"P(item {worst}) differs from rate/total = {rates[worst] / float(tot)!r} by {float(err)!r}")
            # zero-rate items: reachable at all?  (closed lower end of the draw range: x = 0.0 is a possible draw)
            for k, row in enumerate(w._table):
                it = row[0]
                if rates[it.item] == 0.0 and len(row) == 2:
                    if it.rate > 0.0:
                        ctx.fail("Walker:zero-rate-item-selected-with-positive-probability", {**case, "row": k},
                                 f"row {k} gives zero-rate item {it.item} the interval [0, {it.rate!r}]")
                if len(row) == 2 and rates[row[1].item] == 0.0 and Fr(row[0].rate) < Fr(w._mean_rate):
                    ctx.fail("Walker:zero-rate-item-selected-with-positive-probability", {**case, "row": k},
                             f"row {k} gives zero-rate item {row[1].item} the interval ({row[0].rate!r}, mean]")
            continue
        # ---- sample
        _, _, k, x = p
        n_samples += 1
        draws.k, draws.x, draws.log, draws.sampled = k, x, [], []
        try:
            got = w.sample_cell()
            impl = f"ok {got}"
        except (IndexError, AssertionError, ZeroDivisionError) as e:
            got = None
            impl = "err:" + type(e).__name__
        ctx.evaluations += 1
        scase = {**case, "row": k, "uniform_draw": float(x).hex()}
        if impl != rl:
            ctx.disagree("walker.sample", scase, impl, rl)
        if draws.log != [("choice", len(w._table)), ("uniform", 0.0, w._mean_rate)] or \
                f2b(draws.log[1][1]) != f2b(0.0):
            ctx.disagree("walker.sample (draw requests)", scase, repr(draws.log),
                         repr([("choice", len(w._table)), ("uniform", 0.0, w._mean_rate)]))
        row = w._table[k]
        ctx.cls(("sample", len(row), x == 0.0, x == row[0].rate, x < row[0].rate, row[0].rate == 0.0))
        if in_quantifier(rates):
            if got is None:
                if x < w._mean_rate:
                    ctx.fail("Walker.sample_cell:raises", scase, f"sample_cell raised {impl}")
            elif rates[got] == 0.0:
                if x == 0.0:
                    fail_known(ctx, SIG_F4, scase, f"uniform draw 0.0 on row {k} returns item {got} whose rate is 0.0")
                else:
                    ctx.fail("Walker.sample_cell:zero-rate-item-returned-at-positive-draw", scase,
                             f"draw {x!r} on row {k} returns item {got} whose rate is 0.0")
    ctx.count("walker-samples", n_samples)



def walker_blackbox(ctx, wmod, draws):
    # ---- black-box oracle: selection probabilities measured through the real sample_cell by bisection
    rng = ctx.rng
    M = ctx.n(150, 1500)
    for _ in range(M):
        kind, rates = gen_rates(rng, False)
        if len(rates) > 80 or not in_quantifier(rates):
            continue
        status, w, _ = impl_build(wmod, rates, rng.choice(TRANSPORTS))
        if status != "ok":
            if status.startswith("err:transport"):
                ctx.fail("Walker:cannot-be-copied-or-pickled", {"rates": [float(r).hex() for r in rates]}, status)
            continue
        n = len(rates)
        mean = w._mean_rate
        P = [Fr(0)] * n
        ok = True
        for k in range(len(w._table)):
            def f(u):
                # the real `random.uniform(a, b)` arithmetic on the arguments the walker passes, driven by u in [0, 1)
                draws.k, draws.x, draws.u, draws.log, draws.sampled = k, None, u, [], []
                return w.sample_cell()
            try:
                lo, hi = 2.0 ** -60, 1 - 2.0 ** -53
                a, b = f(lo), f(hi)
                if a == b:
                    P[a] += 1
                    continue
                # largest u with f(u) == a
                while nxt(lo, 1) < hi:
                    mid = lo + (hi - lo) / 2
                    if mid <= lo or mid >= hi:
                        break
                    if f(mid) == a:
                        lo = mid
                    else:
                        hi = mid
                t = Fr(lo)
                P[a] += t; P[b] += 1 - t
            except (IndexError, AssertionError) as e:
                ok = False
                ctx.fail("Walker.sample_cell:raises", {"rates": [r.hex() for r in rates], "row": k},
                         f"sample_cell raised {e!r} for a draw u inside (0, 1)")
                break
        ctx.evaluations += 1
        ctx.count("blackbox-probability-tables")
        if ok:
            tot = Fr(sum(fint(r) for r in rates), SCALE)
            for i in range(n):
                if abs(P[i] / len(w._table) - Fr(rates[i]) / tot) > Fr(n + 10, 2 ** 50):
                    ctx.fail("Walker:selection-probability-not-rate/total", {"rates": [r.hex() for r in rates], "item": i},
                             f"measured through sample_cell: P(item {i}) = {float(P[i] / len(w._table))!r}, "
                             f"rate/total = {float(Fr(rates[i]) / tot)!r}")
                    break


# ----------------------------------------------------------------------------------------------- handler part
HANDLER_CONFIGS = [
    # (dimension, system lengths or float for cubic, cells per side, neighbour layers, handler kind, charge name)
    (2, [1.0, 1.5], [5, 4], 1, "leaf", "q"),
    (2, 1.0, [4, 4], 1, "leaf", None),
    (1, 1.0, [7], 1, "leaf", "q"),
    (1, [3.7], [9], 2, "leaf", "q"),
    (3, 1.0, [4, 4, 4], 1, "leaf", "q"),
    (3, [1.0, 2.0, 0.7], [4, 5, 6], 1, "composite", "q"),
    (2, [2.3, 1.1], [7, 6], 2, "composite", None),
    (2, 1.0, [3, 3], 1, "leaf", "q"),          # no non-nearby cell: Walker([]) raises ZeroDivisionError
    (2, [1.0, 1.0], [3, 6], 1, "leaf", "q"),   # one direction fully nearby
    (3, 0.9, [7, 3, 5], 1, "leaf", "q"),
    (2, [1.0, 1.3], [12, 9], 1, "leaf", "q"),
]


def handler_config(ctx, cfg, draws, seed, nsend):
    """runs inside the main process; resets jellyfysh.setting afterwards"""
    import random as pyrandom
    from unittest import mock
    import jellyfysh.setting as setting
    from jellyfysh.setting import hypercubic_setting, hypercuboid_setting
    from jellyfysh.activator.internal_state.cell_occupancy.cells.cuboid_periodic_cells import CuboidPeriodicCells
    from jellyfysh.estimator import Estimator
    from jellyfysh.lifting import Lifting
    from jellyfysh.base.node import Node
    from jellyfysh.base.unit import Unit
    from jellyfysh.base.time import Time
    from jellyfysh.event_handler.leaf_unit_cell_veto_event_handler import LeafUnitCellVetoEventHandler
    from jellyfysh.event_handler.composite_object_cell_veto_event_handler import CompositeObjectCellVetoEventHandler

    dim, lengths, per_side, nl, kind, charge = cfg
    rng = pyrandom.Random(seed)
    beta = rng.choice([1.0, 2.0, 0.37])
    name = f"{dim}d-{per_side}-nl{nl}-{kind}-{'q' if charge else 'nocharge'}"
    setting.reset()
    try:
        if isinstance(lengths, float):
            hypercubic_setting.HypercubicSetting(beta=beta, dimension=dim, system_length=lengths)
            L = [lengths] * dim
        else:
            hypercuboid_setting.HypercuboidSetting(beta=beta, dimension=dim, system_lengths=lengths)
            L = list(lengths)
        setting.set_number_of_root_nodes(4)
        levels = 2 if kind == "composite" else 1
        setting.set_number_of_nodes_per_root_node(2 if kind == "composite" else 1)
        setting.set_number_of_node_levels(levels)
        cells = CuboidPeriodicCells(per_side, nl)
        all_cells = list(cells.yield_cells())
        index_of = {c: i for i, c in enumerate(all_cells)}
        ncell = len(all_cells)

        # scripted estimator: signed bounds, some exactly zero, some with both signs non-positive
        script = {}
        style = rng.choice(["mixed", "mixed", "positive", "sparse"])

        def derivative_bound(lower_corner, upper_corner, direction, calculate_lower_bound=False):
            key = (tuple(lower_corner), tuple(upper_corner), direction)
            if key not in script:
                c = rng.random()
                if style == "positive":
                    ub, lb = rng.random() + 0.01, -rng.random() - 0.01
                elif style == "sparse" and c < 0.6:
                    ub, lb = rng.choice([0.0, -0.0, -rng.random()]), rng.choice([0.0, rng.random()])
                elif c < 0.15:
                    ub, lb = 0.0, -rng.random()
                elif c < 0.3:
                    ub, lb = -rng.random(), -rng.random() - 1.0
                elif c < 0.4:
                    ub, lb = rng.random(), rng.random() * 0.5
                else:
                    ub, lb = rng.uniform(-0.5, 2.0) * 10.0 ** rng.randint(-3, 1), rng.uniform(-2.0, 0.5)
                script[key] = (ub, lb)
            return script[key]

        def script_bound(c, d):
            zc = cells.zero_cell
            return derivative_bound([c.cell_min[e] - zc.cell_max[e] for e in range(dim)],
                                    [c.cell_max[e] - zc.cell_min[e] for e in range(dim)], d, True)

        est = mock.MagicMock(spec_set=Estimator)
        est.derivative_bound.side_effect = derivative_bound
        cfactor = rng.choice([1.0, 0.5, 1.7])
        est.charge_correction_factor.side_effect = lambda c: c * cfactor
        est.potential.number_charge_arguments = 2
        est.potential.number_separation_arguments = 1
        if kind == "leaf":
            handler = LeafUnitCellVetoEventHandler(estimator=est, charge=charge)
        else:
            handler = CompositeObjectCellVetoEventHandler(estimator=est, lifting=mock.MagicMock(spec_set=Lifting),
                                                          charge=charge)
        cell_level = 1
        init_status = "ok"
        with open(os.devnull, "w") as dn, contextlib.redirect_stdout(dn):
            try:
                handler.initialize(cells, cell_level)
            except (ZeroDivisionError, AssertionError, KeyError, IndexError) as e:
                init_status = "err:" + type(e).__name__
        ctx.count("handler-config:" + name + ":" + init_status)
        if init_status == "ok":
            # the initialized handler's alias tables as they are after a deep copy of the handler / a dump and a resume
            how = rng.choice(TRANSPORTS)
            ctx.count("handler-walkers-transport:" + how)
            try:
                by_ident = {c.identifier: c for c in all_cells}

                def carried(w):
                    # the copy's table and rates are what is under test; its items are copies of the Cell objects, which the
                    # handler (copied as a whole in real use) would find in its equally copied cell system: map them back
                    w2 = transport(w, how)
                    if w2 is not w:
                        for row in w2._table:
                            for it in row:
                                it.item = by_ident[it.item.identifier]
                    return w2
                handler._upper_bound_walker = [carried(w) for w in handler._upper_bound_walker]
                handler._lower_bound_walker = [carried(w) for w in handler._lower_bound_walker]
            except Exception as e:
                ctx.fail("CellVetoEventHandler:alias-table-cannot-be-copied-or-pickled:" + how, {"config": list(cfg), "estimator_seed": seed},
                         f"{how} of an initialized handler's Walker raised {e!r}")

        # ---- model session
        grid_toks = [str(dim), str(nl)]
        for d in range(dim):
            n_d = cells._cells_per_side[d]
            one_d = [next(c for c in all_cells if c.identifier[d] == i and
                          all(c.identifier[e] == 0 for e in range(dim) if e != d)) for i in range(n_d)]
            grid_toks += [str(n_d), f2b(L[d])] + [f2b(c.cell_min[d]) for c in one_d] + [f2b(c.cell_max[d]) for c in one_d]
        zero = cells.zero_cell
        dom_cells = [c for c in all_cells if c not in cells.nearby_cells(zero)]
        est_toks = []
        for c in dom_cells:
            lc = [c.cell_min[d] - zero.cell_max[d] for d in range(dim)]
            uc = [c.cell_max[d] - zero.cell_min[d] for d in range(dim)]
            for d in range(dim):
                ub, lb = derivative_bound(lc, uc, d, True)
                est_toks += [f2b(ub), f2b(lb)]
        req = ["hinit " + " ".join(grid_toks + est_toks)]
        case0 = {"config": list(cfg), "estimator_seed": seed, "beta": beta}

        sends = []
        if init_status == "ok":
            for ul in "ul":
                for d in range(dim):
                    req.append(f"htable {ul} {d}")
            # geometry probes: every (active cell, offset) pair on small grids, a sample otherwise
            pairs = [(a, r) for a in range(ncell) for r in dom_cells]
            if len(pairs) > 4000:
                pairs = rng.sample(pairs, 4000)
            for a, r in pairs:
                req.append(f"translate {a} {index_of[r]}")
            # send_event_time cases
            dom_index = {c: j for j, c in enumerate(dom_cells)}
            for s in range(nsend):
                d = rng.randrange(dim)
                speed = rng.choice([1.0, rng.random() + 0.1, 10.0 ** rng.uniform(-3, 3)])
                vel = [0.0] * dim
                vel[d] = speed
                q = rng.choice([1.0, -1.0, 2.0, -0.5, rng.uniform(-3, 3)]) if charge else 1.0
                cf = q * cfactor if charge else 1.0 * cfactor
                acell = all_cells[rng.randrange(ncell)]
                if rng.random() < 0.15:
                    pos = [acell.cell_min[e] for e in range(dim)]
                else:
                    pos = [acell.cell_min[e] + (acell.cell_max[e] - acell.cell_min[e]) * rng.uniform(0.05, 0.95)
                           for e in range(dim)]
                walker = (handler._upper_bound_walker if cf > 0 else handler._lower_bound_walker)[d]
                nrows = len(walker._table)
                k = rng.randrange(nrows)
                zrows = [kk for kk, row in enumerate(walker._table) if row[0].rate == 0.0]
                row = walker._table[k]
                c = rng.random()
                if s < 2 and zrows:
                    k = zrows[0]; x = 0.0           # corpus: the F4 consequence at handler level
                elif c < 0.08:
                    x = 0.0
                elif c < 0.2:
                    x = row[0].rate
                elif c < 0.3:
                    x = nxt(row[0].rate, 1)
                else:
                    x = None
                u = rng.random()
                if x is not None and not (0.0 <= x <= walker._mean_rate):
                    x = None
                xx = x if x is not None else 0.0 + (walker._mean_rate - 0.0) * u
                e = rng.expovariate(beta) if rng.random() < 0.9 else rng.choice([0.0, 1e-300, 700.0])
                tq = float(rng.choice([0, 1, 17, 2 ** 31, rng.randint(0, 2 ** 40)]))
                tr = rng.choice([0.0, rng.random(), 1 - 2.0 ** -53])
                sends.append(dict(vel=vel, q=q, cf=cf, pos=pos, k=k, x=x, u=u, xx=xx, e=e, tq=tq, tr=tr, d=d,
                                  speed=speed, acell=acell))
                req.append("hsend " + " ".join([f2b(v) for v in vel] + [f2b(cf)] + [f2b(p) for p in pos] +
                                               [f2b(tq), f2b(tr), str(k), f2b(xx), f2b(e)]))
        rep = ctx.model("walker", req)
        ri = iter(rep)

        # ---- handler.init
        rl = next(ri)
        if init_status != "ok":
            impl = init_status
        else:
            keys = list(handler._derivative_bounds)
            impl = " ".join(["ok", str(len(keys))] + [str(index_of[c]) for c in keys] +
                            [f2b(w.total_rate) for w in handler._upper_bound_walker] +
                            [f2b(w.total_rate) for w in handler._lower_bound_walker])
        ctx.evaluations += 1
        ctx.cls(("hinit", init_status, dim, nl, kind, charge is not None, style))
        if impl != rl:
            ctx.disagree("handler.init", case0, impl[:300], rl[:300])
        if init_status != "ok":
            # an empty domain or an all-zero walker is outside the property's quantifier (total > 0): correspondence only
            vectors = [[max(b, 0.0) for b in col] for d in range(dim) for col in
                       ([script_bound(c, d)[0] for c in dom_cells], [-script_bound(c, d)[1] for c in dom_cells])]
            if dom_cells and all(in_quantifier(v) for v in vectors):
                ctx.fail("CellVetoEventHandler.initialize:raises:" + init_status, case0,
                         "initialize raised although every walker has non-negative bounds with a positive total")
            return
        # the walker domain is the set of non-nearby cells, keyed by themselves (relative_cell(cell, zero) == cell)
        if list(handler._derivative_bounds) != dom_cells:
            ctx.fail("CellVetoEventHandler.initialize:domain-is-not-the-non-nearby-cells", case0,
                     "keys of _derivative_bounds differ from the cells outside nearby_cells(zero_cell)")
        # stored bounds are the estimator's
        for c in dom_cells:
            lc = [c.cell_min[d] - zero.cell_max[d] for d in range(dim)]
            uc = [c.cell_max[d] - zero.cell_min[d] for d in range(dim)]
            for d in range(dim):
                ub, lb = derivative_bound(lc, uc, d, True)
                st = handler._derivative_bounds[c][d]
                if f2b(st[0]) != f2b(ub) or f2b(st[1]) != f2b(-lb):
                    ctx.fail("CellVetoEventHandler.initialize:stored-bound-differs-from-estimator",
                             {**case0, "cell": list(c.identifier), "direction": d}, f"stored {st!r}, estimator {(ub, lb)!r}")
        dom_index = {c: j for j, c in enumerate(dom_cells)}
        for ul, walkers in (("u", handler._upper_bound_walker), ("l", handler._lower_bound_walker)):
            for d in range(dim):
                rl = next(ri)
                w = walkers[d]
                toks = ["ok", f2b(w._total_rate), f2b(w._mean_rate), str(len(w._table))]
                for row in w._table:
                    if len(row) == 2:
                        toks.append(f"p:{dom_index[row[0].item]}:{f2b(row[0].rate)}:{dom_index[row[1].item]}:{f2b(row[1].rate)}")
                    else:
                        toks.append(f"s:{dom_index[row[0].item]}:{f2b(row[0].rate)}")
                impl = " ".join(toks)
                ctx.evaluations += 1
                if impl != rl:
                    ctx.disagree("handler.init (walker table)", {**case0, "walker": ul, "direction": d}, impl[:300], rl[:300])
                # oracle: probabilities of this table vs max(bound, 0) / sum
                rates = [max(handler._derivative_bounds[c][d][0 if ul == "u" else 1], 0.0) for c in dom_cells]
                tot = Fr(sum(fint(r) for r in rates), SCALE)
                n = len(rates)
                worst, err, bad = table_check(w._table, w._mean_rate, rates, lambda it: dom_index[it])
                if bad or err > Fr(n + 10, 2 ** 50):
                    ctx.fail("CellVetoEventHandler:offset-probability-not-bound/total",
                             {**case0, "walker": ul, "direction": d, "cell": list(dom_cells[worst].identifier)},
                             bad or f"P differs from bound/total = {rates[worst] / float(tot)!r} by {float(err)!r}")
                if abs(Fr(w.total_rate) - tot) > Fr(n + 2, 2 ** 53) * tot:
                    ctx.fail("CellVetoEventHandler:total-rate-not-sum-of-bounds", {**case0, "walker": ul, "direction": d},
                             f"{w.total_rate!r} vs {float(tot)!r}")
        # ---- geometry: translate
        targets_of = {}
        for a, r in pairs:
            rl = next(ri)
            t = cells.translate(all_cells[a], r)
            impl = f"ok {index_of[t]}"
            ctx.evaluations += 1
            if impl != rl:
                ctx.disagree("handler.translate", {**case0, "cell": a, "offset": index_of[r]}, impl, rl)
            want = tuple((all_cells[a].identifier[d] + r.identifier[d]) % cells._cells_per_side[d] for d in range(dim))
            if t.identifier != want:
                ctx.fail("PeriodicCells.translate:not-the-cell-at-the-offset",
                         {**case0, "cell": list(all_cells[a].identifier), "offset": list(r.identifier)},
                         f"translate gives {t.identifier}, offset addition gives {want}")
            targets_of.setdefault(a, []).append(t)
        if len(pairs) == ncell * len(dom_cells):
            for a, ts in targets_of.items():
                if len(set(ts)) != len(ts) or set(ts) != set(all_cells) - set(cells.nearby_cells(all_cells[a])):
                    ctx.fail("CellVetoEventHandler:targets-are-not-the-non-nearby-cells-once-each",
                             {**case0, "cell": list(all_cells[a].identifier)}, "possible targets != non-nearby cells of the active cell")
            ctx.count("translate:all-pairs-grids")
        # ---- send_event_time
        for sd in sends:
            rl = next(ri)
            d = sd["d"]
            walker = (handler._upper_bound_walker if sd["cf"] > 0 else handler._lower_bound_walker)[d]
            ts = Time(sd["tq"], sd["tr"])
            ident = (rng.randrange(4),)
            if kind == "leaf":
                unit = Unit(identifier=ident, position=list(sd["pos"]), charge={"q": sd["q"]} if charge else None,
                            velocity=list(sd["vel"]), time_stamp=ts)
                root = Node(unit)
                active_unit = unit
            else:
                # the active leaf usually sits in another cell than its composite object (the cell-level unit)
                half = [rng.uniform(-1.4, 1.4) * L[e] / cells._cells_per_side[e] for e in range(dim)]
                root_unit = Unit(identifier=ident, position=list(sd["pos"]), charge=None,
                                 velocity=[v / 2 for v in sd["vel"]], time_stamp=Time(sd["tq"], sd["tr"]))
                root = Node(root_unit, weight=1.0)
                a_unit = Unit(identifier=ident + (0,), position=[(p + h) % l for p, h, l in zip(sd["pos"], half, L)],
                              charge={"q": sd["q"]} if charge else None, velocity=list(sd["vel"]), time_stamp=ts)
                b_unit = Unit(identifier=ident + (1,), position=[(p - h) % l for p, h, l in zip(sd["pos"], half, L)],
                              charge={"q": -sd["q"]} if charge else None)
                root.add_child(Node(a_unit, weight=0.5))
                root.add_child(Node(b_unit, weight=0.5))
                active_unit = a_unit
            draws.k, draws.x, draws.u, draws.e, draws.log = sd["k"], sd["x"], sd["u"], sd["e"], []
            scase = {**case0, "velocity": [v.hex() for v in sd["vel"]], "charge": sd["q"], "position": [p.hex() for p in sd["pos"]],
                     "row": sd["k"], "uniform_draw": float(sd["xx"]).hex(), "expovariate": float(sd["e"]).hex(),
                     "time_stamp": [sd["tq"].hex(), float(sd["tr"]).hex()]}
            draws.sampled = []
            try:
                t, tc = handler.send_event_time([root])
                impl = f"ok {f2b(t.quotient)} {f2b(t.remainder)} {index_of[tc[0]]} {f2b(handler._bounding_event_rate)}"
                exc = None
            except (AssertionError, ZeroDivisionError, IndexError, KeyError) as ex:
                impl = "err:" + type(ex).__name__
                exc = ex
            ctx.evaluations += 1
            ctx.cls(("hsend", kind, sd["cf"] > 0, impl[:3], sd["x"] == 0.0, d, len(walker._table[sd["k"]])))
            ctx.sample({"request": req[0][:60] + " ... hsend", "impl": impl, "model": rl})
            if impl != rl:
                ctx.disagree("handler.send", scase, impl, rl)
            want_log = [("choice", len(walker._table)), ("uniform", 0.0, walker._mean_rate)]
            if draws.log[:2] != want_log or (exc is None and draws.log[2:] != [("expovariate", beta)]):
                ctx.disagree("handler.send (draw requests)", scase, repr(draws.log), repr(want_log + [("expovariate", beta)]))
            # ---- oracle
            rel = draws.sampled[0][1] if draws.sampled else None
            idx = 0 if sd["cf"] > 0 else 1
            if (draws.sampled and (len(draws.sampled) != 1 or draws.sampled[0][0] is not walker)) or \
                    (exc is None and not draws.sampled):
                ctx.fail("CellVetoEventHandler.send_event_time:does-not-sample-once-from-the-walker-of-direction-and-sign",
                         scase, f"{len(draws.sampled)} sample_cell calls; expected one on the "
                                f"{'upper' if sd['cf'] > 0 else 'lower'}-bound walker of direction {d}")
                continue
            if exc is not None:
                zero_bound = rel is not None and max(handler._derivative_bounds[rel][d][idx], 0.0) == 0.0
                if sd["xx"] == 0.0 and zero_bound and isinstance(exc, AssertionError):
                    fail_known(ctx, SIG_F4H, scase, "uniform draw 0.0 samples an offset whose bound is <= 0; `assert self._bounding_event_rate > 0.0` trips")
                elif sd["cf"] != 0.0 and sd["xx"] < walker._mean_rate:      # uniform(0, mean) never returns mean itself
                    ctx.fail("CellVetoEventHandler.send_event_time:raises:" + type(exc).__name__, scase, f"raised {exc!r}")
                continue
            acell = sd["acell"]
            want = tuple((acell.identifier[e] + rel.identifier[e]) % cells._cells_per_side[e] for e in range(dim))
            if tc[0].identifier != want:
                ctx.fail("CellVetoEventHandler.send_event_time:target-is-not-the-cell-at-the-sampled-offset", scase,
                         f"active cell {acell.identifier}, offset {rel.identifier}, target {tc[0].identifier}")
            acf = abs(sd["cf"])
            lc = [rel.cell_min[e] - zero.cell_max[e] for e in range(dim)]
            uc = [rel.cell_max[e] - zero.cell_min[e] for e in range(dim)]
            ub, lb = derivative_bound(lc, uc, d, True)
            bound = ub if sd["cf"] > 0 else -lb
            if f2b(handler._bounding_event_rate) != f2b(bound * acf):
                ctx.fail("CellVetoEventHandler.send_event_time:confirmation-bound-is-not-the-bound-of-the-offset", scase,
                         f"_bounding_event_rate {handler._bounding_event_rate!r}, bound(offset, direction, sign)*|factor| = {bound * acf!r}")
            # proposal rate = (sum of max(bound, 0)) * |charge factor| * speed
            rates = [max(handler._derivative_bounds[c][d][idx], 0.0) for c in dom_cells]
            rate = sum(Fr(r) for r in rates) * Fr(acf) * Fr(sd["speed"])
            disp = (Fr(t.quotient) + Fr(t.remainder)) - (Fr(sd["tq"]) + Fr(sd["tr"]))
            wantd = Fr(sd["e"]) / rate
            if abs(disp - wantd) > Fr(1, 10 ** 12) * wantd + Fr(1, 2 ** 51) * max(1, wantd) and wantd < Fr(10) ** 300:
                ctx.fail("CellVetoEventHandler.send_event_time:proposal-rate-is-not-total-rate-times-speed", scase,
                         f"displacement {float(disp)!r}, expovariate/(total*speed) = {float(wantd)!r}")
    finally:
        setting.reset()


def replay(ctx, case):
    """re-run a recorded walker-level case ({"rates": [hex...], optional "row", "uniform_draw"}) on implementation and model"""
    import jellyfysh.event_handler.walker as wmod
    c = case.get("case", case)
    if "rates" not in c:
        return {"note": "handler-level case: re-run `./check C18` with the recorded seed; the case names config, estimator seed and draws"}
    rates = [float.fromhex(h) for h in c["rates"]]
    draws = Draws()
    saved, wmod.random = wmod.random, draws
    try:
        status, w, _ = impl_build(wmod, rates)
        out = {"rates": rates, "impl_build": impl_table_line(w) if status == "ok" else status}
        req = ["build " + " ".join(f2b(r) for r in rates)]
        if status == "ok" and "row" in c and "uniform_draw" in c:
            draws.k, draws.x = c["row"], float.fromhex(c["uniform_draw"])
            try:
                out["impl_sample"] = w.sample_cell()
            except Exception as e:  # noqa
                out["impl_sample"] = "err:" + type(e).__name__
            req.append(f"sample {c['row']} {f2b(draws.x)}")
        out["model"] = ctx.model("walker", req)
        return out
    finally:
        wmod.random = saved


def run(ctx):
    import jellyfysh.event_handler.walker as wmod
    import jellyfysh.event_handler.abstracts.cell_veto_event_handler as cvmod
    draws = Draws()
    saved = (wmod.random, cvmod.random)
    wmod.random = draws
    cvmod.random = draws
    orig_sample = wmod.Walker.sample_cell

    def recording_sample_cell(self):
        r = orig_sample(self)
        draws.sampled.append((self, r))
        return r
    wmod.Walker.sample_cell = recording_sample_cell
    ctx.rule = ("walker: seeded generator over (size class 1..3000, pattern: uniform/equal/zeros/dominant/geometric over up to "
                "60 decades/integers/items exactly at the mean/two-level/subnormal/near-equal/bound-like) plus a fixed corpus "
                "of boundary vectors; draws: every boundary of the chosen rows (0.0, the small item's rate and its "
                "neighbours, just below the mean) plus interior points; a case is non-trivial and distinct by (outcome, "
                "size class, zeros present, no pair rows, n-1 pair rows, an item exactly at the mean) / (row kind, draw "
                "position relative to the threshold, zero-rate small item); handler: real cell-veto handlers on real "
                "periodic cell systems (1-3 dimensions, 1-2 neighbour layers, cubic and cuboid boxes, leaf and composite "
                "in-states, with/without charge) with a scripted estimator (signed, zero and non-positive bounds)")
    try:
        walker_part(ctx, wmod, draws)
        nsend = ctx.n(300, 2500)
        reps = ctx.n(1, 3)
        for rep in range(reps):
            for ci, cfg in enumerate(HANDLER_CONFIGS):
                # corpus first: a fixed estimator script whose tables contain zero-bound offsets (handler-level witness of F4)
                seed = 12345 if (rep == 0 and ci == 0) else ctx.rng.randrange(2 ** 30)
                handler_config(ctx, cfg, draws, seed, nsend)
    finally:
        wmod.random, cvmod.random = saved
        wmod.Walker.sample_cell = orig_sample
