"""C13 — In-states are isolated copies; only commits change the global state.

Correspondence: random sequences of extract / mutate-through-the-returned-objects / insert /
extract-active / extract-global run against the real `TreeStateHandler` and against the Lean model
`JF.Store` (component `store`).  After every operation both sides print a deep snapshot of the global
state (tree, lifting dictionary, lifted sets) and of every live branch in which every mutable object
(position list, velocity list, Time) appears as `@<identity><content>`; identities are renamed on both
sides by first occurrence in the session, so the snapshots agree iff values AND aliasing structure agree.

Oracle (on the implementation alone, by value snapshots and `is`): shape/values/freshness of every
extracted branch, non-interference of every mutation of a not-yet-inserted branch, read-back and frame of
every insert, the independent-active rule, and "operations other than insert do not change the global
state".  Second part: real runs (mediator built by the factory as run.py does) in subprocesses with the
state handler's methods wrapped: between two commits the global state does not change, after a commit it
equals the committed out-state on its identifiers and is unchanged elsewhere."""
import json, os, re, subprocess, sys
from harness.drive import f2b

ID = "C13"
THEOREM_MODULES = ["JF.Props.C13", "JF.Props.C13Refine"]
COMPONENTS = ["store", "output"]
ASSUMPTIONS = ["identifiers are tuples of non-negative integers; trees have one or two levels "
               "(setting.number_of_node_levels in {1,2}); a client mutates branches only through the operations "
               "modelled in JF.Store.Op (in-place item assignment, Time.update, re-binding a field to a NEW object "
               "or None)",
               "the independent-active oracle is evaluated on states whose lifting state is consistent "
               "(a composite object is lifted iff at least one of its point masses is)"]
TRUSTED = ["CPython object identity (`id`, `is`) as the meaning of 'the same object'",
           "the iteration order of the Python sets `_lifted_identifiers[n]` is not modelled: with two node levels the "
           "active branches are compared after sorting by identifier on both sides (with one level the dictionary order "
           "is modelled and compared exactly)",
           "real-run part: bound methods of mediator._state_handler are wrapped (no source hooks); the global state is "
           "read from the state handler's internals at every extract/insert call"]

EXC = (IndexError, KeyError, AssertionError, TypeError, AttributeError)
SPECIAL = [0.0, -0.0, 1.0, -1.0, 0.5, 1e300, -1e-300, 5e-324, 2.0 ** 52, float("inf")]


def sid(ident):
    return ".".join(str(i) for i in ident) if len(ident) else "-"


def rfloat(rng):
    c = rng.random()
    if c < 0.15:
        return rng.choice(SPECIAL)
    if c < 0.3:
        return float(rng.randint(-5, 5))
    return rng.uniform(-2.0, 2.0)


# ----------------------------------------------------------------------------------------------
# configurations
# ----------------------------------------------------------------------------------------------

def gen_config(rng):
    """tree shape + settings; `consistent`: setting agrees with the tree (the property's quantifier)"""
    levels = rng.choice([1, 2, 2])
    nroots = rng.choice([1, 1, 2, 2, 3, 4, 6])
    dim = rng.choice([1, 2, 3])
    per = rng.choice([1, 2, 2, 3, 4]) if levels == 2 else 1
    shape = [per if levels == 2 else 0 for _ in range(nroots)]
    consistent = True
    set_levels, set_per = levels, per
    c = rng.random()
    if c < 0.03:            # setting says one level, tree has children
        levels = 2; per = rng.choice([1, 2]); shape = [per] * nroots; set_levels = 1; set_per = per; consistent = False
    elif c < 0.06 and levels == 2:   # nodes-per-root setting differs from the tree
        set_per = per + rng.choice([-1, 1]); consistent = False
        if set_per < 1:
            set_per = per + 1
    elif c < 0.09 and levels == 2:   # ragged tree
        shape = [rng.randint(0, 4) for _ in range(nroots)]; consistent = False
    share = rng.random() < 0.2
    shared = {"e": 1.0}
    roots = []
    tok = 0
    for r in range(nroots):
        kids = []
        for _ in range(shape[r]):
            kids.append({"charge": ("S" if share and rng.random() < 0.5 else rng.choice([None, tok])), "pos": [rfloat(rng) for _ in range(dim)]})
            tok += 1
        rc = None if shape[r] else ("S" if share and rng.random() < 0.5 else rng.choice([None, tok]))
        tok += 1
        roots.append({"charge": rc, "pos": [rfloat(rng) for _ in range(dim)], "children": kids})
    # verbosity is a legitimate dimension of use (`-vv`): the handler caches `isEnabledFor(DEBUG)` and takes other code paths then
    debug = rng.random() < 0.3
    return {"levels": set_levels, "per": set_per, "dim": dim, "roots": roots, "consistent": consistent, "debug": debug}


def init_line(cfg):
    """charge tokens: None -> '-', the shared dictionary -> 999999, own dictionary -> its number"""
    def ch(c):
        return "-" if c is None else ("999999" if c == "S" else str(c))
    out = ["init", str(cfg["levels"]), str(cfg["per"]), str(cfg["dim"]), str(len(cfg["roots"]))]
    for r in cfg["roots"]:
        out += [str(len(r["children"])), ch(r["charge"])] + [f2b(x) for x in r["pos"]]
        for k in r["children"]:
            out += [ch(k["charge"])] + [f2b(x) for x in k["pos"]]
    return " ".join(out)


# ----------------------------------------------------------------------------------------------
# the real session
# ----------------------------------------------------------------------------------------------

class Real:
    def __init__(self, cfg):
        import jellyfysh.setting as setting
        from jellyfysh.base.node import Node
        from jellyfysh.base.particle import Particle
        from jellyfysh.base.time import Time
        from jellyfysh.state_handler.tree_state_handler import TreeStateHandler
        from jellyfysh.state_handler.lifting_state.tree_lifting_state import TreeLiftingState
        from jellyfysh.state_handler.physical_state.tree_physical_state import TreePhysicalState
        self.Time = Time
        self.cfg = cfg
        setting.reset()
        setting.number_of_node_levels = cfg["levels"]
        setting.number_of_root_nodes = len(cfg["roots"])
        setting.number_of_nodes_per_root_node = cfg["per"]
        self.setting = setting
        self._log_state = None
        if cfg.get("debug"):
            import logging
            lg = logging.getLogger("jellyfysh")
            self._log_state = (logging.root.manager.disable, lg.level, lg.propagate, list(lg.handlers))
            logging.disable(logging.NOTSET)
            lg.setLevel(logging.DEBUG)
            lg.propagate = False
            lg.handlers = [logging.NullHandler()]
        self.charge_tok = {}
        shared = {"e": 1.0}
        self.keep = [shared]

        def charge(c):
            if c is None:
                return None
            d = shared if c == "S" else {"e": float(c)}
            self.keep.append(d)
            self.charge_tok[id(d)] = 999999 if c == "S" else c
            return d
        self.roots = []
        for r in cfg["roots"]:
            n = Node(Particle(position=list(r["pos"]), charge=charge(r["charge"])))
            for k in r["children"]:
                n.add_child(Node(Particle(position=list(k["pos"]), charge=charge(k["charge"]))))
            self.roots.append(n)
        self.sh = TreeStateHandler(TreePhysicalState(), TreeLiftingState())
        self.sh.initialize(self.roots)
        self.phys = self.sh._physical_state
        self.lift = self.sh._lifting_state
        self.live = []          # [cnode, iso]
        self.last_active = None

    def close(self):
        self.setting.reset()
        if self._log_state is not None:
            import logging
            lg = logging.getLogger("jellyfysh")
            logging.disable(self._log_state[0])
            lg.setLevel(self._log_state[1])
            lg.propagate = self._log_state[2]
            lg.handlers = self._log_state[3]
            self._log_state = None

    # ---- snapshots -------------------------------------------------------------------------
    def ref(self, o):
        if o is None:
            return "N"
        self.keep.append(o)
        if isinstance(o, self.Time):
            return f"@{id(o)}({f2b(o.quotient)},{f2b(o.remainder)})"
        return f"@{id(o)}[" + ",".join(f2b(x) for x in o) + "]"

    def ctok(self, c):
        return "N" if c is None else f"c{self.charge_tok.get(id(c), 'unknown')}"

    def global_units(self):
        """[(ident, node)] per root, preorder, read from the internals"""
        out = []
        for r, n in enumerate(self.phys._root_nodes):
            out.append([((r,), n)] + [((r, i), k) for i, k in enumerate(n.children)])
        return out

    def dump(self):
        g = []
        for br in self.global_units():
            us = []
            for ident, n in br:
                v, t = self.lift._lifting_dictionary.get(ident, (None, None))
                us.append(",".join([sid(ident), self.ref(n.value.position), self.ctok(n.value.charge), self.ref(v),
                                    self.ref(t), f2b(n.weight)]))
            g.append("{" + ";".join(us) + "}")
        d = [f"{sid(k)}={self.ref(v)}{self.ref(t)}" for k, (v, t) in self.lift._lifting_dictionary.items()]
        li = self.lift._lifted_identifiers
        l1 = "/".join(sid(i) for i in sorted(li.get(1, ()))) or "-"
        l2 = "/".join(sid(i) for i in sorted(li.get(2, ()))) or "-"
        b = [self.dump_branch(c) + ("i" if iso else "a") for c, iso in self.live]
        return f"G {' '.join(g)} | D {' '.join(d)} | L1 {l1} | L2 {l2} | B {' '.join(b)}"

    def cnodes(self, c):
        out = [c]
        for k in c.children:
            out += self.cnodes(k)
        return out

    def dump_branch(self, c):
        us = []
        for n in self.cnodes(c):
            u = n.value
            us.append(",".join([sid(u.identifier), self.ref(u.position), self.ctok(u.charge), self.ref(u.velocity),
                                self.ref(u.time_stamp), f2b(n.weight)]))
        return "{" + ";".join(us) + "}"

    # value snapshots for the oracle (no identities)
    @staticmethod
    def val(o):
        if o is None:
            return None
        if hasattr(o, "quotient"):
            return ("T", f2b(o.quotient), f2b(o.remainder))
        return tuple(f2b(x) for x in o)

    def gval(self):
        out = {}
        for br in self.global_units():
            for ident, n in br:
                v, t = self.lift._lifting_dictionary.get(ident, (None, None))
                out[ident] = (self.val(n.value.position), id(n.value.charge) if n.value.charge is not None else None,
                              self.val(v), self.val(t))
        return out

    def bval(self, c):
        return [(n.value.identifier, self.val(n.value.position), id(n.value.charge) if n.value.charge is not None else None,
                 self.val(n.value.velocity), self.val(n.value.time_stamp), f2b(n.weight)) for n in self.cnodes(c)]

    def gobjs(self):
        s = set()
        for br in self.global_units():
            for ident, n in br:
                s.add(id(n.value.position))
        for v, t in self.lift._lifting_dictionary.values():
            s.add(id(v)); s.add(id(t))
        return s

    def bobjs(self, c):
        s = []
        for n in self.cnodes(c):
            for o in (n.value.position, n.value.velocity, n.value.time_stamp):
                if o is not None:
                    s.append(id(o))
        return s

    # ---- operations ------------------------------------------------------------------------
    def unit(self, b, u):
        if b >= len(self.live):
            raise KeyError("live")
        c = self.live[b][0]
        if u == 0:
            return c
        if u - 1 >= len(c.children):
            raise KeyError("unit")
        return c.children[u - 1]

    def apply(self, op):
        """returns (status, A-section)"""
        k = op[0]
        a = "-"
        try:
            if k == "extract":
                c = self.sh.extract_from_global_state(tuple(op[1]))
                self.live.append([c, True])
            elif k == "active":
                ids = list(self.lift.yield_independent_lifted_identifiers())
                self.last_active = ids
                a = "/".join(sid(i) for i in ids) or "-"
                brs = self.sh.extract_active_global_state()
                brs = sorted(brs, key=lambda c: [x for n in self.cnodes(c) for x in n.value.identifier])
                self.live += [[c, True] for c in brs]
            elif k == "global":
                self.live += [[c, False] for c in self.sh.extract_global_state()]
            elif k == "insert":
                sel = [self.unit(b, u) for b, u in op[1]]
                for b, _ in op[1]:
                    self.live[b][1] = False
                self.sh.insert_into_global_state(sel)
            elif k == "setpos":
                self.unit(op[1], op[2]).value.position[op[3]] = op[4]
            elif k == "newpos":
                self.unit(op[1], op[2]).value.position = list(op[3])
            elif k == "setvel":
                self.unit(op[1], op[2]).value.velocity[op[3]] = op[4]
            elif k == "newvel":
                self.unit(op[1], op[2]).value.velocity = None if op[3] is None else list(op[3])
            elif k == "tsupd":
                self.unit(op[1], op[2]).value.time_stamp.update(self.Time(op[3], op[4]))
            elif k == "newts":
                self.unit(op[1], op[2]).value.time_stamp = None if op[3] is None else self.Time(op[3][0], op[3][1])
            else:
                raise ValueError(k)
            return "ok", a
        except EXC as e:
            return "err:" + type(e).__name__, a


def op_line(op):
    k = op[0]
    if k == "extract":
        return "extract " + sid(op[1])
    if k in ("active", "global"):
        return k
    if k == "insert":
        return "insert " + " ".join(f"{b}:{u}" for b, u in op[1])
    if k in ("setpos", "setvel"):
        return f"{k} {op[1]} {op[2]} {op[3]} {f2b(op[4])}"
    if k == "newpos":
        return f"newpos {op[1]} {op[2]} " + " ".join(f2b(x) for x in op[3])
    if k == "newvel":
        return f"newvel {op[1]} {op[2]} " + ("-" if op[3] is None else " ".join(f2b(x) for x in op[3]))
    if k == "tsupd":
        return f"tsupd {op[1]} {op[2]} {f2b(op[3])} {f2b(op[4])}"
    if k == "newts":
        return f"newts {op[1]} {op[2]} " + ("-" if op[3] is None else f"{f2b(op[3][0])} {f2b(op[3][1])}")
    raise ValueError(k)


# ----------------------------------------------------------------------------------------------
# oracle: the property statement evaluated on the implementation
# ----------------------------------------------------------------------------------------------

def expected_branch_ids(cfg_shape, ident):
    """ancestors + node + all descendants, preorder"""
    r = ident[0]
    if len(ident) == 1:
        return [(r,)] + [(r, i) for i in range(cfg_shape[r])]
    return [(r,), tuple(ident)]


def check_extracted(real, c, ident, gbefore, others_objs, fails, case, tag):
    shape = [len(n.children) for n in real.phys._root_nodes]
    got = real.bval(c)
    want = expected_branch_ids(shape, ident)
    if [g[0] for g in got] != want:
        fails.append((f"{tag}:shape", f"branch of {ident} holds {[g[0] for g in got]}, expected {want}"))
        return
    for (i, p, ch, v, t, _w) in got:
        if (p, ch, v, t) != gbefore[i]:
            fails.append((f"{tag}:values", f"unit {i} of branch {ident} reads {(p, v, t)}, global state has {gbefore[i]}"))
    objs = real.bobjs(c)
    if len(set(objs)) != len(objs) or (set(objs) & others_objs):
        fails.append((f"{tag}:not-fresh", f"branch of {ident} shares a position/velocity/time-stamp object with the global "
                      f"state, another branch or itself"))


def expected_active(real):
    """independent-active rule from the lifting dictionary; None if the lifting state is inconsistent"""
    lifted = set(real.lift._lifting_dictionary.keys())
    if real.cfg["levels"] == 1:
        return sorted(lifted)
    out = []
    for r, n in enumerate(real.phys._root_nodes):
        kids = [(r, i) for i in range(len(n.children))]
        lk = [k for k in kids if k in lifted]
        if ((r,) in lifted) != bool(lk):
            return None
        if lk and len(lk) == len(kids):
            out.append((r,))
        else:
            out += lk
    return sorted(out)


def run_session(ctx, cfg, ops_or_gen, rng=None, maxlen=0):
    """Run one session on the implementation.  `ops_or_gen` is a list of ops (replay) or None (generate
    adaptively with rng).  Returns (ops, lines, impl_replies, fails) where fails = [(signature, what, index)]."""
    real = Real(cfg)
    ops, lines, replies, fails = [], [init_line(cfg)], [], []
    replies.append(("ok", "-", real.dump()))
    try:
        i = 0
        while True:
            if ops_or_gen is None:
                if i >= maxlen:
                    break
                batch = gen_ops(rng, real)
            else:
                if i >= len(ops_or_gen):
                    break
                batch = [ops_or_gen[i]]
            for op in batch:
                i += 1
                k = op[0]
                gb = real.gval()
                bb = [real.bval(c) for c, _ in real.live]
                isob = [iso for _, iso in real.live]
                nlive = len(real.live)
                allobjs = real.gobjs()
                for c, _ in real.live:
                    allobjs |= set(real.bobjs(c))
                if k == "insert":
                    try:
                        sel_vals = [real.bval(real.unit(b, u)) for b, u in op[1]]
                    except KeyError:
                        sel_vals = None
                st, a = real.apply(op)
                ops.append(op); lines.append(op_line(op)); replies.append((st, a, real.dump()))
                if ctx is not None:
                    ctx.count("op:" + k + (":err" if st != "ok" else ""))
                ga = real.gval()
                ba = [real.bval(c) for c, _ in real.live]
                f = []
                # --- the property, clause by clause
                if k in ("extract", "active", "global"):
                    if ga != gb:
                        f.append((f"{k}:global-state-changed", "a read-only operation changed the global state"))
                    if ba[:nlive] != bb:
                        f.append((f"{k}:other-branch-changed", "a read-only operation changed an existing branch"))
                if k == "extract" and st == "ok":
                    check_extracted(real, real.live[-1][0], tuple(op[1]), gb, allobjs, f, op, "extract")
                if k == "active" and st == "ok" and cfg["consistent"]:
                    want = expected_active(real)
                    if want is None:
                        if ctx is not None:
                            ctx.count("active:lifting-state-inconsistent(oracle skipped)")
                    else:
                        got = sorted(real.last_active)
                        if ctx is not None:
                            ctx.count("active:oracle-evaluated")
                            ctx.cls(("active", cfg["levels"], min(len(want), 3), any(len(w) == 1 for w in want),
                                     any(len(w) == 2 for w in want)))
                        if got != want:
                            f.append(("active:set", f"independent active identifiers {got}, expected {want}"))
                        new = real.live[nlive:]
                        if len(new) != len(want):
                            f.append(("active:set", f"{len(new)} branches for {want}"))
                        else:
                            seen = set(allobjs)
                            for (c, _), ident in zip(new, want):
                                check_extracted(real, c, ident, gb, seen, f, op, "active")
                                seen |= set(real.bobjs(c))
                if k in ("setpos", "newpos", "setvel", "newvel", "tsupd", "newts") and op[1] < nlive and isob[op[1]]:
                    if ga != gb:
                        f.append((f"mutate:{k}:leaks-into-global-state",
                                  "mutation of a not-yet-inserted branch changed the global state"))
                    for j in range(nlive):
                        if j != op[1] and ba[j] != bb[j]:
                            f.append((f"mutate:{k}:leaks-into-other-branch",
                                      f"mutation of not-yet-inserted branch {op[1]} changed branch {j}"))
                    if ctx is not None and st == "ok":
                        ctx.cls(("mutate-isolated", k, op[2] == 0))
                if k == "insert" and sel_vals is not None:
                    if ba != bb:
                        f.append(("insert:branch-changed", "insert changed the values read through a branch"))
                    if st == "ok":
                        want = dict(gb)
                        for br in sel_vals:
                            for (i2, p, ch, v, t, _w) in br:
                                want[i2] = (p, want[i2][1], v, t)
                        if ga != want:
                            bad = [i2 for i2 in ga if ga[i2] != want[i2]]
                            inserted = {u[0] for br in sel_vals for u in br}
                            sig = "insert:readback" if any(b in inserted for b in bad) else "insert:changed-elsewhere"
                            f.append((sig, f"after insert identifiers {bad} read {[ga[b] for b in bad]}, expected {[want[b] for b in bad]}"))
                        if ctx is not None:
                            ctx.cls(("insert", min(len(sel_vals), 3), any(len(br) > 1 for br in sel_vals),
                                     any(u[3] is not None for br in sel_vals for u in br),
                                     any(u[3] is None and gb[u[0]][2] is not None for br in sel_vals for u in br)))
                for sig, what in f:
                    fails.append((sig, what, len(ops) - 1))
            if fails and ops_or_gen is None:
                break
    finally:
        real.close()
    return ops, lines, replies, fails


# ----------------------------------------------------------------------------------------------
# generator (adaptive: looks at the real session to pick meaningful targets)
# ----------------------------------------------------------------------------------------------

def gen_ident(rng, real, valid=True):
    shape = [len(n.children) for n in real.phys._root_nodes]
    r = rng.randrange(len(shape))
    if not valid:
        c = rng.random()
        if c < 0.2:
            return []
        if c < 0.4:
            return [len(shape) + rng.randint(0, 2)]
        if c < 0.7:
            return [r, shape[r] + rng.randint(0, 2)]
        return [r, rng.randint(0, max(0, shape[r])), rng.randint(0, 1)]
    if shape[r] and rng.random() < 0.6:
        return [r, rng.randrange(shape[r])]
    return [r]


def gen_vec(rng, real):
    return [rfloat(rng) for _ in range(real.cfg["dim"])]


def gen_time(rng):
    c = rng.random()
    if c < 0.1:
        return (float("inf"), float("inf"))
    return (float(rng.randint(0, 2 ** rng.randint(0, 52))), rng.random())


def pick_unit(rng, real, prefer_iso=True):
    if not real.live:
        return None
    cands = list(range(len(real.live)))
    if prefer_iso and rng.random() < 0.75:
        iso = [b for b in cands if real.live[b][1]]
        cands = iso or cands
    b = rng.choice(cands)
    n = len(real.live[b][0].children)
    u = rng.randint(0, n)
    return b, u


def gen_ops(rng, real):
    """one op or a short macro of ops"""
    c = rng.random()
    nlive = len(real.live)
    if nlive == 0 or c < 0.2:
        if rng.random() < 0.08:
            return [("extract", gen_ident(rng, real, valid=False))]
        return [("extract", gen_ident(rng, real))]
    if c < 0.27 and nlive < 14:
        return [("active",)]
    if c < 0.30 and nlive < 12:
        return [("global",)]
    if c < 0.45:
        # insert one or several branches / single child cnodes
        sel = []
        for _ in range(rng.choice([1, 1, 1, 2, 3])):
            b = rng.randrange(nlive)
            n = len(real.live[b][0].children)
            sel.append((b, 0 if (n == 0 or rng.random() < 0.7) else rng.randint(1, n)))
        return [("insert", sel)]
    if c < 0.60:
        # macro: make a unit (and, with two levels, consistently its parent/child) move, then commit
        bu = pick_unit(rng, real)
        b, u = bu
        ops = []
        cn = real.live[b][0]
        targets = [u]
        if cn.children and rng.random() < 0.8:
            if u == 0:
                k = rng.random()
                targets = [0] + (list(range(1, len(cn.children) + 1)) if k < 0.5 else [rng.randint(1, len(cn.children))])
            else:
                targets = [0, u]
        t = gen_time(rng)
        for x in targets:
            ops.append(("newvel", b, x, gen_vec(rng, real)))
            ops.append(("newts", b, x, t))
        if rng.random() < 0.8:
            ops.append(("insert", [(b, 0)]))
        return ops
    if c < 0.66:
        # macro: stop a unit consistently, then commit
        bu = pick_unit(rng, real)
        b, u = bu
        cn = real.live[b][0]
        targets = [0] + list(range(1, len(cn.children) + 1)) if rng.random() < 0.6 else [u]
        ops = []
        for x in targets:
            ops.append(("newvel", b, x, None))
            ops.append(("newts", b, x, None))
        if rng.random() < 0.8:
            ops.append(("insert", [(b, 0)]))
        return ops
    b, u = pick_unit(rng, real)
    unit = real.unit(b, u).value
    k = rng.random()
    dim = real.cfg["dim"]
    if k < 0.3:
        i = rng.randrange(len(unit.position)) if (len(unit.position) and rng.random() < 0.95) else len(unit.position) + rng.randint(0, 1)
        return [("setpos", b, u, i, rfloat(rng))]
    if k < 0.4:
        return [("newpos", b, u, gen_vec(rng, real) if rng.random() < 0.9 else [])]
    if k < 0.6:
        n = len(unit.velocity) if unit.velocity is not None else dim
        i = rng.randrange(n) if (n and rng.random() < 0.95) else n + rng.randint(0, 1)
        return [("setvel", b, u, i, rfloat(rng))]
    if k < 0.7:
        return [("newvel", b, u, None if rng.random() < 0.3 else gen_vec(rng, real))]
    if k < 0.9:
        return [("tsupd", b, u) + gen_time(rng)]
    return [("newts", b, u, None if rng.random() < 0.3 else gen_time(rng))]


# ----------------------------------------------------------------------------------------------
# comparison with the model
# ----------------------------------------------------------------------------------------------

REF = re.compile(r"@(\d+)")


def canon(dumps):
    m = {}

    def sub(mo):
        return "@" + str(m.setdefault(mo.group(1), len(m)))
    return [" ".join(REF.sub(sub, d).split()) for d in dumps]


def compare(ctx, cfg, lines, impl, model):
    """impl: [(status, A, dump)], model: [reply line]; -> index of first disagreement or None"""
    mparsed = []
    for rl in model:
        parts = rl.split(" | ", 2)
        if len(parts) != 3:
            mparsed.append((rl, "-", ""))
        else:
            mparsed.append((parts[0], parts[1][2:] if parts[1].startswith("A ") else parts[1], parts[2]))
    ci = canon([d for _, _, d in impl])
    cm = canon([d for _, _, d in mparsed])
    for j, ((st, a, _), (mst, ma, _)) in enumerate(zip(impl, mparsed)):
        ok = st == mst and ci[j] == cm[j]
        if ok and a != ma:
            if cfg["levels"] == 1:
                ok = False          # dictionary order is deterministic and part of the behaviour
            else:
                ok = sorted(a.split("/")) == sorted(ma.split("/"))
        if not ok:
            return j, f"{st} | A {a} | {ci[j]}", f"{mst} | A {ma} | {cm[j]}"
    return None


def shrink(cfg, ops, sig):
    """greedy one-op removal keeping the oracle failure signature"""
    cur = list(ops)
    changed = True
    while changed and len(cur) > 1:
        changed = False
        for j in range(len(cur) - 1, -1, -1):
            cand = cur[:j] + cur[j + 1:]
            try:
                _, _, _, fails = run_session(None, cfg, cand)
            except Exception:
                continue
            if any(f[0] == sig for f in fails):
                cur = cand
                changed = True
    return cur


CORPUS = [
    # two dipoles (the unit-test set-up): leaf extraction, lifting of leaf + root, commit, active, global, post-insert aliasing
    ({"levels": 2, "per": 2, "dim": 2, "consistent": True,
      "roots": [{"charge": None, "pos": [0.05, 0.025], "children": [{"charge": 0, "pos": [0.0, 0.0]}, {"charge": 1, "pos": [0.1, 0.05]}]},
                {"charge": None, "pos": [0.9, 0.775], "children": [{"charge": 2, "pos": [0.9, 0.8]}, {"charge": 3, "pos": [0.9, 0.75]}]}]},
     [("extract", [0, 1]), ("extract", [0]), ("newvel", 0, 1, [1.0, 0.0]), ("newts", 0, 1, (0.0, 0.5)),
      ("newvel", 0, 0, [0.5, 0.0]), ("newts", 0, 0, (0.0, 0.5)), ("setpos", 0, 1, 0, 0.3), ("insert", [(0, 0)]),
      ("active",), ("setpos", 0, 1, 1, 0.7), ("global",), ("extract", [0]), ("newvel", 4, 1, [1.0, 0.0]), ("newts", 4, 1, (1.0, 0.25)),
      ("insert", [(4, 0)]), ("active",), ("tsupd", 5, 0, 3.0, 0.125), ("setvel", 5, 2, 1, 2.0), ("insert", [(5, 1)]),
      ("newvel", 1, 0, None), ("insert", [(1, 0)]), ("extract", [2]), ("extract", []), ("extract", [1, 2]), ("extract", [1, 0, 0])]),
    # single level: atoms
    ({"levels": 1, "per": 1, "dim": 3, "consistent": True,
      "roots": [{"charge": 0, "pos": [0.1, 0.2, 0.3], "children": []}, {"charge": None, "pos": [0.4, 0.5, 0.6], "children": []},
                {"charge": 2, "pos": [0.7, 0.8, 0.9], "children": []}]},
     [("extract", [2]), ("newvel", 0, 0, [0.0, 1.0, 0.0]), ("newts", 0, 0, (0.0, 0.0)), ("insert", [(0, 0)]), ("extract", [0]),
      ("newvel", 1, 0, [1.0, 0.0, 0.0]), ("newts", 1, 0, (2.0, 0.5)), ("insert", [(1, 0)]), ("active",), ("extract", [2]),
      ("newvel", 4, 0, None), ("insert", [(4, 0)]), ("newts", 4, 0, None), ("insert", [(4, 0)]), ("active",), ("global",),
      ("setpos", 6, 0, 0, 9.0), ("extract", [0, 0])]),
]


def run(ctx):
    rng = ctx.rng
    nseq = ctx.n(1500, 20000)
    ctx.rule = ("seeded random sessions: tree shape (1/2 levels, 1-6 roots, 1-4 children, dimension 1-3, a few setting/tree "
                "mismatches), then 6-40 operations chosen adaptively from extract (valid / invalid identifiers) / in-place and "
                "re-binding mutations of positions, velocities, time stamps of live branches / consistent lift-and-commit and "
                "stop-and-commit macros / insert of branches and single child cnodes / extract-active / extract-global; a class "
                "is (operation, structural outcome) as registered with ctx.cls")
    procs = start_real(ctx)
    shrunk = {}
    # "only commits change the global state": the extracted GLOBAL state hands out the stored field objects themselves, and the output
    # handlers receive it at every sampling event - a `write` that modifies what it is handed changes the global state without a commit.
    # The output-handler sessions of harness/outcorr.py (real handler classes, several writes per object) compare the handed state before
    # and after every write (signature output:write-changes-the-state-it-is-handed:<kind>)
    try:
        from harness import outcorr
        outcorr.check(ctx, sessions=ctx.n(200, 2000))
    except Exception as e:  # noqa
        ctx.disagree("output.check", {"where": "outcorr.check (C13)"}, "evaluated", repr(e))

    def flush(sessions):
        # one model process per batch of sessions
        all_lines = [l for _, (_, lines, _, _) in sessions for l in lines]
        replies = ctx.model("store", all_lines)
        pos = 0
        for cfg, (ops, lines, impl, fails) in sessions:
            model = replies[pos:pos + len(lines)]
            pos += len(lines)
            ctx.evaluations += len(ops)
            for sig in sorted({f[0] for f in fails}):
                what = next(f[1] for f in fails if f[0] == sig)
                shrunk[sig] = shrunk.get(sig, 0) + 1
                small = shrink(cfg, ops, sig) if shrunk[sig] <= 2 else ops
                ctx.fail("store:" + sig, {"config": cfg, "ops": [list(o) for o in small]}, what)
            d = compare(ctx, cfg, lines, impl, model)
            if d is not None:
                j, a, b = d
                ctx.disagree("store.session", {"config": cfg, "requests": lines[:j + 1]}, a, b)
            ctx.sample({"requests": lines[:4], "impl": [f"{s} | A {a} | {canon([x])[0]}" for s, a, x in impl[:2]],
                        "model": model[:2]}, cap=2)
            for (st, _, _), op in zip(impl[1:], ops):
                ctx.cls(("op", op[0], st))

    sessions = []
    for cfg, ops in CORPUS:
        sessions.append((cfg, run_session(ctx, cfg, ops)))
        ctx.count("session:corpus")
    for _ in range(nseq):
        cfg = gen_config(rng)
        maxlen = rng.choice([6, 10, 16, 24, 40])
        sessions.append((cfg, run_session(ctx, cfg, None, rng, maxlen)))
        ctx.count(f"session:levels={cfg['levels']}" + ("" if cfg["consistent"] else ":setting-mismatch"))
        if len(sessions) >= 400:
            flush(sessions)
            sessions = []
    flush(sessions)

    collect_real(ctx, procs)


def replay(ctx, case):
    c = case["case"]
    ops = [tuple(tuple(x) if isinstance(x, list) and o[0] == "insert" else x for x in o) for o in c["ops"]]
    ops2 = []
    for o in c["ops"]:
        if o[0] == "insert":
            ops2.append(("insert", [tuple(p) for p in o[1]]))
        elif o[0] == "newts" and o[3] is not None:
            ops2.append(("newts", o[1], o[2], tuple(o[3])))
        else:
            ops2.append(tuple(o))
    _, lines, impl, fails = run_session(None, c["config"], ops2)
    return {"requests": lines, "oracle_failures": [list(f) for f in fails]}


# ----------------------------------------------------------------------------------------------
# real runs: between two commits the global state does not change
# ----------------------------------------------------------------------------------------------

RUNNER = r'''
import sys, json, struct, os
root, ini, nev, seed = sys.argv[1], sys.argv[2], int(sys.argv[3]), int(sys.argv[4])
sys.path.insert(0, root)
import random
random.seed(seed)
from configparser import ConfigParser
import jellyfysh
assert os.path.realpath(jellyfysh.__file__).startswith(os.path.realpath(root))
from jellyfysh.base import factory
from jellyfysh.base.strings import to_camel_case
from jellyfysh.base.exceptions import EndOfRun
import logging
logging.disable(logging.CRITICAL)

def f2b(x):
    return struct.unpack("<Q", struct.pack("<d", float(x)))[0]
def val(o):
    if o is None: return None
    if hasattr(o, "quotient"): return ("T", f2b(o.quotient), f2b(o.remainder))
    return tuple(f2b(x) for x in o)

config = ConfigParser()
config.read(ini)
for sec in config.sections():
    for k, v in config.items(sec):
        if k in ("end_of_run_time",):
            config.set(sec, k, "1e9")
factory.build_from_config(config, to_camel_case(config.get("Run", "setting")), "jellyfysh.setting")
mediator = factory.build_from_config(config, to_camel_case(config.get("Run", "mediator")), "jellyfysh.mediator")
sh = mediator._state_handler
phys, lift = sh._physical_state, sh._lifting_state

def gval():
    out = {}
    for r, n in enumerate(phys._root_nodes):
        for ident, node in [((r,), n)] + [((r, i), k) for i, k in enumerate(n.children)]:
            v, t = lift._lifting_dictionary.get(ident, (None, None))
            out[ident] = (val(node.value.position), val(v), val(t))
    return out
def cnodes(c):
    out = [c]
    for k in c.children: out += cnodes(k)
    return out

res = {"commits": 0, "reads": 0, "fails": [], "changed_ids": 0, "classes": []}
last = {"g": None}
orig_insert = sh.insert_into_global_state
orig_extract = sh.extract_from_global_state
orig_active = sh.extract_active_global_state
orig_global = sh.extract_global_state
depth = {"n": 0}

def check_unchanged(where):
    if last["g"] is not None and depth["n"] == 0:
        g = gval()
        res["reads"] += 1
        if g != last["g"]:
            bad = [str(i) for i in g if g[i] != last["g"][i]]
            if len(res["fails"]) < 5:
                res["fails"].append(["run:global-state-changed-between-commits", where + " " + ",".join(bad[:5])])
            last["g"] = g

def insert(extracted):
    if depth["n"] > 0:
        return orig_insert(extracted)
    check_unchanged("before-commit")
    before = gval()
    units = [(n.value.identifier, val(n.value.position), val(n.value.velocity), val(n.value.time_stamp))
             for c in extracted for n in cnodes(c)]
    depth["n"] += 1
    try:
        orig_insert(extracted)
    finally:
        depth["n"] -= 1
    after = gval()
    want = dict(before)
    for i, p, v, t in units:
        want[i] = (p, v, t)
    if after != want and len(res["fails"]) < 5:
        bad = [i for i in after if after[i] != want[i]]
        ins = {u[0] for u in units}
        res["fails"].append(["run:commit-readback" if any(b in ins for b in bad) else "run:commit-changed-elsewhere", str(bad[:5])])
    res["commits"] += 1
    res["changed_ids"] += sum(1 for i in after if after[i] != before[i])
    cl = [len(extracted), len(units), sum(1 for u in units if u[2] is not None)]
    if cl not in res["classes"]: res["classes"].append(cl)
    last["g"] = after
    if res["commits"] >= nev:
        raise EndOfRun

def wrap_read(f, name):
    def g(*a):
        check_unchanged("before-" + name)
        r = f(*a)
        check_unchanged("after-" + name)
        return r
    return g
sh.insert_into_global_state = insert
sh.extract_from_global_state = wrap_read(orig_extract, "extract")
sh.extract_active_global_state = wrap_read(orig_active, "extract-active")
sh.extract_global_state = wrap_read(orig_global, "extract-global")
try:
    mediator.run()
except EndOfRun:
    pass
check_unchanged("end")
print("RESULT " + json.dumps(res))
'''

REAL_CONFIGS = [
    "config_files/2018_JCP_149_064113/coulomb_atoms/power_bounded.ini",
    "config_files/2018_JCP_149_064113/dipoles/atom_factors.ini",
    "config_files/2018_JCP_149_064113/dipoles/dipole_motion.ini",
    "config_files/2018_JCP_149_064113/dipoles/cell_veto.ini",
    "config_files/2018_JCP_149_064113/water/coulomb_power_bounded_rest_inverted.ini",
]


def start_real(ctx):
    nev = ctx.n(400, 3000)
    cfgs = [c for c in REAL_CONFIGS if os.path.exists(os.path.join(ctx.root, "jellyfysh", c))]
    if not cfgs:
        ctx.notes.append("real-run part skipped: none of the shipped configuration files found")
        return []
    if ctx.quick:
        cfgs = cfgs[:3]
    script = os.path.join(os.path.dirname(ctx.root), "c13_runner.py")
    with open(script, "w") as f:
        f.write(RUNNER)
    procs = []
    for c in cfgs:
        wd = os.path.join(ctx.root, "jellyfysh")      # the shipped .ini files use paths relative to the package directory
        for m in re.finditer(r"^\s*filename\s*=\s*(output/\S+)", open(os.path.join(wd, c)).read(), re.M):
            os.makedirs(os.path.join(wd, os.path.dirname(m.group(1))), exist_ok=True)
        env = dict(os.environ, PYTHONPATH=ctx.root)
        procs.append((c, subprocess.Popen([sys.executable, script, ctx.root, os.path.join(ctx.root, "jellyfysh", c), str(nev),
                                           str(ctx.rng.randrange(2 ** 31))], cwd=wd, env=env, stdout=subprocess.PIPE,
                                          stderr=subprocess.PIPE, text=True)))
    return [(c, p, nev) for c, p in procs]


def collect_real(ctx, procs):
    for c, p, nev in procs:
        try:
            out, err = p.communicate(timeout=ctx.n(120, 400))
        except subprocess.TimeoutExpired:
            p.kill()
            ctx.notes.append(f"real run {c}: timed out (not a verdict)")
            ctx.count("real-run:timeout")
            continue
        m = re.search(r"^RESULT (.*)$", out, re.M)
        if not m:
            ctx.notes.append(f"real run {c}: could not be built/run here: {err.strip().splitlines()[-1:]}")
            ctx.count("real-run:not-runnable")
            continue
        res = json.loads(m.group(1))
        ctx.traces += 1
        ctx.evaluations += res["commits"] + res["reads"]
        ctx.count("real-run:commits", res["commits"])
        ctx.count("real-run:unchanged-checks", res["reads"])
        for cl in res["classes"]:
            ctx.cls(("real-commit", os.path.basename(c), tuple(cl)))
        for sig, what in res["fails"]:
            ctx.fail("store:" + sig, {"config_file": c, "commits": nev}, what)
