"""C07 — Particles move continuously at recorded velocity; events only hand velocity over.

Run level: real runs of all shipped configurations + generated variants are traced from outside (harness/runtrace.py);
oracle = the property stated on the recorded float states (harness/runs.py: oracle_c07);
correspondence = (a) every recorded run of a point-mass configuration is replayed in the Lean chain machine
(JF.Kin.step, binary64 reading), which recomputes the whole global state after every commit, bit for bit;
(b) every time-slice of every moving unit in every committed out-state of every run (composite objects included) is
recomputed by the model's `timeSlice`."""
from harness import runs, runcommon

ID = "C07"
THEOREM_MODULES = ["JF.Props.C07", "JF.Props.C07Eoc", "JF.Props.C07Float", "JF.Props.C12Chain", "JF.Props.SystemInv2"]
COMPONENTS = ["sys"]
ASSUMPTIONS = ["theorems: exact (rational) reading of the chain machine for point masses; committed times are non-decreasing "
               "because the scheduler returns a minimal live candidate (C06) and candidates are computed by adding a "
               "non-negative displacement to the current time stamp (C14 add_ge)",
               "composite objects (two tree levels): time-slicing is tied bit-exactly, the chain-level statement is checked by "
               "the oracle on recorded runs and by the model of C12"]
TRUSTED = ["harness/runtrace.py (observation by wrapping bound methods of the mediator's collaborators)",
           "stand-in MDAnalysis.Universe (plain-Python PDB reader) for the two hard-disk-dipole configurations"]


def run(ctx):
    ctx.rule = ("real runs: 19 shipped .ini (shortened end time) + generated variants (particle number, grid, chain time, sampling "
                "interval, scheduler), seeded; a case = one committed event; distinct non-trivial class = (configuration, "
                "committing event-handler class)")
    trs = runcommon.traces(ctx, with_resumed=True)
    # the multi-process mediator is a supported way of running: its histories are judged by the oracle too (no model replay)
    try:
        mptrs = [t for t in runs.run_jobs(ctx.root, runcommon.mp_jobs(ctx), workers=4)]
    except Exception as e:  # noqa
        mptrs = []
        ctx.disagree("run.multi-process-histories", {}, "evaluated", repr(e))
    ctx.count("mp-histories", sum(1 for t in mptrs if t["legs"]))
    for tr in mptrs:
        if not tr["legs"]:
            ctx.count("mp-trace-failed:" + str(tr["end"])[:60])
            continue
        stats = {}
        runs.oracle_c07(tr, ctx.fail, stats)
        runcommon.record_trace_stats(ctx, tr, stats)
    for tr in trs:
        meta = tr["meta"]
        if not tr["legs"]:
            if tr["end"] == "inadmissible-initial-overlap":
                # hard-core family: every re-seeded random initial state had overlapping cores (outside every property's quantifier)
                ctx.count("trace-skipped:inadmissible-initial-overlap")
                continue
            ctx.fail("C07:run-does-not-start", {"ini": meta.get("ini"), "end": tr["end"], "job": tr.get("job"),
                                                "exception": (tr.get("exception") or "")[-1500:]},
                     "the run could not be built or raised before the first commit")
            continue
        if str(tr["end"]).startswith("exc:"):
            ctx.fail("C07:run-raises:" + tr["end"], {"ini": meta["ini"], "seed": meta["seed"], "leg": len(tr["legs"]), "job": tr.get("job"),
                                                     "exception": (tr.get("exception") or "")[-1500:]}, "the run raised " + tr["end"])
        stats = {}
        runs.oracle_c07(tr, ctx.fail, stats)
        if meta["levels"] == 1:
            runcommon.replay_point_masses(ctx, tr)
        n = runcommon.replay_slices(ctx, tr)
        runcommon.replay_end_of_chain(ctx, tr)
        runcommon.record_trace_stats(ctx, tr, stats)
        if len(ctx.samples) < 4 and tr["legs"]:
            leg = tr["legs"][min(5, len(tr["legs"]) - 1)]
            ctx.sample({"ini": meta["ini"], "seed": meta["seed"], "leg": leg["i"], "handler": meta["handlers"][leg["chosen"]],
                        "out_state": {str(k): [v[0], v[1], v[2]] for k, v in leg["out"].items()}})
