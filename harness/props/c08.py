"""C08 — A committed event was computed from the trajectory that is still current.

Theorems (lean/JF/Props/C08.lean): in the activator model extended by the abstract predicate "the event of tagger E may change
the motion of a unit", under clause (h) of `WiringSound` every pending interaction / cell-veto handler whose in-state could be
affected is in the trash list of the commit, hence the in-state of every committed interaction event is current.  The generated
obligations `cfg_sound_<name>` (JF/Gen/WiringsSound.lean) contain clause (h) for every shipped .ini.

Correspondence: the same activator replay as C09 (bit-exact on handler ids, order, trash lists), the translator self-check, the
declared motion footprint of every handler kind against what each recorded commit did to velocities/trajectories, and clause (h)
evaluated on every recorded commit.  Oracle: `runs.oracle_c08` on every trace (+ extra runs of a configuration whose obligation broke).

Composition (lean/JF/Props/MediatorLoop.lean, model lean/JF/Model/Mediator.lean, driver `jf_med`, `harness/medcorr.py`): the loop of
`SingleProcessMediator.run` as one machine (activator model x scheduler instance x preceding handler); theorems for all legs of all
runs (scheduler mirrors the running lists, the committed handler is a running one and minimal, trashed handlers are never committed
unless handed out again = C08's second sentence end to end, commit times sorted, list/heap loop refines the spec-level loop);
every recorded leg of every single-process trace is replayed in the composed model, and the cross-invariant "live events of the
real scheduler = current candidates of the real activator's running handlers" is evaluated on the implementation."""
from harness import runs, medcorr
from harness.props import c09

ID = "C08"
NEEDS_GEN = True
THEOREM_MODULES = ["JF.Props.C08", "JF.Props.MediatorLoop", "JF.Gen.WiringsSound"]
COMPONENTS = ["act", "med"]
ASSUMPTIONS = [
    "which handler kinds may change the motion of a unit (`affects · .motion` in JF/Model/Wiring.lean) is a hypothesis of the theorem; "
    "it is compared with what every recorded commit did (velocity equal and position on the old straight line within 1e-11 L)",
    "a cell-boundary event overwrites one coordinate of the active unit with the cell boundary it has just reached: counted as staying on "
    "the trajectory (the oracle's tolerance 1e-11 L)",
] + c09.ASSUMPTIONS[2:4]
TRUSTED = c09.TRUSTED


def run(ctx):
    c09.run(ctx, which="C08", oracle=runs.oracle_c08, per_trace=medcorr.replay)
    medcorr.resumed_check(ctx)
