"""C20 — Multi-process mediator commits the same events as the single-process mediator.

Real runs. For configurations whose pre-computable out-states draw no random numbers (the shipped single hard-disk dipole, the
81-dipole hard-disk system (thorough), harness-built soft-sphere systems with directly invertible pair events, harmonic+sampling
variants), the same configuration and seed is run under the SingleProcessMediator and under the real MultiProcessMediator
(fork) with identical per-event-handler random streams, for several core counts and several *controlled schedules*: the
harness replaces `multiprocessing.connection` inside multi_process_mediator by a shim whose `wait` blocks until every in-flight
pipe is readable and then returns a seeded ordered sub-list, so the order in which worker results reach the mediator is an
adversarial, replayable choice. Compared leg by leg, bit for bit: committed handler, candidate times, out-state, whole global
state, trash list, samples. After post_run no worker process may be alive; a run that does not finish in time is a deadlock.

Trace validation (harness/c20model.py): every recorded multi-process run is replayed through the Lean protocol model
(lean/JF/Model/MPMediator.lean, the object of the theorems in JF.Props.C20) with the recorded activator output, `wait` results,
chosen handler and trash list; stages and `_out_states` keys at commit time, the stages seen at each wait and the push order must
agree leg by leg."""
import os
from harness import runs, c20model

ID = "C20"
THEOREM_MODULES = ["JF.Props.C20"]
COMPONENTS = ["mp"]
ASSUMPTIONS = ["quantifier of the property: configurations whose out-state computation draws no random numbers (a pre-computed and "
               "later discarded out-state would otherwise advance that handler's random stream)",
               "every in-flight computation delivers (fairness); OS-level behaviour of pipes/events/process reaping is exercised by the "
               "real runs, the model abstracts it as FIFO channels and flags"]
TRUSTED = ["harness/runtrace.py: per-handler RNG wrappers (class level, signature preserving), ScheduleShim replacing multiprocessing.connection"]

CFG = runs.CFG


def soft_sphere(n, t_end, sched, power, sampling):
    return {"ini": CFG + "coulomb_atoms/power_bounded.ini",
            "overrides": {"Coulomb": {"event_handler": "two_leaf_unit_event_handler", "number_event_handlers": n},
                          "TwoLeafUnitEventHandler": {"potential": "inverse_power_potential"},
                          "InversePowerPotential": {"power": power, "prefactor": 1.0},
                          "RandomInputHandler": {"number_of_root_nodes": n},
                          "FinalTimeEndOfRunEventHandler": {"end_of_run_time": t_end},
                          "FixedIntervalSamplingEventHandler": {"sampling_interval": sampling},
                          "SingleProcessMediator": {"scheduler": sched}}}


def run(ctx):
    rng = ctx.rng
    ctx.rule = ("configurations x core counts x controlled schedules (seeded adversary for connection.wait); a case = one multi-process "
                "run compared leg by leg with the single-process run; class = (configuration, cores, pre-computed out-states used?, "
                "pre-computed out-states discarded?)")
    bases = []
    for k in range(ctx.n(2, 6)):
        bases.append(soft_sphere(rng.randint(3, 7), rng.choice([2.0, 3.5]), rng.choice(["heap_scheduler", "list_scheduler"]),
                                 rng.choice([1.0, 2.0, 6.0]), rng.choice([0.11, 0.37])))
    bases.append({"ini": "config_files/hard_disk_dipoles/single_hard_disk_dipole.ini",
                  "overrides": {"FinalTimeEndOfRunEventHandler": {"end_of_run_time": rng.choice([20, 40])}}})
    if not ctx.quick:
        bases.append({"ini": "config_files/hard_disk_dipoles/hard_disk_dipoles_cells.ini",
                      "overrides": {"FinalTimeEndOfRunEventHandler": {"end_of_run_time": 3}}})
    jobs, ref_of = [], {}
    for bi, b in enumerate(bases):
        seed = ctx.seed * 100 + bi
        common = {**b, "seed": seed, "max_legs": ctx.n(1500, 6000), "per_handler_rng": True, "timeout": 300}
        ref_of[bi] = len(jobs)
        jobs.append({**common, "base": bi})
        for cores in ([2, 3, 5] if ctx.quick else [2, 3, 4, 8]):
            for s in range(ctx.n(2, 8)):
                jobs.append({**common, "base": bi, "mp": {"cores": cores, "schedule_seed": ctx.seed * 1000 + 17 * s + cores}})
    trs = runs.run_jobs(ctx.root, jobs, workers=6)
    for tr in trs:
        job = tr["job"]
        if "mp" not in job:
            if not tr["legs"]:
                ctx.fail("C20:single-process-reference-failed", {"job": job, "end": tr["end"], "exception": (tr.get("exception") or "")[-800:]},
                         "the single-process reference run failed")
            continue
        ref = trs[ref_of[job["base"]]]
        base = {"ini": job["ini"], "seed": job["seed"], "cores": job["mp"]["cores"], "schedule_seed": job["mp"]["schedule_seed"],
                "overrides": job.get("overrides")}
        ctx.evaluations += 1
        ctx.traces += 1
        if tr["end"] == "timeout":
            ctx.fail("C20:deadlock-or-timeout", base, "the multi-process run did not finish within the time limit (deadlock?)")
            continue
        if not tr["legs"] or str(tr["end"]).startswith(("exc", "build-exc")):
            ctx.fail("C20:multi-process-run-raises:" + str(tr["end"]), {**base, "exception": (tr.get("exception") or "")[-800:],
                                                                        "leg": len(tr["legs"])}, "the multi-process run raised")
            continue
        ws = tr.get("wait_states", {})
        used = ws.get("out_state_started", 0)
        ctx.cls((job["ini"].split("/")[-1], job["overrides"].get("RandomInputHandler", {}).get("number_of_root_nodes"),
                 job["mp"]["cores"], used > 0))
        ctx.count("mp-waits", tr.get("n_waits", 0))
        ctx.count("mp-precomputed-out-states-received-in-wait", used)
        n = min(len(ref["legs"]), len(tr["legs"]))
        ctx.count("legs-compared", n)
        bad = None
        for i in range(n):
            la, lb = ref["legs"][i], tr["legs"][i]
            for k in ("chosen", "created", "times", "out", "post", "trashed"):
                if la[k] != lb[k]:
                    bad = (i, k)
                    break
            if bad:
                break
        if bad is None and (len(ref["legs"]) != len(tr["legs"]) or ref["end"] != tr["end"]):
            bad = (n, "length/end")
        if bad is None:
            wa = [(w["leg"], w["handler"], w.get("state")) for w in ref["writes"]]
            wb = [(w["leg"], w["handler"], w.get("state")) for w in tr["writes"]]
            if wa != wb:
                bad = (None, "samples")
        if bad is not None:
            i, k = bad
            meta = ref["meta"]
            ctx.fail("C20:multi-process-run-diverges",
                     {**base, "leg": i, "field": k,
                      "single": None if i is None or i >= len(ref["legs"]) else {"handler": meta["handlers"][ref["legs"][i]["chosen"]], "times": ref["legs"][i]["times"]},
                      "multi": None if i is None or i >= len(tr["legs"]) else {"handler": meta["handlers"][tr["legs"][i]["chosen"]], "times": tr["legs"][i]["times"]},
                      "schedule_head": tr.get("schedule", [])[:40]},
                     f"the multi-process run differs from the single-process run at leg {i} (field {k})")
        if tr.get("children_alive_after_post_run"):
            ctx.fail("C20:worker-processes-left-behind", {**base, "alive": tr["children_alive_after_post_run"]},
                     "worker processes are still alive after post_run")
        # trace validation against the Lean model of the protocol
        st = c20model.validate(ctx, tr, base)
        ctx.count("mp-model:legs-replayed", st["legs"])
        ctx.count("mp-model:legs-with-pre-computation", st["legs_with_precomputation"])
        ctx.count("mp-model:pre-computations-started", st["precomputations"])
        ctx.count("mp-model:pre-computed-out-states-discarded", st["discarded"])
        ctx.count("mp-model:commit-used-stored-pre-computed-out-state", st["used_stored"])
        ctx.count("mp-model:commit-used-pre-computation-in-flight", st["used_in_flight"])
        ctx.count("mp-model:handler-legs-in-out_state_started-across-a-leg-boundary", st["in_flight_across_legs"])
        if st["end_quiet"] is not None:
            ctx.count("mp-model:runs-ending-with-all-workers-blocked-and-pipes-empty" if st["end_quiet"]
                      else "mp-model:runs-ending-with-an-unread-pre-computation", 1)
        ctx.cls(("model", job["mp"]["cores"], st["precomputations"] > 0, st["discarded"] > 0, st["used_stored"] > 0, st["used_in_flight"] > 0))
        ctx.sample({**{k: v for k, v in base.items() if k != "overrides"}, "legs": len(tr["legs"]), "end": tr["end"], "waits": tr.get("n_waits"),
                    "wait_states": ws, "model": st, "schedule_head": tr.get("schedule", [])[:6]})
