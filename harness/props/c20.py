"""C20 — Multi-process mediator commits the same events as the single-process mediator.

Real runs. For configurations whose pre-computable out-states draw no random numbers (the shipped single hard-disk dipole, the
81-dipole hard-disk system (thorough), harness-built soft-sphere systems with directly invertible pair events, harmonic+sampling
variants), the same configuration and seed is run under the SingleProcessMediator and under the real MultiProcessMediator
(fork) with identical per-event-handler random streams, for several core counts and several *controlled schedules*: the
harness replaces `multiprocessing.connection` inside multi_process_mediator by a shim whose `wait` blocks until every in-flight
pipe is readable and then returns a seeded ordered sub-list, so the order in which worker results reach the mediator is an
adversarial, replayable choice. Compared leg by leg, bit for bit: committed handler, candidate times, out-state, whole global
state, trash list, samples. After post_run no worker process may be alive; a run that does not finish in time is a deadlock.

Trace validation (harness/c20model.py): every recorded multi-process run is replayed through the Lean protocol model
(lean/JF/Model/MPMediator.lean, the object of the theorems in JF.Props.C20) with the recorded activator output, `wait` results,
chosen handler and trash list; stages and `_out_states` keys at commit time, the stages seen at each wait and the push order must
agree leg by leg."""
import os
from harness import runs, c20model

ID = "C20"
THEOREM_MODULES = ["JF.Props.C20", "JF.Props.C20Loop", "JF.Props.SystemInvMP", "JF.Props.SystemInvMP2"]
COMPONENTS = ["mp"]
ASSUMPTIONS = ["quantifier of the property: configurations whose out-state computation draws no random numbers (a pre-computed and "
               "later discarded out-state would otherwise advance that handler's random stream)",
               "every in-flight computation delivers (fairness); OS-level behaviour of pipes/events/process reaping is exercised by the "
               "real runs, the model abstracts it as FIFO channels and flags",
               "activator protocol (JF.MP.Protocol / hypotheses of JF.C20.stage_inv): created handlers are distinct and not running, the "
               "scheduler returns a running handler, the committed handler is in its own trash list, trashed handlers stop running — "
               "evaluated on every recorded leg by the trace validation (reply field proto=111)",
               "nothing is assumed about ties between candidate times: the (repaired) multi-process mediator pushes after the receive "
               "loop in the order of the activator's dictionary, the push sequence of the single-process mediator (JF.C20.stage_inv); "
               "the former finding C20:tie-of-candidate-times-pushed-in-one-leg (known_findings/C20.json, fixed) stays in the corpus of "
               "every run as a regression input"]
TRUSTED = ["harness/runtrace.py: per-handler RNG wrappers (class level, signature preserving), ScheduleShim replacing multiprocessing.connection"]

CFG = runs.CFG


def soft_sphere(n, t_end, sched, power, sampling):
    return {"ini": CFG + "coulomb_atoms/power_bounded.ini",
            "overrides": {"Coulomb": {"event_handler": "two_leaf_unit_event_handler", "number_event_handlers": n},
                          "TwoLeafUnitEventHandler": {"potential": "inverse_power_potential"},
                          "InversePowerPotential": {"power": power, "prefactor": 1.0},
                          "RandomInputHandler": {"number_of_root_nodes": n},
                          "FinalTimeEndOfRunEventHandler": {"end_of_run_time": t_end},
                          "FixedIntervalSamplingEventHandler": {"sampling_interval": sampling},
                          "SingleProcessMediator": {"scheduler": sched}}}


def canon(tr):
    """the legs of a trace with every handler named by (tagger, class, in-state identifiers it was started with) instead of by its
    index: the event handlers of one tagger are interchangeable instances of one class, and which instance the activator pops from
    its pool for which in-state is not reproducible from run to run for some configurations (hard_disk_dipoles_cells: two
    *single-process* runs of the same seed already differ in the order in which ExcludedCellsTagger yields the in-states, a set
    iteration order). Multisets (sorted lists) for created / candidate times / trashed, exact values for out-state and global state."""
    hs = tr["meta"]["handlers"]
    assigned, out = {}, []
    for leg in tr["legs"]:
        for h, ids in leg["created"]:
            assigned[h] = (tuple(hs[h]), None if ids is None else tuple(tuple(i) for i in ids))

        def key(h):
            return assigned.get(h, (tuple(hs[h]), "never-started"))
        out.append({"created": sorted((key(h) for h, _ in leg["created"]), key=repr),
                    "times": sorted(((key(h), t) for h, t in leg["times"].items()), key=repr),
                    "chosen": key(leg["chosen"]), "out": leg["out"], "post": leg["post"],
                    "trashed": sorted((key(h) for h in leg["trashed"]), key=repr)})
    return out


def tie_at(cref, ctr, i):
    """the two runs agree (canonically) on legs < i and on what is started in leg i with which candidate times, and commit different
    handlers in leg i: is it because the two handlers have the same candidate event time and were pushed in the same leg (so that
    only the order of the push_event calls separates them)?"""
    if i is None or i >= len(cref) or i >= len(ctr):
        return None
    pend = {}
    for j in range(i + 1):
        for k, t in cref[j]["times"]:
            pend[k] = (t, j)
        if j < i:
            for k in cref[j]["trashed"]:
                pend.pop(k, None)
    a, b = cref[i]["chosen"], ctr[i]["chosen"]
    if a == b or a not in pend or b not in pend:
        return None
    (ta, ja), (tb, jb) = pend[a], pend[b]
    if ta == tb and ja == jb:
        return {"handlers": [a, b], "time": ta, "pushed_in_leg": ja}
    return None


def run(ctx):
    rng = ctx.rng
    ctx.rule = ("configurations x core counts x controlled schedules (seeded adversary for connection.wait); a case = one multi-process "
                "run compared leg by leg with the single-process run; class = (configuration, cores, pre-computed out-states used?, "
                "pre-computed out-states discarded?)")
    bases = []
    for k in range(ctx.n(3, 5)):
        bases.append(soft_sphere(rng.randint(3, 7), rng.choice([2.0, 3.5]), rng.choice(["heap_scheduler", "list_scheduler"]),
                                 rng.choice([1.0, 2.0, 6.0]), rng.choice([0.11, 0.37])))
    bases.append({"ini": "config_files/hard_disk_dipoles/single_hard_disk_dipole.ini",
                  "overrides": {"FinalTimeEndOfRunEventHandler": {"end_of_run_time": rng.choice([20, 40])}}})
    if not ctx.quick:
        bases.append({"ini": "config_files/hard_disk_dipoles/hard_disk_dipoles_cells.ini",
                      "overrides": {"FinalTimeEndOfRunEventHandler": {"end_of_run_time": 3}}})
    # regression corpus (every run, fixed seeds): sampling interval == end-of-run time, i.e. two candidate event times pushed in the
    # same leg are equal; which of the two handlers the scheduler returns depends on the order of the push_event calls. Before the
    # repair (known_findings/C20.json, status fixed) the multi-process mediator pushed in arrival order and these schedules diverged
    # (signature C20:tie-of-candidate-times-pushed-in-one-leg:…); a divergence here is a plain failure now.
    TIE = {"heap_scheduler": [0, 3, 4], "list_scheduler": [0, 1, 3]}
    n_regular = len(bases)
    for sched in TIE:
        bases.append(soft_sphere(3, 2.0, sched, 2.0, 2.0))
    jobs, ref_of = [], {}
    for bi, b in enumerate(bases):
        tie = bi >= n_regular
        seed = 1 if tie else ctx.seed * 100 + bi
        common = {**b, "seed": seed, "max_legs": ctx.n(1500, 6000), "per_handler_rng": True, "timeout": 300}
        ref_of[bi] = len(jobs)
        jobs.append({**common, "base": bi})
        if tie:
            for cores in (2, 3):
                for s in TIE[b["overrides"]["SingleProcessMediator"]["scheduler"]]:
                    jobs.append({**common, "base": bi, "mp": {"cores": cores, "schedule_seed": s}})
            continue
        for cores in ([2, 3, 5] if ctx.quick else [2, 3, 4, 8]):
            for s in range(ctx.n(3, 6)):
                jobs.append({**common, "base": bi, "mp": {"cores": cores, "schedule_seed": ctx.seed * 1000 + 17 * s + cores}})
        if bi < 2:
            # preemption schedules: the workers' or-event clears itself only after a short sleep, which widens the window between a
            # worker reading its start/continue events and clearing the or-event (a lost wake-up there is a deadlock: time-out)
            for cores in (2, 4):
                jobs.append({**common, "base": bi, "max_legs": ctx.n(120, 400), "timeout": 120,
                             "mp": {"cores": cores, "schedule_seed": ctx.seed * 1000 + 900 + cores, "or_clear_delay": 0.002}})
    trs = runs.run_jobs(ctx.root, jobs, workers=6)
    for tr in trs:
        job = tr["job"]
        if "mp" not in job:
            if not tr["legs"]:
                ctx.fail("C20:single-process-reference-failed", {"job": job, "end": tr["end"], "exception": (tr.get("exception") or "")[-800:]},
                         "the single-process reference run failed")
            continue
        ref = trs[ref_of[job["base"]]]
        base = {"ini": job["ini"], "seed": job["seed"], "cores": job["mp"]["cores"], "schedule_seed": job["mp"]["schedule_seed"],
                "overrides": job.get("overrides")}
        ctx.evaluations += 1
        ctx.traces += 1
        if tr["end"] == "timeout":
            ctx.fail("C20:deadlock-or-timeout", base, "the multi-process run did not finish within the time limit (deadlock?)")
            continue
        if not tr["legs"] or str(tr["end"]).startswith(("exc", "build-exc")):
            ctx.fail("C20:multi-process-run-raises:" + str(tr["end"]), {**base, "exception": (tr.get("exception") or "")[-800:],
                                                                        "leg": len(tr["legs"])}, "the multi-process run raised")
            if tr["legs"] and tr.get("meta", {}).get("handler_nargs"):
                c20model.validate(ctx, tr, base)     # the legs recorded before the exception
            continue
        ws = tr.get("wait_states", {})
        used = ws.get("out_state_started", 0)
        ctx.cls((job["ini"].split("/")[-1], job["overrides"].get("RandomInputHandler", {}).get("number_of_root_nodes"),
                 job["mp"]["cores"], used > 0))
        ctx.count("mp-waits", tr.get("n_waits", 0))
        ctx.count("mp-precomputed-out-states-received-in-wait", used)
        n = min(len(ref["legs"]), len(tr["legs"]))
        ctx.count("legs-compared", n)
        bad = None
        for i in range(n):
            la, lb = ref["legs"][i], tr["legs"][i]
            for k in ("chosen", "created", "times", "out", "post", "trashed"):
                if la[k] != lb[k]:
                    bad = (i, k)
                    break
            if bad:
                break
        cref = ctr = None
        if bad is not None:
            # not identical handler index by handler index: compare with handlers named by what they were started with
            cref, ctr = canon(ref), canon(tr)
            bad = None
            for i in range(n):
                for k in ("created", "times", "chosen", "out", "post", "trashed"):
                    if cref[i][k] != ctr[i][k]:
                        bad = (i, k)
                        break
                if bad:
                    break
            if bad is None:
                ctx.count("runs-equal-up-to-which-pool-instance-of-a-tagger-got-which-in-state")
        if bad is None and tr["end"] != "cap" and (len(ref["legs"]) != len(tr["legs"]) or ref["end"] != tr["end"]):
            bad = (n, "length/end")
        if bad is None:
            wa = [(w["leg"], w["handler"], w.get("state")) for w in ref["writes"] if tr["end"] != "cap" or w["leg"] < len(tr["legs"])]
            wb = [(w["leg"], w["handler"], w.get("state")) for w in tr["writes"]]
            if wa != wb:
                bad = (None, "samples")
        if bad is not None:
            i, k = bad
            meta = ref["meta"]
            tie = tie_at(cref, ctr, i) if k == "chosen" and cref is not None else None
            if tie is not None:
                ctx.count("runs-diverging-at-a-tie-of-candidate-times")
                ctx.fail("C20:tie-of-candidate-times-pushed-in-one-leg:commit-depends-on-arrival-order",
                         {**base, "leg": i, "tie": tie, "single_process_commits": cref[i]["chosen"],
                          "multi_process_commits": ctr[i]["chosen"],
                          "push_order_single": [meta["handlers"][h][0] for h in ref["legs"][tie["pushed_in_leg"]]["times"]],
                          "push_order_multi": [meta["handlers"][h][0] for h in tr["legs"][tie["pushed_in_leg"]]["times"]],
                          "same_out_state_and_global_state": cref[i]["out"] == ctr[i]["out"] and cref[i]["post"] == ctr[i]["post"],
                          "samples_single": len(ref["writes"]), "samples_multi": len(tr["writes"])},
                         "two handlers started in the same leg have the same candidate event time; the scheduler returns the one pushed "
                         "first, and the push order of the multi-process mediator is the arrival order")
            else:
                ctx.fail("C20:multi-process-run-diverges",
                         {**base, "leg": i, "field": k,
                          "single": None if i is None or i >= len(ref["legs"]) else {"handler": meta["handlers"][ref["legs"][i]["chosen"]], "times": ref["legs"][i]["times"]},
                          "multi": None if i is None or i >= len(tr["legs"]) else {"handler": meta["handlers"][tr["legs"][i]["chosen"]], "times": tr["legs"][i]["times"]},
                          "schedule_head": tr.get("schedule", [])[:40]},
                         f"the multi-process run differs from the single-process run at leg {i} (field {k})")
        if tr.get("children_alive_after_post_run"):
            ctx.fail("C20:worker-processes-left-behind", {**base, "alive": tr["children_alive_after_post_run"]},
                     "worker processes are still alive after post_run")
        # trace validation against the Lean model of the protocol
        st = c20model.validate(ctx, tr, base)
        ctx.count("mp-model:legs-replayed", st["legs"])
        ctx.count("mp-model:legs-with-pre-computation", st["legs_with_precomputation"])
        ctx.count("mp-model:pre-computations-started", st["precomputations"])
        ctx.count("mp-model:pre-computed-out-states-discarded", st["discarded"])
        ctx.count("mp-model:commit-used-stored-pre-computed-out-state", st["used_stored"])
        ctx.count("mp-model:commit-used-pre-computation-in-flight", st["used_in_flight"])
        ctx.count("mp-model:handler-legs-in-out_state_started-across-a-leg-boundary", st["in_flight_across_legs"])
        if st["end_quiet"] is not None:
            ctx.count("mp-model:runs-ending-with-all-workers-blocked-and-pipes-empty" if st["end_quiet"]
                      else "mp-model:runs-ending-with-an-unread-pre-computation", 1)
        ctx.cls(("model", job["mp"]["cores"], st["precomputations"] > 0, st["discarded"] > 0, st["used_stored"] > 0, st["used_in_flight"] > 0))
        ctx.sample({**{k: v for k, v in base.items() if k != "overrides"}, "legs": len(tr["legs"]), "end": tr["end"], "waits": tr.get("n_waits"),
                    "wait_states": ws, "model": st, "schedule_head": tr.get("schedule", [])[:6]})
