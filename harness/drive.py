"""Run the Lean model driver on a batch of request lines."""
import os, subprocess, struct

VERIF = os.path.dirname(os.path.dirname(os.path.abspath(__file__)))
LEAN = os.path.join(VERIF, "lean")
BIN = os.path.join(LEAN, ".lake", "build", "bin")


def f2b(x: float) -> str:
    return str(struct.unpack("<Q", struct.pack("<d", float(x)))[0])


def b2f(s) -> float:
    return struct.unpack("<d", struct.pack("<Q", int(s)))[0]


def model(component: str, lines):
    """lines: iterable of str (no newline) -> list of reply lines"""
    lines = list(lines)
    data = "".join(l + "\n" for l in lines)
    p = subprocess.run([os.path.join(BIN, "jf_" + component)], input=data, capture_output=True, text=True)
    if p.returncode != 0:
        raise RuntimeError(f"model driver failed rc={p.returncode}: {p.stderr[-2000:]}")
    out = p.stdout.split("\n")
    if out and out[-1] == "":
        out.pop()
    if len(out) != len(lines):
        raise RuntimeError(f"model driver returned {len(out)} lines for {len(lines)} requests "
                           f"(component {component}); first reply: {out[:1]}")
    return out
