#!/bin/sh
# usage: sh harness/qsweep.sh "<seeds>" [tier] [ids...]   -- one line per run with EXIT CODE and number of VIOLATION lines
cd "$(dirname "$0")/.."
SEEDS="$1"; TIER="${2:-quick}"; shift; shift
ALL="${*:-C01 C02 C03 C04 C05 C06 C07 C08 C09 C10 C11 C12 C13 C14 C15 C16 C17 C18 C19 C20}"
for s in $SEEDS; do for p in $ALL; do
  out=$(VERIF_SEED=$s ./check $p --tier $TIER 2>&1); rc=$?
  echo "$p seed=$s tier=$TIER exit=$rc violations=$(echo "$out" | grep -c '^VIOLATION') :: $(echo "$out" | grep -v '^KNOWN-FINDING' | tail -1)"
done; done
