/* Sanitizer replay driver for property C06: linked against the heap.c of the tree under test and compiled
 * with -fsanitize=address,undefined.  It re-implements only the thin Python layer of HeapScheduler
 * (counter dictionary, overflow branch, pickle round trip) and replays operation lists:
 *
 *   R            fresh heap, all counters absent
 *   P q r h      push (q, r: uint64 bit patterns of the doubles; h: handler index >= 1); finite times only
 *   T h          trash
 *   S h v        counter[h] = v
 *   G            root(...) with the validity callback; prints "ok h q r" or "err:empty"
 *   K            pickle round trip: entry(0..) until NULL, new heap, re-insert
 *   D            dump: prints "n (q r h c)*"
 */
#include "heap.h"
#include <inttypes.h>
#include <stdint.h>
#include <stdio.h>
#include <stdlib.h>
#include <string.h>

#define MAXH 4096
static uint64_t counter[MAXH];
static int present[MAXH];
static char handles[MAXH]; /* &handles[h] is the handler pointer */

static int cb(void *sched, void *handler, uint c) {
    (void) sched;
    size_t h = (size_t) ((char *) handler - handles);
    if (!present[h]) return 0; /* KeyError inside a cffi callback -> 0 */
    return counter[h] > (uint64_t) c;
}

static double b2d(uint64_t b) { double d; memcpy(&d, &b, 8); return d; }
static uint64_t d2b(double d) { uint64_t b; memcpy(&b, &d, 8); return b; }

int main(void) {
    struct Heap *heap = construct_heap();
    char line[256];
    setvbuf(stdout, NULL, _IOLBF, 0); /* so that the last reply before a sanitizer abort is not lost */
    while (fgets(line, sizeof line, stdin)) {
        char op = line[0];
        uint64_t a, b, c;
        if (op == 'R') {
            destroy_heap(heap);
            heap = construct_heap();
            memset(counter, 0, sizeof counter);
            memset(present, 0, sizeof present);
            puts("ok");
        } else if (op == 'P') {
            sscanf(line + 1, "%" SCNu64 " %" SCNu64 " %" SCNu64, &a, &b, &c);
            if (!present[c]) { present[c] = 1; counter[c] = 0; }
            if (counter[c] > 0xffffffffull) { /* OverflowError branch */
                delete_events(heap, &handles[c]);
                counter[c] = 0;
                insert(heap, b2d(a), b2d(b), &handles[c], 0);
            } else {
                insert(heap, b2d(a), b2d(b), &handles[c], (uint) counter[c]);
            }
            puts("ok");
        } else if (op == 'T') {
            sscanf(line + 1, "%" SCNu64, &a);
            if (!present[a]) { present[a] = 1; counter[a] = 0; }
            counter[a]++;
            puts("ok");
        } else if (op == 'S') {
            sscanf(line + 1, "%" SCNu64 " %" SCNu64, &a, &b);
            present[a] = 1;
            counter[a] = b;
            puts("ok");
        } else if (op == 'G') {
            struct HeapEntry e = root(heap, NULL, cb);
            if (e.event_handler == NULL) puts("err:empty");
            else printf("ok %zu %" PRIu64 " %" PRIu64 "\n", (size_t) ((char *) e.event_handler - handles),
                        d2b(e.time_quotient), d2b(e.time_remainder));
        } else if (op == 'K') {
            struct Heap *fresh = construct_heap();
            for (uint i = 0;; i++) {
                struct HeapEntry e = entry(heap, i);
                if (e.event_handler == NULL) break;
                insert(fresh, e.time_quotient, e.time_remainder, e.event_handler, e.counter);
            }
            destroy_heap(heap);
            heap = fresh;
            puts("ok");
        } else if (op == 'D') {
            uint n = 0;
            while (entry(heap, n).event_handler != NULL) n++;
            printf("%u", n);
            for (uint i = 0; i < n; i++) {
                struct HeapEntry e = entry(heap, i);
                printf(" %" PRIu64 " %" PRIu64 " %zu %u", d2b(e.time_quotient), d2b(e.time_remainder),
                       (size_t) ((char *) e.event_handler - handles), e.counter);
            }
            puts("");
        } else {
            puts("bad-op");
        }
    }
    destroy_heap(heap);
    return 0;
}
