"""print the markdown table of seeded defects from /verif/seeded/*/meta.json (used for DESIGN.md)"""
import json, glob, os
VERIF = os.path.dirname(os.path.dirname(os.path.abspath(__file__)))
print("| seed | what was changed | needs, to manifest | valid (demo fails only with the change; 728 tests pass) | target check | other checks |")
print("|---|---|---|---|---|---|")
for d in sorted(glob.glob(os.path.join(VERIF, "seeded", "*", ""))):
    m = json.load(open(d + "meta.json"))
    ev = m.get("evaluation", {})
    pid = m["property"]
    chk = ev.get("checks", {}).get(pid, {})
    if "thorough" in chk:
        how = "thorough tier" if chk["thorough"]["exit"] == 1 else "MISSED"
        vio = chk["thorough"].get("violations", [])
    else:
        how = "quick tier" if chk.get("exit") == 1 else "MISSED"
        vio = chk.get("violations", [])
    if how != "MISSED":
        how += " (failing input)" if any("no-failing-input-found" not in v for v in vio) else " (no-failing-input-found)"
    others = [p for p in ev.get("detected_by", []) if p != pid]
    def cell(x):
        return str(x).replace("|", "/").replace("\n", " ")[:260]
    print(f"| {os.path.basename(d.rstrip('/'))} | {cell(m.get('summary', ''))} | {cell(m.get('manifests_when', ''))} | "
          f"{'yes' if ev.get('valid_seed', True) else 'NO'} | {how} | {', '.join(others) or '—'} |")
