"""Tie of `lean/JF/Props/Footprints2.lean` (`footprintsSound_concrete2` over the world `JF.CW2` of composite objects without cells)
to the code.

The theorem is about the transition relation `JF.CW2.TrRaw2` (lean/JF/Lemmas/ConcreteWorld2Inv.lean): a commit by a handler of tagger E
is the `Composite.step` of a weakly admissible event whose kind the handler class of E commits (`kindsOf`, E13) and which is possible
in the ghost mode (`modeStep`); the states satisfy `Inv` (every object consistent and with `number_of_nodes_per_root_node` point
masses; at rest, or exactly one moving chain); what the taggers yield is `JF.CW2.yieldF` of the flags "which units carry a velocity".
This module evaluates, on every recorded leg of a traced run whose configuration lives in that world (`supported2`, the Python mirror
of `JF.CW2.Supported2`; two node levels, no internal state):

* `fp2.yield`        — what the REAL taggers yield on the state after the previous commit (`fresh_pristine`: a never-deactivated copy of
                       every tagger asked on the extracted active global state) equals `yieldF` of the world on the recorded global
                       state (as multisets), for every tagger of the wiring;
* `fp2.created`      — the identifiers the created handlers were handed out with (`created`) are, per activated tagger of the create
                       list, that yield;
* `fp2.branches`     — the branches of `extract_active_global_state()` are the model's `branches`;
* `fp2.kind-map`     — which leaf AND root units changed velocity / position / time stamp is the pattern of an event kind `kindsOf`
                       allows for the committing tagger (`keep`/`snap`: no velocity changes at all);
* `fp2.mode-premise` — that kind is possible in the observed mode of the state before the commit and leads to the observed mode after it;
* `fp2.invariant`    — the recorded state satisfies the observable part of `Inv`: `Uniform`, a root carries a velocity iff one of its
                       point masses does (C12), at rest before the start and exactly one chain afterwards;
* `fp2.start`        — the first commit is the start-of-run event from the state at rest (`TrStart2`, not a transition of `Tr2`);
* `fp2.self-test`    — the mirror below reproduces `JF.Footprints2.Example.pyYieldTable` / `py_yield_table_water` (values of the Lean
                       definitions by `decide`).

Call `check_trace(ctx, tr, w)` per trace (w = `actcorr.wiring_of_trace`)."""
import os, re
from collections import Counter
from harness import modecorr

LEAF, ROOT = modecorr.LEAF, modecorr.ROOT
CLS_OK = ("noInState", "activeGlobalState", "activeRootUnit", "factorTypeMap")
SHIPPED_IN_WORLD = ("dipoles/atom_factors.ini", "dipoles/dipole_factors_inside_first.ini", "dipoles/dipole_factors_outside_first.ini",
                    "dipoles/dipole_factors_ratio.ini", "dipoles/dipole_motion.ini", "water/single_molecule.ini")   # `supported2_*`


def supported2(w):
    """JF.CW2.Supported2"""
    if w["labels"]:
        return False
    for t in w["taggers"]:
        if t["lean_cls"] not in CLS_OK or t["label_idx"] is not None:
            return False
        if t["hmode"] in ("unknown", "cellBoundary") or not modecorr.kind_agrees(t["kind"], t["hmode"]):
            return False
    return True


# ---------------------------------------------------------------------------------------------------------------
# Python mirror of lean/JF/Model/ConcreteWorld2.lean

def flags_of(snap):
    """flags: per root index (does the root carry a velocity, [does leaf j carry a velocity])"""
    roots = sorted(k[0] for k in snap if len(k) == 1)
    out = []
    for i in roots:
        nl = sum(1 for k in snap if len(k) == 2 and k[0] == i)
        out.append((snap[(i,)][1] is not None, [snap[(i, j)][1] is not None for j in range(nl)]))
    return out


def lifted_leaves(nper, f):
    return [j for j in range(nper) if j < len(f[1]) and f[1][j]]


def independent(nper, fl):
    """TreeLiftingState.yield_independent_lifted_identifiers"""
    out = []
    for i, f in enumerate(fl):
        if f[0]:
            ls = lifted_leaves(nper, f)
            out += [(i,)] if len(ls) == nper else [(i, j) for j in ls]
    return out


def branch_of(fl, ident):
    """extract_from_global_state: (root index, children)"""
    if len(ident) == 1:
        i = ident[0]
        return (i, list(range(len(fl[i][1]) if i < len(fl) else 0)))
    if len(ident) == 2:
        return (ident[0], [ident[1]])
    return (0, [])


def branches(nper, fl):
    return [branch_of(fl, x) for x in independent(nper, fl)]


def leaf_ids(b):
    return [(b[0],)] if not b[1] else [(b[0], j) for j in b[1]]


class ModelError(Exception):
    pass


def instantiate(nper, lines):
    """FactorMaps.instantiate: {type: [local, {index: [index lists]}]} in insertion order"""
    fs = {}
    for idx, ty in lines:
        if any(i >= 2 * nper for i in idx):
            raise ModelError("FactorSetError")
        tm = fs.setdefault(ty, [None, {}])
        value = all(i < nper for i in idx)
        if tm[0] is None:
            tm[0] = value
        elif value != tm[0]:
            raise ModelError("AttributeError")
        for index in idx:
            if index < nper:
                tm[1].setdefault(index, []).append(list(idx))
    return fs


def yield_factor(nroots, nper, fs, ty, act):
    """FactorMaps.yieldFactor"""
    def no_composite():
        if len(act) == 1 and act[0] < nroots:
            return [(act, (o,)) for o in range(nroots) if (o,) != act]
        raise ModelError("AssertionError")
    tm = fs.get(ty)
    if tm is None:
        if nper == 1:
            return no_composite()
        if len(act) == 2 and act[0] < nroots and act[1] < nper:
            return [(act, (o, l)) for o in range(nroots) if o != act[0] for l in range(nper)]
        raise ModelError("AssertionError")
    if tm[0] is None:
        raise ModelError("NotImplementedError")
    if tm[0]:
        if len(act) == 2 and act[0] < nroots:
            if act[1] not in tm[1]:
                raise ModelError("KeyError")
            return [tuple((act[0], t) for t in S) for S in tm[1][act[1]]]
        raise ModelError("AssertionError")
    if nper == 1:
        return no_composite()
    if len(act) == 2 and act[0] < nroots and act[1] < nper:
        r = act[0]
        return [tuple((r, t) if t < nper else (o, t - nper) for t in S)
                for o in range(nroots) if o != r for S in tm[1].get(act[1], [])]
    raise ModelError("AssertionError")


def dedupe(l):
    """CellTaggers.dedupe (keeps the last occurrence)"""
    return [x for k, x in enumerate(l) if x not in l[k + 1:]]


def yield_of(nper, fs, ftype, cls, fl):
    """JF.CW2.yieldF: list of None / tuples of identifier tuples"""
    bs = branches(nper, fl)
    if cls == "noInState":
        return [None]
    if cls == "activeGlobalState":
        ids = []
        for b in bs:
            ids += [(b[0],)] if len(b[1]) == nper else [(b[0], j) for j in b[1]]
        return [tuple(ids)]
    if cls == "activeRootUnit":
        return [((b[0],),) for b in bs]
    if cls == "factorTypeMap":
        try:
            out = []
            for b in bs:
                for leaf in leaf_ids(b):
                    out += yield_factor(len(fl), nper, fs, ftype, leaf)
            return dedupe(out)
        except ModelError:
            return []
    return []


# `JF.Footprints2.Example.pyYieldTable` (dipole_motion.ini, factor_set_dipoles_dipole.txt) and `py_yield_table_water`
_DIPOLE_LINES = [([0, 1], "Harmonic"), ([0, 3], "Repulsive"), ([1, 2], "Repulsive"), ([0, 1, 2, 3], "Coulomb")]
_WATER_LINES = [([0, 1], "Harmonic"), ([1, 2], "Harmonic"), ([1, 4], "LennardJones"), ([0, 1, 2], "Bending"), ([0, 1, 2, 3, 4, 5], "Coulomb")]
_DM_CLS = ["factorTypeMap"] * 5 + ["noInState", "activeRootUnit", "activeRootUnit", "activeGlobalState", "noInState", "noInState"]
_DM_FT = ["Harmonic", "Coulomb", "Repulsive", "Coulomb", "Repulsive", "Sampling", "LeafToRoot", "RootToLeaf", "EndOfChain", "EndOfRun", "StartOfRun"]
_I = lambda *x: tuple(tuple(i) for i in x)
_H = lambda r: _I((r, 0), (r, 1))
_C = lambda r, o: _I((r, 0), (r, 1), (o, 0), (o, 1))
SELF_TEST = [
    ([(False, [False, False]), (False, [False, False])], [[], [], [], [], [], [None], [], [], [()], [None], [None]]),
    ([(True, [True, False]), (False, [False, False])],
     [[_H(0)], [_C(0, 1)], [_I((0, 0), (1, 1))], [_C(0, 1)], [_I((0, 0), (1, 1))], [None], [_I((0,))], [_I((0,))], [_I((0, 0))], [None], [None]]),
    ([(True, [True, True]), (False, [False, False])],
     [[_H(0)], [_C(0, 1)], [_I((0, 0), (1, 1)), _I((0, 1), (1, 0))], [_C(0, 1)], [_I((0, 0), (1, 1)), _I((0, 1), (1, 0))], [None],
      [_I((0,))], [_I((0,))], [_I((0,))], [None], [None]]),
    ([(False, [False, False]), (True, [True, True])],
     [[_H(1)], [_C(1, 0)], [_I((1, 0), (0, 1)), _I((1, 1), (0, 0))], [_C(1, 0)], [_I((1, 0), (0, 1)), _I((1, 1), (0, 0))], [None],
      [_I((1,))], [_I((1,))], [_I((1,))], [None], [None]]),
    ([(True, [False, True]), (False, [False, False])],
     [[_H(0)], [_C(0, 1)], [_I((0, 1), (1, 0))], [_C(0, 1)], [_I((0, 1), (1, 0))], [None], [_I((0,))], [_I((0,))], [_I((0, 1))], [None], [None]]),
    ([(False, [False, False]), (True, [True, False])],
     [[_H(1)], [_C(1, 0)], [_I((1, 0), (0, 1))], [_C(1, 0)], [_I((1, 0), (0, 1))], [None], [_I((1,))], [_I((1,))], [_I((1, 0))], [None], [None]]),
]
_self_tested = []


def self_test(ctx):
    if _self_tested:
        return
    _self_tested.append(True)
    key = lambda l: sorted(l, key=repr)
    fs = instantiate(2, _DIPOLE_LINES)
    for fl, want in SELF_TEST:
        got = [yield_of(2, fs, _DM_FT[T], _DM_CLS[T], fl) for T in range(11)]
        if [key(g) for g in got] != [key(x) for x in want]:
            ctx.disagree("fp2.self-test", {"flags": fl}, got, want)
    fw = instantiate(3, _WATER_LINES)
    cases = [([(True, [False, True, False]), (False, [False] * 3)], "Harmonic", "factorTypeMap", [_I((0, 0), (0, 1)), _I((0, 1), (0, 2))]),
             ([(True, [False, True, False]), (False, [False] * 3)], "Bending", "factorTypeMap", [_I((0, 0), (0, 1), (0, 2))]),
             ([(False, [False] * 3), (True, [True] * 3)], "Harmonic", "factorTypeMap", [_I((1, 0), (1, 1)), _I((1, 1), (1, 2))]),
             ([(False, [False] * 3), (True, [True] * 3)], "Bending", "factorTypeMap", [_I((1, 0), (1, 1), (1, 2))]),
             ([(False, [False] * 3), (True, [True] * 3)], "EndOfChain", "activeGlobalState", [_I((1,))]),
             ([(True, [False, True, False]), (False, [False] * 3)], "EndOfChain", "activeGlobalState", [_I((0, 1))])]
    for fl, ft, cls, want in cases:
        got = yield_of(3, fw, ft, cls, fl)
        if key(got) != key(want):
            ctx.disagree("fp2.self-test", {"flags": fl, "type": ft}, got, want)
    ctx.count("fp2:self-test")


# ---------------------------------------------------------------------------------------------------------------
# reading the configuration of a trace

def _camel(s):
    return "".join(w[:1].upper() + w[1:] for w in s.split("_"))


_LINE = re.compile(r"(\[(?:[0-9]+, )*[0-9]+\]),\s((?:[A-Z][a-z]*)+)")


def factor_env(ctx, meta, w):
    """-> (factors, {tag: factor type}) of the run, or None if the configuration has no readable factor file"""
    cfg = meta.get("config") or {}
    ftype, fsec = {}, None
    for t in w["taggers"]:
        if t["lean_cls"] != "factorTypeMap":
            continue
        opts = cfg.get(t["section"], {})
        lab = opts.get("factor_type_maps_label")
        ftype[t["tag"]] = _camel((lab or t["tag"]).replace("\n", "").strip())
        fsec = _camel(opts.get("factor_type_maps", "factor_type_maps").split("(")[0].strip())
    if not ftype:
        return {}, {}
    fn = (cfg.get(fsec) or {}).get("filename")
    if fn is None:
        return None
    path = fn if os.path.isabs(fn) else os.path.join(ctx.root, "jellyfysh", fn)
    lines = []
    with open(path) as f:
        for line in f:
            if line.startswith("#"):
                continue
            m = _LINE.match(line)
            if m is None:
                raise ModelError("FactorSetError")
            lines.append(([int(x) for x in re.findall(r"[0-9]+", m.group(1))], m.group(2)))
    return instantiate(meta["n_per_root"], lines), ftype


# ---------------------------------------------------------------------------------------------------------------
# observation of one commit

def _changed(pre, post, k):
    return tuple(pre[k][j] != post[k][j] for j in range(3))      # (position, velocity, time stamp)


def instances2(pre, post, nper):
    """the event kinds the commit pre -> post is an instance of: `modecorr.instances` (which point masses move before / after, velocity
    handed over unchanged) refined by what `Composite.step` does to ALL units: same identifiers; a unit at rest before and after is
    untouched and carries no time stamp, a moving unit carries one; `keep` / `snap` change no velocity of any unit (roots included)"""
    if sorted(pre) != sorted(post):
        return set()
    for k in pre:
        if pre[k][1] is None and post[k][1] is None and any(_changed(pre, post, k)):
            return set()
        if (post[k][1] is None) != (post[k][2] is None):
            return set()
    inst = set(modecorr.instances(pre, post, nper))
    if any(_changed(pre, post, k)[1] for k in pre):
        inst -= {"keep", "snap"}
    return inst


def invariant_defects(snap, nper, started):
    """the observable part of `Inv`"""
    bad = []
    roots = sorted(k[0] for k in snap if len(k) == 1)
    if roots != list(range(len(roots))):
        bad.append("roots-not-0..n-1")
    for i in roots:
        leaves = sorted(k[1] for k in snap if len(k) == 2 and k[0] == i)
        if leaves != list(range(nper)):
            bad.append(f"uniform:{i}")
        if (snap[(i,)][1] is not None) != any(snap[(i, j)][1] is not None for j in leaves):
            bad.append(f"root-flag:{i}")
    mv = modecorr.moving(snap, nper)
    if started and not modecorr.observed_modes(snap, nper):
        bad.append("one-chain")
    if not started and mv:
        bad.append("not-at-rest-before-start")
    return bad


def _ms(l):
    return Counter(repr(x) for x in l)


def check_trace(ctx, tr, w):
    """evaluate the correspondences on every recorded leg of `tr`; returns the number of legs judged"""
    meta = tr["meta"]
    ini = meta.get("ini", "")
    in_world = supported2(w) and meta.get("levels") == 2
    job = tr.get("job") or {}
    overrides = job.get("overrides") or {}
    if ini.endswith(SHIPPED_IN_WORLD) and "TagActivator" not in overrides and not job.get("ini_text") and not in_world:
        ctx.disagree("fp2.supported", {"ini": ini}, "a configuration of composite objects without internal state", "not Supported2")
    if not in_world or not tr["legs"]:
        ctx.count("fp2:trace-outside-world")
        return 0
    self_test(ctx)
    ctx.count("fp2:trace-in-world")
    nper = meta["n_per_root"]
    case0 = {"ini": ini, "seed": meta.get("seed"), "job": job}
    try:
        fe = factor_env(ctx, meta, w)
    except Exception as e:
        fe = None
        ctx.count("fp2:factor-file-unreadable:" + type(e).__name__)
    fs, ftype = fe if fe is not None else (None, {})
    tagger = {t["tag"]: t for t in w["taggers"]}
    idx_tag = [t["tag"] for t in w["taggers"]]
    nbad = {}

    def bad_(corr, case, impl, model):
        nbad[corr] = nbad.get(corr, 0) + 1
        if nbad[corr] <= 3:
            ctx.disagree(corr, case, impl, model)
        else:
            ctx.count("disagreement(more):" + corr)
    legs = tr["legs"]
    pre = tr["initial"]
    for i, leg in enumerate(legs):
        case = {**case0, "leg": i, "handler": list(meta["handlers"][leg["chosen"]])}
        fl = flags_of(pre)
        # --- the invariant of the state the taggers are asked on
        defects = invariant_defects(pre, nper, started=i > 0)
        ctx.count("fp2:invariant:" + ("ok" if not defects else "BAD"))
        if defects:
            bad_("fp2.invariant", case, defects, "Inv")
        # --- the active branches
        bs = branches(nper, fl)
        mine = sorted({(b[0],) for b in bs} | {(b[0], j) for b in bs for j in b[1]})
        if "active" in leg:
            real = sorted(tuple(k) for k in leg["active"])
            ok = real == mine and _ms(tuple(r) for r in leg.get("active_roots", [])) == _ms((b[0],) for b in bs)
            ctx.count("fp2:branches:" + ("ok" if ok else "BAD"))
            if not ok:
                bad_("fp2.branches", case, {"units": real, "roots": leg.get("active_roots")}, {"units": mine, "branches": bs})
        # --- what the taggers yield
        model_yield = {}
        for t in w["taggers"]:
            if t["lean_cls"] == "factorTypeMap" and fs is None:
                continue
            model_yield[t["tag"]] = yield_of(nper, fs, ftype.get(t["tag"]), t["lean_cls"], fl)
        fp = leg.get("fresh_pristine") or {}
        for tag, mine_y in model_yield.items():
            real_y = fp.get(tag)
            if real_y is None:
                continue
            ok = not isinstance(real_y, str) and _ms(real_y) == _ms(mine_y)
            ctx.count(f"fp2:yield:{tagger[tag]['lean_cls']}:" + ("ok" if ok else "BAD"))
            ctx.cls(("fp2", tagger[tag]["lean_cls"], tagger[tag]["kind"], len(mine_y), len(bs)))
            if not ok:
                bad_("fp2.yield", {**case, "tagger": tag}, real_y, mine_y)
        # --- the created handlers carry that yield
        pre_h = leg.get("preceding")
        creating = ([t["tag"] for t in w["taggers"] if t["kind"] == "startOfRun"] if pre_h is None
                    else tagger[meta["handlers"][pre_h][0]]["creates"])
        by_tag = {}
        for h, ids in leg["created"]:
            by_tag.setdefault(meta["handlers"][h][0], []).append(None if ids is None else tuple(tuple(x) for x in ids))
        for tag in set(creating) | set(by_tag):
            if tag not in model_yield:
                continue
            want = model_yield[tag] if (leg.get("activated") or {}).get(tag, True) and tag in creating else []
            ok = _ms(by_tag.get(tag, [])) == _ms(want)
            ctx.count("fp2:created:" + ("ok" if ok else "BAD"))
            if not ok:
                bad_("fp2.created", {**case, "tagger": tag}, by_tag.get(tag, []), want)
        # --- the commit is an instance of the transition relation
        post = leg["post"]
        etag = meta["handlers"][leg["chosen"]][0]
        h = tagger[etag]["hmode"]
        inst = instances2(pre, post, nper)
        if i == 0:
            ok = h.startswith("start") and "start" in inst and not modecorr.moving(pre, nper) and bool(modecorr.observed_modes(post, nper))
            ctx.count("fp2:start:" + ("ok" if ok else "BAD"))
            if not ok:
                bad_("fp2.start", case, {"hmode": h, "instances": sorted(inst)}, "start from rest")
        else:
            allowed = [k for k in modecorr.ALL_KINDS if k != "start" and
                       (k in modecorr.kinds_of(h, LEAF) or k in modecorr.kinds_of(h, ROOT))]
            hit = [k for k in allowed if k in inst]
            ctx.count(f"fp2:kind-map:{h.split()[0]}:" + ("+".join(hit) or "NONE"))
            if not hit:
                bad_("fp2.kind-map", {**case, "hmode": h}, sorted(inst), allowed)
            else:
                m0s, m1s = modecorr.observed_modes(pre, nper), modecorr.observed_modes(post, nper)
                ok = any(modecorr.k_step(m, k) in m1s for m in m0s for k in hit)
                ctx.count("fp2:mode-premise:" + ("holds" if ok else "VIOLATED"))
                if not ok:
                    bad_("fp2.mode-premise", {**case, "kinds": hit}, {"before": sorted(m0s), "after": sorted(m1s)}, "modeStep")
        pre = post
    defects = invariant_defects(pre, nper, started=True)
    if defects:
        bad_("fp2.invariant", {**case0, "leg": len(legs)}, defects, "Inv")
    if str(tr.get("end")).startswith("exc:TagActivatorError"):
        # the leg after the last recorded commit raised while handlers were created (it is not recorded): does the model's yield on
        # the last recorded state (plus what stays pending) fit into the pools of the created taggers?  If so the real taggers
        # yielded more than the model says.
        last = tagger[meta["handlers"][legs[-1]["chosen"]][0]]
        s2 = modecorr.a_step(w, tuple(bool(legs[-1]["activated"][t]) for t in idx_tag), idx_tag.index(last["tag"]))
        fl = flags_of(pre)
        fits = True
        for tag in last["creates"]:
            t = tagger[tag]
            if s2[idx_tag.index(tag)] and not (t["lean_cls"] == "factorTypeMap" and fs is None):
                still = 0 if tag in last["trashes"] else len((legs[-1].get("pending") or {}).get(tag, []))
                fits = fits and still + len(yield_of(nper, fs, ftype.get(tag), t["lean_cls"], fl)) <= t["pool"]
        ctx.count("fp2:pool-exhausted:" + ("model-fits(BAD)" if fits else "model-too"))
        if fits:
            bad_("fp2.yield", {**case0, "leg": len(legs), "what": "TagActivatorError in the leg after the last commit"},
                 "handler pool exhausted", "the yields of the model fit into the pools")
    ctx.evaluations += len(legs)
    return len(legs)
