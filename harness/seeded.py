"""Evaluate seeded defects: for every /verif/seeded/<name>/ (patch.diff, demo.py, meta.json)
 1. confirm on scratch copies of /repo: the demo passes on the clean tree and fails on the patched tree, and the repository's
    test suite still passes on the patched tree;
 2. run the target property's check (quick, then thorough if quick is silent) with VERIF_REPO pointing at the patched copy,
    optionally every other check too (--all), and record which checks report a VIOLATION.
Usage: /venv/bin/python -m harness.seeded [--all] [--skip-confirm] [--only NAME ...]
"""
import argparse, json, os, shutil, subprocess, sys, tempfile, time

VERIF = os.path.dirname(os.path.dirname(os.path.abspath(__file__)))
PY = "/venv/bin/python"
BUILD = ["jellyfysh/scheduler/heap_scheduler/heap_build.py",
         "jellyfysh/potential/merged_image_coulomb_potential/merged_image_coulomb_potential_build.py",
         "jellyfysh/potential/inverse_power_coulomb_bounding_potential/inverse_power_coulomb_bounding_potential_build.py"]


def copy_repo(dst):
    shutil.copytree("/repo", dst, ignore=shutil.ignore_patterns(".git", "build", "__pycache__", "*.so", "*.o", ".pytest_cache"), symlinks=True)


def build_ext(root):
    for s in BUILD:
        subprocess.run([PY, s], cwd=root, capture_output=True)


def run_demo(root, demo):
    env = {**os.environ, "PYTHONPATH": root}
    try:
        p = subprocess.run([PY, demo], cwd=root, env=env, capture_output=True, text=True, timeout=900)
    except subprocess.TimeoutExpired as e:
        return 124, "TIMEOUT after 900 s: " + str((e.stdout or b"")[-300:])
    return p.returncode, (p.stdout + p.stderr)[-600:]


def run_tests(root):
    env = {**os.environ, "PYTHONPATH": root}
    p = subprocess.run([PY, "-m", "pytest", "-q", "-p", "no:cacheprovider", "--timeout=900", "-x"], cwd=root, env=env, capture_output=True, text=True)
    return p.returncode, p.stdout.strip().splitlines()[-1] if p.stdout.strip() else ""


def run_check(pid, root, tier):
    t0 = time.time()
    p = subprocess.run(["./check", pid, "--tier", tier], cwd=VERIF, env={**os.environ, "VERIF_REPO": root}, capture_output=True, text=True)
    lines = [l for l in p.stdout.splitlines() if l.startswith("VIOLATION")]
    return {"exit": p.returncode, "violations": lines[:4], "wall_s": round(time.time() - t0, 1)}


def main():
    ap = argparse.ArgumentParser()
    ap.add_argument("--all", action="store_true")
    ap.add_argument("--skip-confirm", action="store_true")
    ap.add_argument("--only", nargs="*")
    a = ap.parse_args()
    sd = os.path.join(VERIF, "seeded")
    manifest = json.load(open(os.path.join(VERIF, "MANIFEST.json")))
    claimed = [c["property_id"] for c in manifest["checks"]]
    for name in sorted(os.listdir(sd)):
        d = os.path.join(sd, name)
        if not os.path.isdir(d) or (a.only and name not in a.only):
            continue
        meta = json.load(open(os.path.join(d, "meta.json")))
        pid = meta["property"]
        work = tempfile.mkdtemp(prefix="jfseed_")
        try:
            clean, mut = os.path.join(work, "clean"), os.path.join(work, "mut")
            copy_repo(mut)
            ap_ = subprocess.run(["patch", "-p1", "-s", "-i", os.path.join(d, "patch.diff")], cwd=mut, capture_output=True, text=True)
            if ap_.returncode != 0:
                print(name, "PATCH DOES NOT APPLY", ap_.stdout[-300:], ap_.stderr[-300:])
                continue
            build_ext(mut)
            res = meta.setdefault("evaluation", {})
            if not a.skip_confirm:
                copy_repo(clean)
                build_ext(clean)
                rc0, out0 = run_demo(clean, os.path.join(d, "demo.py"))
                rc1, out1 = run_demo(mut, os.path.join(d, "demo.py"))
                trc, tline = run_tests(mut)
                res["confirmed"] = {"demo_clean_exit": rc0, "demo_patched_exit": rc1, "demo_patched_output": out1[-300:],
                                    "tests_on_patched": tline, "tests_exit": trc}
                ok = (rc0 == 0 and rc1 != 0 and trc == 0)
                res["valid_seed"] = ok
                print(f"{name}: demo clean={rc0} patched={rc1} tests={tline!r} -> {'VALID' if ok else 'INVALID'}")
            det = {}
            targets = [pid] + ([p for p in claimed if p != pid] if a.all else [])
            for p in targets:
                r = run_check(p, mut, "quick")
                if r["exit"] == 0 and p == pid:
                    r2 = run_check(p, mut, "thorough")
                    r = {"quick": r, "thorough": r2, "exit": r2["exit"], "violations": r2["violations"]}
                det[p] = r
                print(f"   {p}: exit={r['exit']} {r['violations'][:1]}")
            res["checks"] = det
            res["detected_by"] = sorted(p for p, r in det.items() if r["exit"] == 1)
            res["detected_with_failing_input_by"] = sorted(p for p, r in det.items() if r["exit"] == 1 and any("no-failing-input-found" not in v for v in r["violations"]))
            json.dump(meta, open(os.path.join(d, "meta.json"), "w"), indent=1)
        finally:
            shutil.rmtree(work, ignore_errors=True)


if __name__ == "__main__":
    main()
