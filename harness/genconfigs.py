"""Harness-built configurations (complete .ini texts assembled from the same sections the shipped files use):
soft spheres (directly invertible inverse-power pair events) in cubic and NON-cubic boxes, 2 or 3 dimensions, with a cell system
whose only job is the cell-boundary bookkeeping (cell_boundary tagger + SingleActiveCellOccupancy), and dense cell-bounded /
cell-veto Coulomb systems on coarse grids (several particles per cell, surplus units)."""


def soft_spheres_cells(rng, name="gen_soft_spheres_cells"):
    dim = rng.choice([2, 3])
    cubic = rng.random() < 0.3
    base = rng.choice([1.0, 1.3, 2.0])
    lengths = [base] * dim if cubic else [round(base * rng.choice([1.0, 1.25, 1.6, 0.7, 2.2]), 3) for _ in range(dim)]
    if not cubic and len(set(lengths)) == 1:
        lengths[-1] = round(lengths[-1] * 1.6, 3)
    n = rng.randint(3, 8)
    cells = [rng.randint(2, 5) for _ in range(dim)]
    sched = rng.choice(["heap_scheduler", "list_scheduler"])
    # (the sequential-direction end of chain rotates the velocity off the axes; the inverse-power potential supports only
    # axis-aligned velocities, so that combination is not a supported configuration)
    eoc = "periodic"
    eoc_cls = ("single_independent_active_periodic_direction_end_of_chain_event_handler" if eoc == "periodic"
               else "single_independent_active_sequential_direction_end_of_chain_event_handler")
    eoc_sec = ("SingleIndependentActivePeriodicDirectionEndOfChainEventHandler" if eoc == "periodic"
               else "SingleIndependentActiveSequentialDirectionEndOfChainEventHandler")
    eoc_extra = "" if eoc == "periodic" else "delta_phi_degree = %s\n" % rng.choice([1.0, 37.5, 90.0, 213.0])
    txt = f"""[Run]
mediator = single_process_mediator
setting = hypercuboid_setting
[HypercuboidSetting]
system_lengths = {", ".join(str(x) for x in lengths)}
beta = {rng.choice([0.5, 1.0, 2.0])}
dimension = {dim}
[SingleProcessMediator]
state_handler = tree_state_handler
scheduler = {sched}
activator = tag_activator
input_output_handler = input_output_handler
[TagActivator]
taggers =
    coulomb (factor_type_map_in_state_tagger),
    cell_boundary (cell_boundary_tagger),
    sampling (no_in_state_tagger),
    end_of_chain (active_global_state_in_state_tagger),
    end_of_run (no_in_state_tagger),
    start_of_run (no_in_state_tagger)
internal_states = single_active_cell_occupancy
[SingleActiveCellOccupancy]
cells = cuboid_periodic_cells
cell_level = 1
[CuboidPeriodicCells]
cells_per_side = {", ".join(str(c) for c in cells)}
[Coulomb]
create = coulomb, cell_boundary
trash = coulomb, cell_boundary
event_handler = two_leaf_unit_event_handler
number_event_handlers = {n}
factor_type_maps = factor_type_maps
[TwoLeafUnitEventHandler]
potential = inverse_power_potential
[InversePowerPotential]
power = {rng.choice([1.0, 2.0, 6.0])}
prefactor = 1.0
[FactorTypeMaps]
filename = config_files/factor_set_files/factor_set_coulomb_atoms.txt
[CellBoundary]
create = cell_boundary
trash = cell_boundary
internal_state_label = single_active_cell_occupancy
event_handler = cell_boundary_event_handler
[Sampling]
create = sampling
trash = sampling
event_handler = fixed_interval_sampling_event_handler
[FixedIntervalSamplingEventHandler]
sampling_interval = {rng.choice([0.13, 0.37, 1.0])}
output_handler = separation_output_handler
first_event_time_zero = {rng.choice(["True", "False"])}
[EndOfChain]
create = end_of_chain, coulomb, cell_boundary
trash = end_of_chain, coulomb, cell_boundary
event_handler = {eoc_cls}
[{eoc_sec}]
chain_time = {rng.choice([0.3, 0.78965, 1.9])}
{eoc_extra}[EndOfRun]
create = end_of_run
trash = end_of_chain, coulomb, cell_boundary, sampling, end_of_run
event_handler = final_time_end_of_run_event_handler
[FinalTimeEndOfRunEventHandler]
end_of_run_time = {rng.choice([4.0, 7.5, 12.25])}
[StartOfRun]
create = coulomb, cell_boundary, sampling, end_of_chain, end_of_run
trash = start_of_run
event_handler = initial_chain_start_of_run_event_handler
[InitialChainStartOfRunEventHandler]
initial_direction_of_motion = {rng.randrange(dim)}
speed = {rng.choice([1.0, 1.0, 0.37, 2.5])}
initial_active_identifier = {rng.randrange(n)}
[TreeStateHandler]
physical_state = tree_physical_state
lifting_state = tree_lifting_state
[InputOutputHandler]
output_handlers = separation_output_handler
input_handler = random_input_handler
[RandomInputHandler]
random_node_creator = atom_random_node_creator
number_of_root_nodes = {n}
[AtomRandomNodeCreator]
charge_values = electric_charge_values (charge_values)
[ElectricChargeValues]
charge_name = electric_charge
charge_values = 1
[SeparationOutputHandler]
filename = output/2018_JCP_149_064113/coulomb_atoms/SamplesOfSeparation_{name}.dat
"""
    return {"ini": f"generated/{name}_{dim}d_{'cubic' if cubic else 'cuboid'}_{eoc}.ini", "ini_text": txt}


def dense_cells(rng, cfg_prefix):
    """shipped Coulomb cell configurations made dense: coarse grid, many atoms -> several atoms per cell, surplus units, liftings
    inside one cell, cell crossings into occupied cells"""
    base = rng.choice(["coulomb_atoms/cell_bounded.ini", "coulomb_atoms/cell_bounded.ini", "coulomb_atoms/cell_veto.ini"])
    n = rng.randint(6, 12)
    if "veto" in base:
        cps = ", ".join(str(rng.choice([4, 4, 5])) for _ in range(3))     # the cell-veto walker needs a non-empty far domain
    else:
        cps = ", ".join(str(rng.choice([3, 3, 4])) for _ in range(3))
    ov = {"RandomInputHandler": {"number_of_root_nodes": n},
          "CuboidPeriodicCells": {"cells_per_side": cps},
          "FinalTimeEndOfRunEventHandler": {"end_of_run_time": rng.choice([2.0, 3.5, 5.0])},
          "SingleIndependentActivePeriodicDirectionEndOfChainEventHandler": {"chain_time": rng.choice([0.2, 0.5, 0.78965])},
          "CoulombNearby": {"number_event_handlers": n + 2}, "CoulombSurplus": {"number_event_handlers": n + 2},
          "SingleProcessMediator": {"scheduler": rng.choice(["heap_scheduler", "list_scheduler"])}}
    if "bounded" in base:
        ov["CoulombCellBounding"] = {"number_event_handlers": n + 2}
    return {"ini": cfg_prefix + base, "overrides": ov}


def water_motion(rng, cfg_prefix):
    """the shipped dipole_motion.ini (root/leaf mode switching, root-mode pair events, liftings between molecules) run with
    THREE-site molecules (weights 1/3, inexact in binary64): water geometry and factor file, a box that fits the molecules"""
    n = rng.randint(3, 4)
    ov = {"FactorTypeMaps": {"filename": "config_files/factor_set_files/factor_set_water.txt"},
          "RandomInputHandler": {"random_node_creator": "water_random_node_creator", "number_of_root_nodes": n},
          "WaterRandomNodeCreator": {"charge_values": "electric_charge_values (charge_values)"},
          "ElectricChargeValues": {"charge_values": "0.41, -0.82, 0.41"},
          "HypercubicSetting": {"system_length": rng.choice([5.0, 6.0])},
          "HarmonicPotential": {"equilibrium_separation": 1.012, "prefactor": rng.choice([100, 200])},
          "FinalTimeEndOfRunEventHandler": {"end_of_run_time": rng.choice([20, 35])},
          "InitialChainStartOfRunEventHandler": {"speed": rng.choice([1.0, 0.7, 1.3])},
          "CoulombLeaf": {"number_event_handlers": n}, "CoulombRoot": {"number_event_handlers": n},
          "HarmonicLeaf": {"number_event_handlers": 3}, "RepulsiveLeaf": {"number_event_handlers": 9 * n},
          "RepulsiveRoot": {"number_event_handlers": 9 * n}}
    return {"ini": cfg_prefix + "dipoles/dipole_motion.ini", "overrides": ov}


def activation_variant(root, cfg_prefix):
    """the shipped dipole_motion.ini with the end-of-chain tagger switched off by the start-of-run event (whose lists the activator
    applies twice) and switched on again by the first leaf-to-root mode switch: a legitimate wiring that exercises
    deactivate -> deactivate -> activate on a tagger no shipped file ever deactivates"""
    import configparser, os
    cp = configparser.ConfigParser()
    cp.read(os.path.join(root, "jellyfysh", cfg_prefix + "dipoles/dipole_motion.ini"))
    def add(sec, key, tag):
        cur = cp.get(sec, key) if cp.has_option(sec, key) else ""
        return (cur.rstrip() + (", " if cur.strip() else "") + tag)
    act = [t.strip() for t in cp.get("StartOfRun", "activate").split(",") if t.strip() and t.strip() != "end_of_chain"]
    ov = {"StartOfRun": {"deactivate": add("StartOfRun", "deactivate", "end_of_chain"), "activate": ", ".join(act)},
          "LeafToRoot": {"activate": add("LeafToRoot", "activate", "end_of_chain")}}
    return {"ini": cfg_prefix + "dipoles/dipole_motion.ini", "overrides": ov}



def hard_disks_cells(rng):
    """hard disks in cubic and non-cubic 2-D boxes with a cell-occupancy system and the SEQUENTIAL-direction end of chain: the velocity
    is rotated off the axes, so components of both signs occur (the negative branch of the cell-boundary handler, wrap-around through
    the lower edge); hard cores support arbitrary velocities. Complete .ini text. `hard_core`: runtrace rejects random initial states
    with overlapping cores before the first leg (re-run with another seed)."""
    cubic = rng.random() < 0.25
    base = rng.choice([4.0, 5.0, 3.2])
    lengths = [base, base] if cubic else [base, round(base * rng.choice([0.8, 1.25, 0.6, 1.5]), 3)]
    cells = [rng.randint(3, 5), rng.randint(3, 5)]
    n = rng.randint(4, 9)
    radius = rng.choice([0.05, 0.1, 0.08])
    txt = f"""[Run]
mediator = single_process_mediator
setting = hypercuboid_setting
[HypercuboidSetting]
system_lengths = {lengths[0]}, {lengths[1]}
beta = 1
dimension = 2
[SingleProcessMediator]
state_handler = tree_state_handler
scheduler = {rng.choice(["heap_scheduler", "list_scheduler"])}
activator = tag_activator
input_output_handler = input_output_handler
[TagActivator]
taggers =
    nearby_disk (excluded_cells_tagger),
    surplus_disk (surplus_cells_tagger),
    cell_boundary (cell_boundary_tagger),
    sampling (no_in_state_tagger),
    end_of_chain (active_global_state_in_state_tagger),
    end_of_run (no_in_state_tagger),
    start_of_run (no_in_state_tagger)
internal_states = single_active_cell_occupancy
[SingleActiveCellOccupancy]
cells = cuboid_periodic_cells
cell_level = 1
maximum_number_occupants = {rng.choice([1, 2, -1])}
[CuboidPeriodicCells]
cells_per_side = {cells[0]}, {cells[1]}
neighbor_layers = 1
[NearbyDisk]
create = nearby_disk, surplus_disk, cell_boundary
trash = nearby_disk, surplus_disk, cell_boundary
internal_state_label = single_active_cell_occupancy
event_handler = hard_disk_event_handler (two_leaf_unit_event_handler)
number_event_handlers = {4 * n}
[SurplusDisk]
create = nearby_disk, surplus_disk, cell_boundary
trash = nearby_disk, surplus_disk, cell_boundary
internal_state_label = single_active_cell_occupancy
event_handler = hard_disk_event_handler (two_leaf_unit_event_handler)
number_event_handlers = {4 * n}
[HardDiskEventHandler]
potential = hard_sphere_potential
[HardSpherePotential]
radius = {radius}
[CellBoundary]
create = nearby_disk, surplus_disk, cell_boundary
trash = nearby_disk, surplus_disk, cell_boundary
internal_state_label = single_active_cell_occupancy
event_handler = cell_boundary_event_handler
[Sampling]
create = sampling
trash = sampling
event_handler = fixed_interval_sampling_event_handler
[FixedIntervalSamplingEventHandler]
sampling_interval = {rng.choice([0.7, 1.3, 2.5])}
output_handler = dummy_output_handler
[EndOfChain]
create = end_of_chain, nearby_disk, surplus_disk, cell_boundary
trash = end_of_chain, nearby_disk, surplus_disk, cell_boundary
event_handler = single_independent_active_sequential_direction_end_of_chain_event_handler
[SingleIndependentActiveSequentialDirectionEndOfChainEventHandler]
chain_time = {rng.choice([1.1, 3.3, 0.6])}
delta_phi_degree = {rng.choice([100.0, 37.5, 213.0, 90.0, 181.0])}
[EndOfRun]
create = end_of_run
trash = end_of_chain, nearby_disk, surplus_disk, cell_boundary, sampling, start_of_run, end_of_run
event_handler = final_time_end_of_run_event_handler
[FinalTimeEndOfRunEventHandler]
end_of_run_time = {rng.choice([40.0, 75.5, 120.0])}
[StartOfRun]
trash = start_of_run
create = nearby_disk, surplus_disk, cell_boundary, sampling, end_of_chain, end_of_run
event_handler = initial_chain_start_of_run_event_handler
[InitialChainStartOfRunEventHandler]
initial_direction_of_motion = {rng.randrange(2)}
speed = {rng.choice([1.0, 1.0, 0.5, 2.0])}
initial_active_identifier = {rng.randrange(n)}
[TreeStateHandler]
physical_state = tree_physical_state
lifting_state = tree_lifting_state
[InputOutputHandler]
output_handlers = dummy_output_handler
input_handler = random_input_handler
[RandomInputHandler]
random_node_creator = atom_random_node_creator
number_of_root_nodes = {n}
[AtomRandomNodeCreator]
[DummyOutputHandler]
"""
    return {"ini": "generated/hard_disks_cells.ini", "ini_text": txt, "overrides": {}, "hard_core": radius}
