"""E40 — translator of the POOL data of every shipped .ini  ->  `lean/JF/Gen/Pools.lean`.

Per configuration one `def pool_<name> : JF.C09Pools.PoolCfg` (the wiring `cfg_<name>` of `JF/Gen/Wirings.lean` + number of root
nodes, nodes per root node, factor file, factor type per tagger, and per internal state: cell level, grid, neighbour layers, occupant
limit, number of relevant units) and one generated obligation

    theorem shortfalls_<name> : shortfalls pool_<name> = [<(tagger index, pool, bound)>…] := by decide +kernel

whose right-hand side is computed HERE by an independent Python reading of the same bounds (`demand_bound`); `[]` = every pool of
the configuration is at least the demand bound.  A disagreement between the two readings breaks the build (reported by the
framework as a broken proof), never a silent pass.

Everything that is a rule of the code is read from the tree under translation: the `.ini` files through `translate.read_config` /
`translate._named` (the factory's rules), `number_of_nodes_per_root_node` of a random node creator from the `ast` of its property,
the PDB file through its ATOM records (residues = root nodes), factor files by the regular expression of `factor_type_maps.py`.

Hook (the coordinator adds ONE line to `translate.regenerate`, after `c = …`):

    import translate_pools; d = translate_pools.regenerate(root)      # returns {"configs": n, "changed": bool}
    return {"configs": len(ws), "changed": a or b or c or d["changed"]}

`python3 harness/translate_pools.py [root]` regenerates by hand.
"""
import ast, os, re, sys

sys.path.insert(0, os.path.dirname(os.path.abspath(__file__)))
import translate as TR          # noqa: E402  (not edited; its helpers are reused)

GEN_POOLS = os.path.join(TR.GEN, "Pools.lean")


class PoolTranslationError(TR.TranslationError):
    pass


# ---------------------------------------------------------------------------------------------------------------
# reading one configuration

def _opt(config, sec, key, default=None):
    if config.has_section(sec) and config.has_option(sec, key):
        return config.get(sec, key).replace("\n", "")
    return default


def nodes_per_root_of_creator(root, tree, cls):
    """`number_of_nodes_per_root_node` property of the random node creator class `cls` (CamelCase): its `return <int>`"""
    path = os.path.join(root, "jellyfysh", "input_output_handler", "input_handler", "random_node_creator",
                        tree.strings.to_snake_case(cls) + ".py")
    try:
        mod = ast.parse(open(path).read())
    except OSError as e:
        raise PoolTranslationError(f"cannot read node creator {cls}: {e}")
    for node in ast.walk(mod):
        if isinstance(node, ast.FunctionDef) and node.name == "number_of_nodes_per_root_node":
            for sub in ast.walk(node):
                if isinstance(sub, ast.Return) and isinstance(sub.value, ast.Constant) and isinstance(sub.value.value, int):
                    return sub.value.value
    raise PoolTranslationError(f"number_of_nodes_per_root_node of {cls} unreadable")


def pdb_shape(path):
    """(number of residues, atoms per residue) of the ATOM/HETATM records, as MDAnalysis groups them (residue number column)"""
    residues = []
    for line in open(path):
        if line.startswith(("ATOM", "HETATM")):
            resid = line[22:26].strip()
            if not residues or residues[-1][0] != resid:
                residues.append([resid, 0])
            residues[-1][1] += 1
    if not residues:
        raise PoolTranslationError(f"no ATOM records in {path}")
    per = {n for _, n in residues}
    if len(per) != 1:
        raise PoolTranslationError(f"residues of different sizes in {path}")
    return len(residues), per.pop()


def charge_table(tree, config, sec):
    """`charge_values = a (charge_values), b (charge_values)` of section `sec` -> {charge_name: [values]}"""
    out = {}
    v = _opt(config, sec, "charge_values")
    if v is None:
        return out
    for entry in TR._list(v):
        csec, _ = TR._named(tree, entry)
        name = _opt(config, csec, "charge_name")
        vals = _opt(config, csec, "charge_values")
        if name is None or vals is None:
            raise PoolTranslationError(f"[{csec}] charge section unreadable")
        out[name] = [float(x) for x in TR._list(vals)]
    return out


def input_shape(root, tree, config):
    """-> (nRoots, nPer, {charge_name: [value per node of a root node]})"""
    med_sec, _ = TR._named(tree, config.get("Run", "mediator").replace("\n", ""))
    io_sec, _ = TR._named(tree, config.get(med_sec, "input_output_handler").replace("\n", ""))
    in_sec, in_cls = TR._named(tree, config.get(io_sec, "input_handler").replace("\n", ""))
    if in_cls == "RandomInputHandler":
        n_roots = int(_opt(config, in_sec, "number_of_root_nodes"))
        c_sec, c_cls = TR._named(tree, _opt(config, in_sec, "random_node_creator"))
        return n_roots, nodes_per_root_of_creator(root, tree, c_cls), charge_table(tree, config, c_sec)
    if in_cls == "PdbInputHandler":
        fn = _opt(config, in_sec, "filename")
        n_roots, n_per = pdb_shape(os.path.join(root, "jellyfysh", fn))
        return n_roots, n_per, charge_table(tree, config, in_sec)
    raise PoolTranslationError(f"input handler class {in_cls} unknown")


def dimension_of(tree, config):
    s_sec, _ = TR._named(tree, config.get("Run", "setting").replace("\n", ""))
    return int(_opt(config, s_sec, "dimension"))


def occ_data(tree, config, label_section, dim, n_roots, n_per, charges):
    sec = label_section
    level = int(_opt(config, sec, "cell_level"))
    cap = int(_opt(config, sec, "maximum_number_occupants", "1"))          # default of SingleActiveCellOccupancy.__init__
    charge = _opt(config, sec, "charge")
    c_sec, c_cls = TR._named(tree, _opt(config, sec, "cells"))
    if c_cls not in ("CuboidPeriodicCells",):
        raise PoolTranslationError(f"cell system class {c_cls} not modelled")
    cps = [int(x) for x in TR._list(_opt(config, c_sec, "cells_per_side"))]
    cps = [cps[i] if i < len(cps) else cps[0] for i in range(dim)]          # CuboidCells.__init__
    layers = int(_opt(config, c_sec, "neighbor_layers", "1"))
    levels = 1 if n_per == 1 else 2
    if level == levels and n_per > 1:            # leaves
        if charge is not None:
            if charge not in charges:
                raise PoolTranslationError(f"charge {charge!r} of [{sec}] has no charge_values")
            n_rel = n_roots * sum(1 for v in charges[charge] if v != 0)
        else:
            n_rel = n_roots * n_per
    elif level == 1:
        if charge is not None and n_per == 1:
            n_rel = n_roots * sum(1 for v in charges[charge] if v != 0)
        else:
            n_rel = n_roots
    else:
        raise PoolTranslationError(f"cell level {level} of [{sec}] not modelled")
    return {"level": level, "n": cps, "layers": layers, "cap": cap, "n_rel": n_rel, "charge": charge}


def pool_data(root, tree, config, wiring):
    n_roots, n_per, charges = input_shape(root, tree, config)
    dim = dimension_of(tree, config)
    act_sec = None
    med_sec, _ = TR._named(tree, config.get("Run", "mediator").replace("\n", ""))
    act_sec, _ = TR._named(tree, config.get(med_sec, "activator").replace("\n", ""))
    occs = []
    if config.has_option(act_sec, "internal_states"):
        for entry in TR._list(config.get(act_sec, "internal_states")):
            sec, cls = TR._named(tree, entry)
            if cls != "SingleActiveCellOccupancy":
                raise PoolTranslationError(f"internal state class {cls} not modelled")
            occs.append(occ_data(tree, config, sec, dim, n_roots, n_per, charges))
    factor_file, ftypes = "", []
    for t in wiring["taggers"]:
        if t["cls"] == "FactorTypeMapInStateTagger":
            label = _opt(config, t["section"], "factor_type_maps_label")
            ftypes.append(tree.strings.to_camel_case(label if label is not None else t["tag"]))
            fsec, _ = TR._named(tree, _opt(config, t["section"], "factor_type_maps"))
            fn = _opt(config, fsec, "filename")
            if factor_file and os.path.basename(fn) != factor_file:
                raise PoolTranslationError("two factor files in one configuration")
            factor_file = os.path.basename(fn)
            factor_path = os.path.join(root, "jellyfysh", fn)
        else:
            ftypes.append("")
    lines = parse_factor_file(factor_path) if factor_file else []
    sels = [sel_of_hmode(t["hmode"]) for t in wiring["taggers"]]
    return {"name": wiring["name"], "ini": wiring["ini"], "n_roots": n_roots, "n_per": n_per, "dim": dim, "sels": sels,
            "factor_file": factor_file, "lines": lines, "ftypes": ftypes, "occs": occs, "wiring": wiring}


# ---------------------------------------------------------------------------------------------------------------
# the factor maps (independent Python reading of jellyfysh/activator/tagger/factor_type_maps.py; the Lean reading is
# JF/Model/FactorMaps.lean, the two meet in the generated `shortfalls_<name>` theorems)

_LINE = re.compile(r"^\s*\[([0-9,\s]*)\]\s*,\s*([A-Za-z0-9_]+)\s*$")


def parse_factor_file(path):
    out = []
    for line in open(path):
        if line.startswith("#") or not line.strip():
            continue
        m = _LINE.match(line)
        if m is None:
            raise PoolTranslationError(f"factor line {line!r} unreadable")
        out.append(([int(x) for x in re.findall(r"[0-9]+", m.group(1))], m.group(2)))
    return out


def factor_yield(lines, n_roots, n_per, ty, leaves):
    """set of in-state identifier tuples `FactorTypeMapInStateTagger` yields for the active leaf identifiers `leaves`
    (tuples); None if a map raises"""
    mine = [idx for idx, t in lines if t == ty]
    out = set()
    for leaf in leaves:
        if n_per == 1:
            (r,) = leaf
            out |= {((r,), (o,)) for o in range(n_roots) if o != r}
            continue
        r, i = leaf
        if not mine:                                  # fall back: _AllLeafUnitFactorTypeMap
            out |= {((r, i), (o, l)) for o in range(n_roots) if o != r for l in range(n_per)}
            continue
        local = all(x < n_per for x in mine[0])
        entries = [idx for idx in mine for x in idx if x == i]          # append_to_map: once per occurrence, index < nPer
        if local:
            if not entries:
                return None                           # KeyError
            out |= {tuple((r, t) for t in idx) for idx in entries}
        else:
            for o in range(n_roots):
                if o != r:
                    out |= {tuple((r, t) if t < n_per else (o, t - n_per) for t in idx) for idx in entries}
    return out


def sel_of_hmode(hmode):
    """which one-chain states a tagger is asked on (JF.C09Pools.Sel): handlers derived from SingleActiveLeafUnitEventHandler only
    in leaf mode (0), CompositeObjectsLifting handlers only in root mode (1), every other handler in both (2)"""
    return {"leafUnit": 0, "rootUnit": 1}.get(hmode, 2)


def one_chain_leaf_sets(n_roots, n_per, sel=2):
    """leaf identifiers of the extracted active global states with at most one independent active unit"""
    yield []
    for i in range(n_roots):
        if n_per == 1:
            yield [(i,)]
            continue
        if sel != 0:
            yield [(i, j) for j in range(n_per)]           # root mode: the whole composite object
        if sel != 1:
            for j in range(n_per):
                yield [(i, j)]


def factor_demand_max(lines, n_roots, n_per, ty, sel=2):
    best, arg = 0, []
    for leaves in one_chain_leaf_sets(n_roots, n_per, sel):
        y = factor_yield(lines, n_roots, n_per, ty, leaves)
        k = 0 if y is None else len(y)
        if k > best:
            best, arg = k, leaves
    return best, arg


# ---------------------------------------------------------------------------------------------------------------
# the bounds (Python reading of JF.C09Pools.demandBound)

def grid_counts(n, layers):
    total, near = 1, 1
    for x in n:
        total *= x
        near *= min(x, 2 * layers + 1)
    return total, near, total - near


def demand_bound(pd, T):
    """-> (bound, how) for tagger index T of pool data `pd`"""
    t = pd["wiring"]["taggers"][T]
    cls = t["lean_cls"]
    if cls in ("noInState", "activeGlobalState", "activeRootUnit", "cellBoundary", "cellVeto"):
        return 1, "one in-state"
    if cls == "factorTypeMap":
        if pd["n_per"] == 1:
            return pd["n_roots"] - 1, "other point masses"
        b, arg = factor_demand_max(pd["lines"], pd["n_roots"], pd["n_per"], pd["ftypes"][T], pd["sels"][T])
        mode = {0: "leaf-mode", 1: "root-mode"}.get(pd["sels"][T], "all")
        return b, f"max over {mode} one-chain states, attained for active leaves {arg}"
    o = pd["occs"][t["label_idx"]] if t["label_idx"] is not None and t["label_idx"] < len(pd["occs"]) else None
    if o is None:
        return 0, "no internal state"
    total, near, non = grid_counts(o["n"], o["layers"])
    if cls == "excludedCells":
        if o["cap"] <= 0:
            return o["n_rel"] - 1, "relevant units - 1 (occupants not bounded)"
        return min(near * o["cap"], o["n_rel"] - 1), f"min({near} nearby cells x {o['cap']}, {o['n_rel']} relevant units - 1)"
    if cls == "cellBounding":
        return min(non, o["n_rel"] - 1), f"min({non} non-nearby cells, {o['n_rel']} relevant units - 1)"
    if cls == "surplusCells":
        return o["n_rel"] - 1, f"{o['n_rel']} relevant units - 1"
    return 0, "unknown class"


def shortfalls(pd):
    out = []
    for T, t in enumerate(pd["wiring"]["taggers"]):
        b, _ = demand_bound(pd, T)
        if t["pool"] < b:
            out.append((T, t["pool"], b))
    return out


def table(pds):
    """rows (config, tagger, class, pool, bound, how) for reports"""
    rows = []
    for pd in pds:
        for T, t in enumerate(pd["wiring"]["taggers"]):
            b, how = demand_bound(pd, T)
            rows.append((pd["name"], t["tag"], t["lean_cls"], t["pool"], b, how))
    return rows


# ---------------------------------------------------------------------------------------------------------------
# reading the tree, emission

def all_pool_data(root):
    tree = TR.Tree(root)
    out = []
    for w in TR.all_wirings(root):
        config = TR.read_config(os.path.join(root, "jellyfysh", w["ini"]))
        try:
            out.append(pool_data(root, tree, config, w))
        except TR.TranslationError as e:
            raise PoolTranslationError(f"{w['ini']}: {e}")
        except (KeyError, ValueError, TypeError) as e:
            raise PoolTranslationError(f"{w['ini']}: {e!r}")
    return out


def lean_pool(pd):
    occs = ",\n    ".join(
        "{ level := %d, grid := ⟨[%s], %d⟩, cap := %d, nRel := %d }"
        % (o["level"], ", ".join(map(str, o["n"])), o["layers"], o["cap"], o["n_rel"]) for o in pd["occs"])
    return (f"/-- `{pd['ini']}` -/\n"
            f"def pool_{pd['name']} : PoolCfg := {{\n"
            f"  w := cfg_{pd['name']}\n"
            f"  nRoots := {pd['n_roots']}, nPer := {pd['n_per']}\n"
            f"  factorFile := {TR._s(pd['factor_file'])}\n"
            f"  ftype := [{', '.join(TR._s(x) for x in pd['ftypes'])}]\n"
            f"  sel := [{', '.join(str(x) for x in pd['sels'])}]\n"
            f"  occs := [{occs}] }}\n")


KERNEL_COST_LIMIT = 200000


def kernel_cost(pd):
    """rough number of list comparisons the kernel needs for `shortfalls pool_<name>` (states x bound^2 per factor tagger)"""
    cost = 0
    for T, t in enumerate(pd["wiring"]["taggers"]):
        if t["lean_cls"] == "factorTypeMap" and pd["n_per"] > 1:
            b, _ = demand_bound(pd, T)
            cost += (1 + pd["n_roots"] * (pd["n_per"] + 1)) * max(1, b) ** 2
    return cost


def lean_file(pds):
    head = ("/- GENERATED by harness/translate_pools.py from the .ini files of the tree under verification — do not edit. -/\n"
            "import JF.Lemmas.C09PoolsCfg\nimport JF.Gen.Wirings\n"
            "namespace JF.C09Pools.Gen\nopen JF.Act JF.Act.Gen JF.C09Pools\n\n")
    body = []
    for pd in pds:
        sf = shortfalls(pd)
        rhs = "[" + ", ".join(f"({T}, {p}, {b})" for T, p, b in sf) + "]"
        doc = ("every pool is at least the demand bound" if not sf else
               "pools BELOW the demand bound: " + ", ".join(
                   f"{pd['wiring']['taggers'][T]['tag']} (pool {p} < bound {b})" for T, p, b in sf))
        if kernel_cost(pd) > KERNEL_COST_LIMIT:
            body.append(lean_pool(pd) +
                        f"/- `shortfalls pool_{pd['name']} = {rhs}` ({doc}) is computed by harness/translate_pools.py only: the kernel\n"
                        f"evaluation of the factor maps of {pd['n_roots']} composite objects takes minutes (estimated cost {kernel_cost(pd)}).\n"
                        f"NOT a theorem; `harness/poolcorr.py` measures the demand of this configuration on the real taggers. -/\n")
            continue
        body.append(lean_pool(pd) +
                    f"/-- {doc} -/\n"
                    f"theorem shortfalls_{pd['name']} : shortfalls pool_{pd['name']} = {rhs} := by decide +kernel\n")
    allp = "def allPools : List PoolCfg := [" + ", ".join(f"pool_{pd['name']}" for pd in pds) + "]\n"
    return head + "\n".join(body) + "\n" + allp + "\nend JF.C09Pools.Gen\n"


def regenerate(root):
    pds = all_pool_data(root)
    changed = TR._write_if_changed(GEN_POOLS, lean_file(pds))
    return {"configs": len(pds), "changed": changed}


if __name__ == "__main__":
    r = sys.argv[1] if len(sys.argv) > 1 else "/repo"
    print(regenerate(r))
    for row in table(all_pool_data(r)):
        print("%-55s %-28s %-18s pool=%-4d bound=%-4d %s" % row)
