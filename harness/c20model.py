"""C20 trace validation: replay every recorded multi-process run through the Lean protocol model (component `mp`,
lean/JF/Model/MPMediator.lean `JF.MP.leg`) leg by leg.

Fed to the model per leg: what the activator returned (ordered), the recorded `connection.wait` results as the adversary,
the handler the scheduler returned, the trash list (ordered). Compared with the real mediator: the stage of every handler and
the keys of `_out_states` at commit time (recorded inside insert_into_global_state, i.e. before the trash loop), the stage of
every returned pipe at the moment of each `wait`, the order of the push_event calls (after the receive loop, in the order in which
the activator returned the handlers — `pushAll`), that all recorded waits are consumed. The reply also carries run-time evaluations of what the theorems state (tag of the committed out-state = last
start of the chosen handler, boundary invariant, activator protocol hypotheses, adversary contract)."""

STAGE_DIGIT = {"idle": "0", "event_time_started": "1", "suspended": "2", "out_state_started": "3"}


def _fields(reply):
    return dict(f.split("=", 1) for f in reply.split()[1:])


def _lst(s):
    return [] if s == "-" else [int(x) for x in s.split(",")]


def leg_line(leg):
    toks = ["leg", "c"] + [str(h) for h, _ in leg["created"]]
    for w in leg.get("mp_waits", []):
        toks.append("w")
        toks += [str(h) for h, _ in w]
    toks += ["x", str(leg["chosen"]), "t"] + [str(h) for h in leg["trashed"]]
    return " ".join(toks)


def validate(ctx, tr, base):
    """tr: a recorded multi-process trace. Returns a dict of statistics of the run (pre-computations, discards, …)."""
    meta = tr["meta"]
    nargs = meta["handler_nargs"]
    nh = len(nargs)
    legs = [l for l in tr["legs"] if "mp_states" in l]
    lines = ["init %d %d %s" % (meta["number_cores"], nh, " ".join("1" if a[1] else "0" for a in nargs))]
    lines += [leg_line(l) for l in legs]
    replies = ctx.model("mp", lines)
    stats = {"legs": 0, "legs_with_precomputation": 0, "precomputations": 0, "discarded": 0, "used_stored": 0, "used_in_flight": 0,
             "in_flight_across_legs": 0, "end_quiet": None, "end_inflight": None}
    if replies[0] != "ok":
        ctx.disagree("mp.stage-machine", {**base, "leg": None}, "init", replies[0])
        return stats
    order_of = {}
    for i, (leg, rep) in enumerate(zip(legs, replies[1:])):
        case = {**base, "leg": i, "request": lines[i + 1][:400]}
        if not rep.startswith("ok "):
            # the real mediator went through this leg without raising, the model did not
            ctx.disagree("mp.stage-machine", case, "leg completed", rep)
            break
        f = _fields(rep)
        stats["legs"] += 1
        impl_st = "".join(STAGE_DIGIT[leg["mp_states"][h]] for h in range(nh))
        if impl_st != f["st"]:
            ctx.disagree("mp.stage-machine", {**case, "what": "stages at commit time"}, impl_st, f["st"])
        if sorted(leg["mp_out_states"]) != _lst(f["stored"]):
            ctx.disagree("mp.stage-machine", {**case, "what": "_out_states keys at commit time"}, sorted(leg["mp_out_states"]), f["stored"])
        impl_seen = "|".join("".join(STAGE_DIGIT[stn] for _, stn in w) for w in leg.get("mp_waits", [])) or "-"
        if impl_seen != f["seen"]:
            ctx.disagree("mp.stage-machine", {**case, "what": "stages of the returned pipes at each wait"}, impl_seen, f["seen"])
        if f["left"] != "0":
            ctx.disagree("mp.stage-machine", {**case, "what": "model's receive loop ended before the recorded waits were consumed"},
                         len(leg.get("mp_waits", [])), f["left"])
        # order of scheduler pushes: recorded `times` is a dict filled in push order; the model pushes after the loop in `created` order
        impl_push = [h for h in leg["times"]]
        if impl_push != _lst(f["pushed"]):
            ctx.disagree("mp.stage-machine", {**case, "what": "order of push_event calls"}, impl_push, f["pushed"])
        # run-time evaluation of the theorem statements on this trace (model-internal; a 0 here means a theorem hypothesis is
        # not met by the real run or the model contradicts its own theorems)
        if f["proto"] != "111":
            ctx.disagree("mp.activator-protocol-hypotheses", {**case, "what": "created not running & distinct / chosen running / chosen trashed"},
                         "111", f["proto"])
        if f["legit"] != "1":
            ctx.disagree("mp.wait-contract", case, "1", f["legit"])
        if f["tagok"] != "1" or f["inv"] != "1":
            ctx.disagree("mp.theorem-statements-on-trace", {**case, "what": "tagok/inv"}, "1 1", f["tagok"] + " " + f["inv"])
        pre, disc = _lst(f["pre"]), _lst(f["disc"])
        stats["precomputations"] += len(pre)
        stats["legs_with_precomputation"] += 1 if pre else 0
        stats["discarded"] += len(disc)
        stats["used_stored"] += f["path"] == "stored"
        stats["used_in_flight"] += f["path"] == "inFlight"
        stats["in_flight_across_legs"] += int(f["inflight"])
        stats["end_quiet"], stats["end_inflight"] = f["quiet"] == "1", int(f["inflight"])
        ctx.count("mp-model:path-" + f["path"])
    return stats
