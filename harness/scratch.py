"""Fresh private copy of /repo's *working tree* with the three cffi extensions rebuilt from
that copy's C sources.  All implementation code the harness runs is imported from this copy."""
import os, shutil, subprocess, sys, tempfile, concurrent.futures

REPO = os.environ.get("VERIF_REPO", "/repo")
PY = "/venv/bin/python"
BUILD_SCRIPTS = [
    "jellyfysh/scheduler/heap_scheduler/heap_build.py",
    "jellyfysh/potential/merged_image_coulomb_potential/merged_image_coulomb_potential_build.py",
    "jellyfysh/potential/inverse_power_coulomb_bounding_potential/inverse_power_coulomb_bounding_potential_build.py",
]


def _ignore(d, names):
    out = []
    for n in names:
        if n in (".git", "build", "__pycache__", "JeLLyFysh.egg-info", ".pytest_cache", "unittests"):
            out.append(n)
        elif n.endswith((".so", ".o", ".pyc")):
            out.append(n)
    return out


def make_scratch():
    base = os.environ.get("VERIF_SCRATCH_BASE") or tempfile.gettempdir()
    d = tempfile.mkdtemp(prefix="jfverif_", dir=base)
    root = os.path.join(d, "tree")
    shutil.copytree(REPO, root, ignore=_ignore, symlinks=True)

    def build(script):
        if not os.path.exists(os.path.join(root, script)):
            return script, 1, "missing build script"
        p = subprocess.run([PY, script], cwd=root, capture_output=True, text=True)
        return script, p.returncode, p.stdout[-2000:] + p.stderr[-2000:]

    with concurrent.futures.ThreadPoolExecutor(3) as ex:
        res = list(ex.map(build, BUILD_SCRIPTS))
    errors = [(s, o) for s, rc, o in res if rc != 0]
    return d, root, errors


def remove_scratch(d):
    shutil.rmtree(d, ignore_errors=True)
