"""Tie of `lean/JF/Props/Footprints3.lean` (`footprintsSound_concrete3` over the world `JF.CW3` of composite objects WITH cell-occupancy
systems) to the code.

The theorem is about the transition relation `JF.CW3.TrRaw3` (lean/JF/Lemmas/ConcreteWorld3.lean): a commit by a handler of tagger E is
E10's transition `CW2.TrRaw2` (the `Composite.step` of a weakly admissible event whose kind the handler class of E commits and which is
possible in the ghost mode), followed by `SingleActiveCellOccupancy.update` of EVERY internal state of the activator (`occAfter`: the one
active unit on the cell level of that state, `Occ.update`), and carries the C11 history premise `StaysInRecordedCell` for every internal
state l with `affects (tagger E) (.cell l) = false` (sampling / dumping / end of run, and the cell-boundary handler of ANOTHER internal
state).  States satisfy `Inv3` (E10's `Inv` + every carried occupancy consistent with the active unit on its level); the cell taggers
yield `yieldCell` of THEIR occupancy.  This module evaluates, on every recorded leg of a traced run whose configuration lives in that
world (`supported3`, the Python mirror of `JF.CW3.Supported3`; two node levels, at least one internal state, the job recorded the
occupancies: `extras: ["occupancy"]`):

* `fp3.kind-map`     — which leaf AND root units changed velocity / position / time stamp is the pattern of an event kind `kindsOf`
                       allows for the committing tagger (as `fp2.kind-map`);
* `fp3.mode-premise` — that kind is possible in the observed mode before the commit and leads to the observed mode after it;
* `fp3.invariant`    — the observable part of E10's `Inv` on the recorded state;
* `fp3.start`        — the first commit is the start-of-run event from the state at rest;
* `fp3.occ-update`   — per internal state: `Occ.update` (Python mirror of lean/JF/Model/Occupancy.lean) applied to the occupancy recorded
                       in this leg and the ONE active unit on the cell level of the state after the commit (`unitsOn` of the flags;
                       relevance = the configured charge of that unit; its cell = the cell the implementation records, checked to contain
                       the unit's recorded position) is the occupancy recorded in the next leg: cell lists in order, surplus dictionary
                       in order, active identifier, active cell;
* `fp3.consistent`   — `ConsistentOcc`: the recorded active identifier is the active unit on the cell level iff it is relevant, and
                       `_active_cell` is set iff the identifier is;
* `fp3.premise-stays-in-recorded-cell` — for every internal state whose active cell the table declares untouched by the committing
                       tagger, the recorded `_active_cell` is the same before and after (the premise inside `Tr3`, MEASURED);
* `fp3.yield`        — what the REAL taggers yield (`fresh_pristine`) equals `yieldCls3`: the cell taggers on the recorded occupancy they
                       name (mirror of lean/JF/Model/CellTaggers.lean), the other classes as `fpcorr2.yield_of` (multisets);
* `fp3.self-test`    — the mirrors of `Occ.update` / `yieldCell` reproduce `JF.Footprints3.PyTable.pyOccTable` (values of the Lean
                       definitions by `decide`).

Call `check_trace(ctx, tr, w)` per trace (w = `actcorr.wiring_of_trace`); `occupancy_jobs3(ctx)` are the jobs that record the occupancy
(the six shipped configurations of composite objects with cells + generated variants with more molecules)."""
import copy, itertools
from collections import Counter
from harness import runs, modecorr, fpcorr2

LEAF, ROOT = modecorr.LEAF, modecorr.ROOT
CELL_CLS = ("cellBoundary", "cellVeto", "cellBounding", "excludedCells", "surplusCells")
CELL_READING = ("excludedCells", "cellBounding", "surplusCells")
SHIPPED_IN_WORLD = ("dipoles/cell_bounded.ini", "dipoles/cell_veto.ini", "water/coulomb_cell_veto_lj_cell_veto.ini",
                    "water/coulomb_cell_veto_lj_inverted.ini", "water/coulomb_power_bounded_lj_cell_bounded.ini",
                    "hard_disk_dipoles/hard_disk_dipoles_cells.ini")          # `supported3_*` theorems of JF/Props/Footprints3.lean


def supported3(w):
    """JF.CW3.Supported3"""
    nl = len(w["labels"])
    for t in w["taggers"]:
        if t["lean_cls"] == "unknown":
            return False
        named = t["label_idx"] is not None and t["label_idx"] < nl
        if t["lean_cls"] in CELL_CLS and not named:
            return False
        if t["kind"] == "cellBoundary" and not named:
            return False
        if t["hmode"] == "unknown" or not modecorr.kind_agrees(t["kind"], t["hmode"]):
            return False
    return True


def affects_cell(t, l):
    """JF.Act.affects (tagger) (.cell l)"""
    if t["kind"] in ("sampling", "dumping", "endOfRun"):
        return False
    if t["kind"] == "cellBoundary":
        return t["label_idx"] == l
    return True


# ---------------------------------------------------------------------------------------------------------------
# Python mirror of lean/JF/Model/Occupancy.lean (`Occ.update`) on identifier tuples and cell identifier tuples

class Occ:
    __slots__ = ("cap", "occupants", "surplus", "aid", "ac")

    def __init__(self, cap, occupants, surplus, aid, ac):
        self.cap, self.occupants, self.surplus, self.aid, self.ac = cap, occupants, surplus, aid, ac

    def key(self):
        return (sorted(self.occupants.items()), list(self.surplus.items()), self.aid, self.ac)


def _has_room(s, c):
    return len(s.occupants[c]) < s.cap or s.cap <= 0


def _insert(s, c, u):
    if _has_room(s, c):
        s.occupants[c].append(u)
    else:
        s.surplus.setdefault(c, []).append(u)


def _drop_empty(s, c):
    if s.surplus.get(c) == []:
        del s.surplus[c]


def occ_update(s0, new_id, relevant, cell):
    """Occ.update: -> new Occ or an error token"""
    s = Occ(s0.cap, {c: list(l) for c, l in s0.occupants.items()}, {c: list(l) for c, l in s0.surplus.items()}, s0.aid, s0.ac)
    if new_id != s.aid:
        if s.aid is not None:                      # reinsertOld
            if s.ac is None:
                return "err:KeyError"
            _insert(s, s.ac, s.aid)
        if relevant:                               # activate
            s.ac, s.aid = cell, new_id
            if cell not in s.occupants:
                return "err:KeyError"
            if new_id in s.occupants[cell]:
                s.occupants[cell].remove(new_id)
                if s.surplus.get(cell) == []:
                    return "err:IndexError"
                _drop_empty(s, cell)
            else:
                l = s.surplus.get(cell)
                if l is None:
                    return "err:KeyError"
                if new_id not in l:
                    return "err:ValueError"
                l.remove(new_id)
                _drop_empty(s, cell)
        else:
            s.aid, s.ac = None, None
    else:
        s.ac = cell
    return s


# ---------------------------------------------------------------------------------------------------------------
# Python mirror of lean/JF/Model/CellTaggers.lean on an `Occ`

def nearby(n, layers, c):
    """CellTaggers.nearby: the set of cells within `layers` of `c` on the torus"""
    rng = [sorted({(c[d] - layers + k) % n[d] for k in range(2 * layers + 1)}) for d in range(len(n))]
    return set(itertools.product(*rng))


def yield_cell(cls, grid, s, cell_order):
    """JF.CW3.yieldCell"""
    if s.ac is None or s.aid is None:
        return []
    a = s.aid
    if cls in ("cellBoundary", "cellVeto"):
        return [(a,)]
    if cls == "cellBounding":
        nb = nearby(grid[0], grid[1], s.ac)
        return [(a,) + tuple(s.occupants[c]) for c in cell_order if s.occupants[c] and c not in nb]
    if cls == "excludedCells":
        return [(a, o) for nc in nearby(grid[0], grid[1], s.ac) for o in s.occupants.get(nc, [])]
    if cls == "surplusCells":
        return [(a, x) for l in s.surplus.values() for x in l]
    return []


# `JF.Footprints3.PyTable.pyOccTable`: a 1-dimensional grid of 7 cells, one layer, cap 1, identifiers on level 1;
# (occupancy before, new unit (id, relevant, cell), occupancy after, yields [veto, bounding, excluded, surplus] after)
def _mk(occ, sur, aid, ac):
    return Occ(1, {(k,): [(u,) for u in occ.get(k, [])] for k in range(7)}, {(c,): [(u,) for u in l] for c, l in sur}, None if aid is None else (aid,),
               None if ac is None else (ac,))


SELF_TEST = [
    # unit 0 starts in cell 0 (it is taken out of the cell list)
    (_mk({0: [0], 1: [1], 4: [2]}, [], None, None), (0, True, 0), _mk({1: [1], 4: [2]}, [], 0, 0),
     [[((0,),)], [((0,), (2,))], [((0,), (1,))], []]),
    # same unit, new cell 1
    (_mk({1: [1], 4: [2]}, [], 0, 0), (0, True, 1), _mk({1: [1], 4: [2]}, [], 0, 1),
     [[((0,),)], [((0,), (2,))], [((0,), (1,))], []]),
    # lifting 0 -> 1: unit 0 is re-inserted into the recorded cell 1 (full: surplus), unit 1 is taken out of cell 1
    (_mk({1: [1], 4: [2]}, [], 0, 1), (1, True, 1), _mk({4: [2]}, [(1, [0])], 1, 1),
     [[((1,),)], [((1,), (2,))], [], [((1,), (0,))]]),
    # an irrelevant unit becomes active: unit 1 goes back to cell 1, nothing is active
    (_mk({4: [2]}, [(1, [0])], 1, 1), (3, False, 5), _mk({1: [1], 4: [2]}, [(1, [0])], None, None), [[], [], [], []]),
]
_self_tested = []


def self_test(ctx):
    if _self_tested:
        return
    _self_tested.append(True)
    order = [(k,) for k in range(7)]
    for s0, (u, rel, c), want, ys in SELF_TEST:
        got = occ_update(s0, (u,), rel, (c,))
        if isinstance(got, str) or got.key() != want.key():
            ctx.disagree("fp3.self-test", {"what": "update", "unit": u}, got if isinstance(got, str) else repr(got.key()), repr(want.key()))
            continue
        mine = [yield_cell(cls, ([7], 1), got, order) for cls in ("cellVeto", "cellBounding", "excludedCells", "surplusCells")]
        if [sorted(map(repr, y)) for y in mine] != [sorted(map(repr, y)) for y in ys]:
            ctx.disagree("fp3.self-test", {"what": "yield", "unit": u}, mine, ys)
    ctx.count("fp3:self-test")


# ---------------------------------------------------------------------------------------------------------------
# reading the configuration and the dumps of a trace

def _cell_id(c):
    if c is None:
        return None
    ident = getattr(c, "identifier", c)
    return tuple(ident) if isinstance(ident, (tuple, list)) else (ident,)


def _base(s):
    """class of an option value `alias (class)` or `class`"""
    s = s.replace("\n", " ").strip()
    return s.split("(")[0].strip()


def occ_envs(meta, w):
    """per internal state (index = label index): cell level, charge, cap, grid (cells per side, layers); None if unreadable"""
    cfg = meta.get("config") or {}
    out = []
    for lab in w["labels"]:
        sec = cfg.get(fpcorr2._camel(lab))
        if sec is None:
            return None
        csec = cfg.get(fpcorr2._camel(_base(sec.get("cells", ""))), {})
        per = [int(x) for x in csec.get("cells_per_side", "").replace("\n", " ").split(",") if x.strip()]
        if len(per) == 1:
            per = per * meta["dimension"]
        ch = sec.get("charge")
        out.append({"level": int(sec.get("cell_level", 0)), "charge": None if ch in (None, "None") else ch.strip(),
                    "cap": int(sec.get("maximum_number_occupants", 1)), "grid": (per, int(csec.get("neighbor_layers", 1)))})
    return out


def occ_of_dump(d, cap):
    """-> (Occ, cell order, {cell id: (cell_min, cell_max)}) or None"""
    cls = str(d.get("cls")) if isinstance(d, dict) else ""        # an aliased section: 'OxygenCell (SingleActiveCellOccupancy)'
    if not (cls == "SingleActiveCellOccupancy" or cls.endswith("(SingleActiveCellOccupancy)")) or not isinstance(d.get("_occupants"), dict):
        return None
    if not isinstance(d.get("_surplus"), dict):
        return None
    order = [_cell_id(c) for c in d["_occupants"]]
    ext = {_cell_id(c): (list(getattr(c, "cell_min", []) or []), list(getattr(c, "cell_max", []) or [])) for c in d["_occupants"]}
    occupants = {_cell_id(c): [tuple(i) for i in l] for c, l in d["_occupants"].items()}
    surplus = {_cell_id(c): [tuple(i) for i in l] for c, l in d["_surplus"].items()}
    aid = d.get("_active_unit_identifier")
    return Occ(cap, occupants, surplus, None if aid is None else tuple(aid), _cell_id(d.get("_active_cell"))), order, ext


def units_on(nper, level, fl):
    """JF.CW3.unitsOn, as identifier tuples"""
    bs = fpcorr2.branches(nper, fl)
    if level == 1:
        return [(b[0],) for b in bs]
    return [(b[0], j) for b in bs for j in b[1]]


def _relevant(oe, snap, ident):
    if oe["charge"] is None:
        return True
    ch = snap[ident][3] or {}
    return ch.get(oe["charge"], 0) != 0


def _inside(pos, ext, lengths):
    cmin, cmax = ext
    if not cmin or not cmax:
        return True
    return all(cmin[d] - 1e-12 * lengths[d] <= pos[d] <= cmax[d] + 1e-12 * lengths[d] for d in range(len(pos)))


def _ms(l):
    return Counter(repr(x) for x in l)


def check_trace(ctx, tr, w):
    """evaluate the correspondences on every recorded leg of `tr`; returns the number of legs judged"""
    meta = tr["meta"]
    ini = meta.get("ini", "")
    job = tr.get("job") or {}
    overrides = job.get("overrides") or {}
    in_world = supported3(w) and meta.get("levels") == 2 and len(w["labels"]) >= 1
    if ini.endswith(SHIPPED_IN_WORLD) and "TagActivator" not in overrides and not job.get("ini_text") and not in_world:
        ctx.disagree("fp3.supported", {"ini": ini}, "a configuration of composite objects with internal states", "not Supported3")
    if not in_world or not tr["legs"]:
        ctx.count("fp3:trace-outside-world")
        return 0
    self_test(ctx)
    fpcorr2.self_test(ctx)
    ctx.count("fp3:trace-in-world")
    nper = meta["n_per_root"]
    lengths = meta.get("system_lengths") or [1.0] * meta["dimension"]
    case0 = {"ini": ini, "seed": meta.get("seed"), "job": job}
    oes = occ_envs(meta, w)
    if oes is None:
        ctx.count("fp3:internal-state-sections-unreadable")
    try:
        fe = fpcorr2.factor_env(ctx, meta, w)
    except Exception as e:
        fe = None
        ctx.count("fp3:factor-file-unreadable:" + type(e).__name__)
    fs, ftype = fe if fe is not None else (None, {})
    tagger = {t["tag"]: t for t in w["taggers"]}
    nbad = {}

    def bad_(corr, case, impl, model):
        nbad[corr] = nbad.get(corr, 0) + 1
        if nbad[corr] <= 3:
            ctx.disagree(corr, case, impl, model)
        else:
            ctx.count("disagreement(more):" + corr)

    def occs_of(leg):
        dumps = leg.get("occupancy")
        if oes is None or not dumps or len(dumps) != len(oes):
            return None
        out = [occ_of_dump(d, oe["cap"]) for d, oe in zip(dumps, oes)]
        return None if any(o is None for o in out) else out

    legs = tr["legs"]
    pre = tr["initial"]
    for i, leg in enumerate(legs):
        case = {**case0, "leg": i, "handler": list(meta["handlers"][leg["chosen"]])}
        fl = fpcorr2.flags_of(pre)
        defects = fpcorr2.invariant_defects(pre, nper, started=i > 0)
        ctx.count("fp3:invariant:" + ("ok" if not defects else "BAD"))
        if defects:
            bad_("fp3.invariant", case, defects, "Inv")
        cur = occs_of(leg)
        # --- what the taggers yield on (state before the commit, occupancies as updated in this leg)
        fp = leg.get("fresh_pristine") or {}
        for t in w["taggers"]:
            real_y = fp.get(t["tag"])
            if real_y is None:
                continue
            if t["lean_cls"] in CELL_CLS:
                if cur is None:
                    ctx.count("fp3:yield:not-observed(no occupancy dump)")
                    continue
                o, order, _ = cur[t["label_idx"]]
                mine_y = yield_cell(t["lean_cls"], oes[t["label_idx"]]["grid"], o, order)
            else:
                if t["lean_cls"] == "factorTypeMap" and fs is None:
                    continue
                mine_y = fpcorr2.yield_of(nper, fs, ftype.get(t["tag"]), t["lean_cls"], fl)
            ok = not isinstance(real_y, str) and _ms(real_y) == _ms(mine_y)
            ctx.count(f"fp3:yield:{t['lean_cls']}:" + ("ok" if ok else "BAD"))
            ctx.cls(("fp3", t["lean_cls"], t["kind"], min(len(mine_y), 3), t["label_idx"]))
            if not ok:
                bad_("fp3.yield", {**case, "tagger": t["tag"]}, real_y, mine_y)
        # --- the commit is an instance of E10's transition
        post = leg["post"]
        etag = meta["handlers"][leg["chosen"]][0]
        et = tagger[etag]
        h = et["hmode"]
        inst = fpcorr2.instances2(pre, post, nper)
        if i == 0:
            ok = h.startswith("start") and "start" in inst and not modecorr.moving(pre, nper) and bool(modecorr.observed_modes(post, nper))
            ctx.count("fp3:start:" + ("ok" if ok else "BAD"))
            if not ok:
                bad_("fp3.start", case, {"hmode": h, "instances": sorted(inst)}, "start from rest")
        else:
            allowed = [k for k in modecorr.ALL_KINDS if k != "start" and
                       (k in modecorr.kinds_of(h, LEAF) or k in modecorr.kinds_of(h, ROOT))]
            hit = [k for k in allowed if k in inst]
            ctx.count(f"fp3:kind-map:{h.split()[0]}:" + ("+".join(hit) or "NONE"))
            if not hit:
                bad_("fp3.kind-map", {**case, "hmode": h}, sorted(inst), allowed)
            else:
                m0s, m1s = modecorr.observed_modes(pre, nper), modecorr.observed_modes(post, nper)
                ok = any(modecorr.k_step(m, k) in m1s for m in m0s for k in hit)
                ctx.count("fp3:mode-premise:" + ("holds" if ok else "VIOLATED"))
                if not ok:
                    bad_("fp3.mode-premise", {**case, "kinds": hit}, {"before": sorted(m0s), "after": sorted(m1s)}, "modeStep")
        # --- the activator's update of every internal state after this commit = what the next leg recorded
        nxt = occs_of(legs[i + 1]) if i + 1 < len(legs) else None
        if cur is not None and nxt is not None:
            fl1 = fpcorr2.flags_of(post)
            for l, oe in enumerate(oes):
                o0, o1 = cur[l][0], nxt[l][0]
                units = units_on(nper, oe["level"], fl1)
                lcase = {**case, "internal_state": w["labels"][l], "level": oe["level"]}
                if len(units) != 1:
                    ctx.count("fp3:occ-update:BAD")
                    bad_("fp3.occ-update", lcase, "the run went on", {"active units on the cell level": units})
                    continue
                u = units[0]
                rel = _relevant(oe, post, u)
                cell = o1.ac if rel else None
                if rel and o1.ac is not None:
                    inside = _inside(post[u][0], nxt[l][2].get(o1.ac, ([], [])), lengths)
                    ctx.count("fp3:active-cell-contains-position:" + ("ok" if inside else "BAD"))
                    if not inside:
                        bad_("fp3.active-cell-position", lcase, {"cell": o1.ac, "extent": nxt[l][2].get(o1.ac)}, post[u][0])
                mine = occ_update(o0, u, rel, cell)
                ok = not isinstance(mine, str) and mine.key() == o1.key()
                branch = "same-id" if u == o0.aid else ("relevant" if rel else "irrelevant")
                ctx.count(f"fp3:occ-update:{branch}:" + ("ok" if ok else "BAD"))
                ctx.cls(("fp3-occ", oe["level"], branch, et["kind"], bool(o1.surplus)))
                if not ok:
                    bad_("fp3.occ-update", lcase, repr(o1.key())[:600], mine if isinstance(mine, str) else repr(mine.key())[:600])
                cons = (o1.aid == (u if rel else None)) and ((o1.ac is None) == (o1.aid is None))
                ctx.count("fp3:consistent:" + ("ok" if cons else "BAD"))
                if not cons:
                    bad_("fp3.consistent", lcase, {"_active_unit_identifier": o1.aid, "_active_cell": o1.ac}, {"unit": u, "relevant": rel})
                if i > 0 and not affects_cell(et, l):
                    if rel:
                        same = o0.ac == o1.ac
                        ctx.count(f"fp3:premise:{et['kind']}:" + ("holds" if same else "VIOLATED"))
                        if not same:
                            bad_("fp3.premise-stays-in-recorded-cell", {**lcase, "kind": et["kind"]}, o1.ac, o0.ac)
                    else:
                        ctx.count(f"fp3:premise:{et['kind']}:vacuous(irrelevant active unit)")
        elif i + 1 < len(legs):
            ctx.count("fp3:occ-update:not-observed(no occupancy dump)")
        pre = post
    ctx.evaluations += len(legs)
    return len(legs)


def occupancy_jobs3(ctx):
    """the six shipped configurations of composite objects with cells, recording the occupancies at every leg, and generated variants
    with more molecules / other sampling intervals"""
    rng = ctx.rng
    cap = ctx.n(1200, 12000)
    jobs = []
    shipped = [runs.CFG + x for x in SHIPPED_IN_WORLD[:5]] + ["config_files/" + SHIPPED_IN_WORLD[5]]
    for k, ini in enumerate(shipped):
        t_end = rng.choice([7.5, 20]) if ctx.quick else rng.choice([50, 111.5])
        jobs.append({"ini": ini, "seed": ctx.seed * 1000 + 900 + k, "max_legs": cap, "kind": "shipped-fp3",
                     "overrides": {"FinalTimeEndOfRunEventHandler": {"end_of_run_time": t_end}}, "extras": ["occupancy"]})
    for k in range(ctx.n(3, 10)):
        base = rng.choice(shipped[:5])
        n = rng.randint(3, 6)
        ov = {"RandomInputHandler": {"number_of_root_nodes": n},
              "FinalTimeEndOfRunEventHandler": {"end_of_run_time": rng.choice([3.0, 6.5, 11])},
              "FixedIntervalSamplingEventHandler": {"sampling_interval": rng.choice([0.05, 0.1, 0.37])}}
        jobs.append({"ini": base, "seed": ctx.seed * 1000 + 950 + k, "max_legs": cap, "kind": "generated-fp3", "overrides": ov,
                     "pool": n, "extras": ["occupancy"]})
    return jobs
