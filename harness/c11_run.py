"""Subprocess helper of C11: run one real cell-based JeLLyFysh simulation (built as jellyfysh/run.py does from an .ini
text) and observe every `SingleActiveCellOccupancy` after every `update`.

usage:  python -m harness.c11_run <job.json>      (PYTHONPATH = tree under test : /verif ; cwd = <tree>/jellyfysh)
job   :  {"ini": path, "overrides": {section: {option: value}}, "seed": int, "max_updates": int, "tmp": dir}
output:  one JSON object written to job["out"]:
  {"occupancies": [{"label", "ncells", "cap", "charge_given", "cell_level", "init": "<model request line>",
                    "init_dump": str, "legs": [[request line, impl dump or err token, kind], ...]}],
   "failures": [{"signature", "case", "what"}], "stats": {...}, "error": str or null}
Nothing of the tree under test is edited; observation is by wrapping methods of the classes at run time.
"""
import functools, json, os, random, struct, sys, traceback
from configparser import ConfigParser


def f2b(x):
    return str(struct.unpack("<Q", struct.pack("<d", float(x)))[0])


class Recorder:
    """one per SingleActiveCellOccupancy instance"""

    def __init__(self, occ, cells, cell_level, cap, charge):
        self.occ, self.cells, self.cell_level, self.cap, self.charge = occ, cells, cell_level, cap, charge
        self.cell_list = list(cells.yield_cells())
        self.cell_index = {c: i for i, c in enumerate(self.cell_list)}
        self.uid = {}
        self.init_line = None
        self.init_dump = None
        self.legs = []
        self.n_updates = 0

    def idx(self, identifier):
        if identifier not in self.uid:
            self.uid[identifier] = len(self.uid)
        return self.uid[identifier]

    def charge_of(self, unit):
        return unit.charge[self.charge] if self.charge is not None else 0.0

    def relevant(self, unit):
        # the property's "relevant unit": on the cell level and (if a charge is named) with non-zero value of it
        return True if self.charge is None else unit.charge[self.charge] != 0

    def dump(self):
        occ = self.occ
        o = ";".join("%d:%s" % (k, ",".join(str(self.idx(i)) for i in occ[c]))
                     for k, c in enumerate(self.cell_list) if len(occ[c]) > 0)
        sur = getattr(occ, "_surplus", None)
        s = ";".join("%d:%s" % (self.cell_index[c], ",".join(str(self.idx(i)) for i in l)) for c, l in sur.items()) \
            if isinstance(sur, dict) else "?"
        y = ",".join(str(self.idx(i)) for i in occ.yield_surplus())
        act = list(occ.yield_active_cells())
        if not act:
            a = "none"
        else:
            a = "+".join("%d,%s" % (self.cell_index[c], "None" if i is None else self.idx(i)) for c, i in act)
        return "O=%s S=%s Y=%s A=%s" % (o, s, y, a)


def units_on_level(root_cnodes, level):
    from jellyfysh.base.node import yield_nodes_on_level_below
    return [cn.value for r in root_cnodes for cn in yield_nodes_on_level_below(r, level - 1)]


def particles_on_level(root_nodes, level):
    """(identifier, particle) of the physical state (the true positions) on the given level"""
    def rec(node, ident):
        if len(ident) == level:
            yield ident, node.value
        else:
            for j, ch in enumerate(node.children):
                yield from rec(ch, ident + (j,))
    for i, r in enumerate(root_nodes):
        yield from rec(r, (i,))


def oracle(rec, true_units, active_ids, fail, case, where):
    """the property at one leg, stated directly on the implementation's public answers.
    true_units: list of (identifier, relevant, true cell) for every unit on the cell level;
    active_ids: identifiers of the active units on the cell level."""
    occ = rec.occ
    where_occ = {}
    for c in rec.cell_list:
        lst = list(occ[c])
        if rec.cap > 0 and len(lst) > rec.cap:
            fail("cap-exceeded:" + where, dict(case, cell=rec.cell_index[c], n=len(lst), cap=rec.cap),
                 "a cell lists more occupants than its limit")
        for i in lst:
            where_occ.setdefault(i, []).append(("occ", c))
    sur = getattr(occ, "_surplus", None)
    if isinstance(sur, dict):
        for c, l in sur.items():
            for i in l:
                where_occ.setdefault(i, []).append(("sur", c))
    else:
        for i in occ.yield_surplus():
            where_occ.setdefault(i, []).append(("sur", None))
    n_sur_public = sum(1 for _ in occ.yield_surplus())
    if isinstance(sur, dict) and n_sur_public != sum(len(l) for l in sur.values()):
        fail("yield-surplus-incomplete:" + where, case, "yield_surplus does not generate the surplus lists")
    act = list(occ.yield_active_cells())
    for ident, relevant, cell in true_units:
        recs = where_occ.get(ident, [])
        if ident in active_ids:
            if not relevant:
                continue
            if recs:
                fail("active-unit-listed:" + where, dict(case, unit=str(ident)), "the active unit is in an occupant/surplus list")
            if act != [(cell, ident)]:
                fail("active-cell-wrong:" + where,
                     dict(case, unit=str(ident), true_cell=rec.cell_index[cell],
                          recorded=[[rec.cell_index.get(c), str(i)] for c, i in act]),
                     "the active unit is not recorded as the active unit of the cell containing its position")
        elif relevant:
            if len(recs) != 1:
                fail(("unit-missing:" if not recs else "unit-duplicated:") + where,
                     dict(case, unit=str(ident), records=len(recs)),
                     "a relevant non-active unit is not recorded exactly once")
            elif recs[0][1] is not None and recs[0][1] != cell:
                fail("unit-in-wrong-cell:" + where,
                     dict(case, unit=str(ident), true_cell=rec.cell_index[cell], recorded_cell=rec.cell_index[recs[0][1]],
                          list=recs[0][0]),
                     "a relevant non-active unit is recorded in a cell that does not contain its position")


def main():
    job = json.load(open(sys.argv[1]))
    out = {"occupancies": [], "failures": [], "stats": {}, "error": None}
    failures = out["failures"]
    stats = out["stats"]

    def fail(sig, case, what):
        if sum(1 for f in failures if f["signature"] == sig) < 5:
            failures.append({"signature": sig, "case": case, "what": what})
        if job.get("stop_on") and sig.startswith(job["stop_on"]):
            state["updates"] = 10 ** 18      # search run: the first hit is enough

    def bump(k, n=1):
        stats[k] = stats.get(k, 0) + n

    try:
        import jellyfysh
        stats["jellyfysh"] = os.path.dirname(jellyfysh.__file__)
        from jellyfysh.base import factory
        from jellyfysh.base.exceptions import EndOfRun
        from jellyfysh.base.strings import to_camel_case
        from jellyfysh.activator.internal_state.single_active_cell_occupancy import SingleActiveCellOccupancy
        from jellyfysh.activator.tag_activator import TagActivator
        from jellyfysh.event_handler.cell_boundary_event_handler import CellBoundaryEventHandler
        import jellyfysh.setting as setting

        config = ConfigParser()
        assert config.read(job["ini"])
        if config.has_section("PdbInputHandler"):
            from harness.runtrace import install_pdb_standin
            install_pdb_standin()
        for sec, kv in job.get("overrides", {}).items():
            if not config.has_section(sec):
                config.add_section(sec)
            for k, v in kv.items():
                config.set(sec, k, str(v))
        for sec in config.sections():
            if config.has_option(sec, "number_event_handlers") and job.get("min_event_handlers"):
                config.set(sec, "number_event_handlers",
                           str(max(int(config.get(sec, "number_event_handlers")), job["min_event_handlers"])))
        for sec in config.sections():          # keep output files out of the tree
            for k, v in config.items(sec):
                if k == "filename" and v.startswith("output/"):
                    config.set(sec, k, os.path.join(job["tmp"], os.path.basename(v)))
        base_case = {"ini": os.path.relpath(job["ini"], os.path.dirname(os.path.dirname(jellyfysh.__file__))),
                     "overrides": job.get("overrides", {}), "seed": job["seed"]}

        import time
        deadline = time.time() + job["max_seconds"] if job.get("max_seconds") else None
        recorders = {}
        state = {"preceding": None, "mediator": None, "activator": None, "updates": 0}

        orig_init = SingleActiveCellOccupancy.__init__
        orig_initialize = SingleActiveCellOccupancy.initialize
        orig_update = SingleActiveCellOccupancy.update

        @functools.wraps(orig_init)
        def w_init(self, cells, cell_level, maximum_number_occupants=1, charge=None):
            orig_init(self, cells, cell_level, maximum_number_occupants, charge)
            recorders[id(self)] = Recorder(self, cells, cell_level, maximum_number_occupants, charge)

        def true_units(rec):
            roots = state["mediator"]._state_handler._physical_state._root_nodes
            res = []
            for ident, p in particles_on_level(roots, rec.cell_level):
                res.append((ident, rec.relevant(p), rec.cells.position_to_cell(p.position)))
            return res

        @functools.wraps(orig_initialize)
        def w_initialize(self, extracted_global_state):
            rec = recorders[id(self)]
            us = units_on_level(extracted_global_state, rec.cell_level)
            parts = ["init", str(len(rec.cell_list)), str(rec.cap), "1" if rec.charge is not None else "0"]
            tu = []
            for u in us:
                c = rec.cells.position_to_cell(u.position)
                parts += [str(rec.idx(u.identifier)), f2b(rec.charge_of(u)), str(rec.cell_index[c])]
                tu.append((u.identifier, rec.relevant(u), c))
            rec.init_line = " ".join(parts)
            orig_initialize(self, extracted_global_state)
            rec.init_dump = rec.dump()
            oracle(rec, tu, set(), fail, dict(base_case, leg=0), "initialize")

        def owner_of(handler):
            """the occupancy a cell-boundary event handler belongs to (via its tagger)"""
            try:
                tagger = state["activator"]._event_handler_tagger_dictionary[handler]
                return tagger._internal_state
            except Exception:
                return None

        @functools.wraps(orig_update)
        def w_update(self, extracted_active_global_state):
            rec = recorders[id(self)]
            rec.n_updates += 1
            state["updates"] += 1
            case = dict(base_case, leg=rec.n_updates)
            prec = state["preceding"]
            is_cb = isinstance(prec, CellBoundaryEventHandler) and owner_of(prec) in (self, None)
            kind = type(prec).__name__
            # --- history clause, evaluated before the update on the *recorded* active cell
            before = list(self.yield_active_cells())
            roots = state["mediator"]._state_handler._physical_state._root_nodes
            if before:
                cell_rec, id_rec = before[0]
                node = roots[id_rec[0]]
                for k in id_rec[1:]:
                    node = node.children[k]
                cell_true = rec.cells.position_to_cell(node.value.position)
                if cell_true != cell_rec:
                    nbrs = [rec.cells.neighbor_cell(cell_rec, d, p) for d in range(setting.dimension) for p in (True, False)]
                    if not is_cb:
                        fail("active-left-cell-without-boundary-event", dict(case, preceding=kind, unit=str(id_rec),
                             recorded_cell=rec.cell_index[cell_rec], true_cell=rec.cell_index[cell_true],
                             position=[x.hex() for x in node.value.position]),
                             "the active unit left its recorded cell without a cell-boundary event")
                    elif cell_true not in nbrs:
                        fail("boundary-event-not-to-neighbour", dict(case, unit=str(id_rec),
                             recorded_cell=rec.cell_index[cell_rec], true_cell=rec.cell_index[cell_true]),
                             "after a cell-boundary event the unit is not in a neighbouring cell")
                    bump("crossing:" + ("wrap" if any(abs(a - b) > 1 for a, b in zip(cell_rec.identifier, cell_true.identifier)) else "inner"))
                elif is_cb and owner_of(prec) is self:
                    fail("boundary-event-stays-in-cell", dict(case, unit=str(id_rec), cell=rec.cell_index[cell_rec],
                         position=[x.hex() for x in node.value.position]),
                         "after a cell-boundary event the unit is still in the old cell")
            # --- the request for the model
            act_units = units_on_level(extracted_active_global_state, rec.cell_level)
            line, err = None, None
            if len(act_units) == 1:
                nu = act_units[0]
                nc = rec.cells.position_to_cell(nu.position)
                line = "update %d %s %d" % (rec.idx(nu.identifier), f2b(rec.charge_of(nu)), rec.cell_index[nc])
                old_id = before[0][1] if before else None
                bump("update:" + ("same-id" if nu.identifier == old_id else
                                  ("irrelevant" if not rec.relevant(nu) else
                                   ("first" if old_id is None else "changed-id"))))
            try:
                orig_update(self, extracted_active_global_state)
                d = rec.dump()
            except (KeyError, ValueError, IndexError) as e:
                d = "err:" + type(e).__name__
                err = e
            if line is not None and len(rec.legs) < job.get("max_record", 10 ** 9):
                rec.legs.append([line, d, kind])
            if err is not None:
                fail("update-raised:" + type(err).__name__, dict(case, preceding=kind), "update raised %r" % (err,))
                raise err
            oracle(rec, true_units(rec), {u.identifier for u in act_units}, fail, dict(case, preceding=kind), "update")
            bump("legs")
            if state["updates"] >= job["max_updates"] or (deadline and (state["updates"] & 255) == 0 and time.time() > deadline):
                raise EndOfRun

        SingleActiveCellOccupancy.__init__ = w_init
        SingleActiveCellOccupancy.initialize = w_initialize
        SingleActiveCellOccupancy.update = w_update

        orig_gehtru = TagActivator._get_event_handlers_to_run_update

        from jellyfysh.activator.tagger.cell_boundary_tagger import CellBoundaryTagger
        from jellyfysh.event_handler.abstracts import EndOfRunEventHandler
        out["premise_failures"] = []

        @functools.wraps(orig_gehtru)
        def w_gehtru(self, extracted_active_global_state, preceding_event_handler):
            state["preceding"] = preceding_event_handler
            state["activator"] = self
            res = orig_gehtru(self, extracted_active_global_state, preceding_event_handler)
            # premise of the link theorem `SystemLinks.active_unit_stays_in_recorded_cell`: while an occupancy records a
            # relevant active unit, a cell-boundary candidate of that occupancy is pending (its handler is 'running')
            if not isinstance(preceding_event_handler, EndOfRunEventHandler):
                for rec in recorders.values():
                    act = list(rec.occ.yield_active_cells())
                    if not act or act[0][1] is None:
                        continue
                    taggers = [t for t in self._taggers
                               if isinstance(t, CellBoundaryTagger) and getattr(t, "_internal_state", None) is rec.occ]
                    if not taggers:
                        continue
                    bump("premise:checked")
                    running = sum(len(self._running_event_handlers[t]) for t in taggers)
                    if running != 1:
                        bump("premise:" + ("missing" if running == 0 else "several"))
                        if len(out["premise_failures"]) < 5:
                            out["premise_failures"].append(
                                dict(base_case, leg=rec.n_updates, preceding=type(preceding_event_handler).__name__,
                                     preceding_tag=getattr(self._event_handler_tagger_dictionary[preceding_event_handler], "_tag", None),
                                     cell_level=rec.cell_level, pending_cell_boundary_candidates=running,
                                     active_unit=str(act[0][1])))
            return res

        TagActivator._get_event_handlers_to_run_update = w_gehtru

        random.seed(job["seed"])
        factory.build_from_config(config, to_camel_case(config.get("Run", "setting")), "jellyfysh.setting")

        mediator = factory.build_from_config(config, to_camel_case(config.get("Run", "mediator")), "jellyfysh.mediator")
        state["mediator"] = mediator
        if job.get("prime_counters") is not None:
            # "at every leg of a run", however long: start with the heap scheduler's lazy-deletion counters just below the C
            # `unsigned int` range (the state after ~4.3e9 trashed candidates per handler); the wrap-around must be invisible
            sch_ = getattr(mediator, "_scheduler", None)
            if hasattr(sch_, "_minimal_valid_counter") and not sch_._minimal_valid_counter:
                for h_ in mediator._activator.get_event_handlers():
                    sch_._minimal_valid_counter[h_] = int(job["prime_counters"])
        try:
            mediator.run()
        except EndOfRun:
            pass
        for rec in recorders.values():
            out["occupancies"].append({"ncells": len(rec.cell_list), "cap": rec.cap, "charge_given": rec.charge is not None,
                                       "cell_level": rec.cell_level, "init": rec.init_line, "init_dump": rec.init_dump,
                                       "legs": rec.legs, "updates": rec.n_updates})
    except Exception as e:   # noqa
        out["error"] = "%s: %s\n%s" % (type(e).__name__, e, traceback.format_exc()[-3000:])
        try:
            for rec in recorders.values():
                out["occupancies"].append({"ncells": len(rec.cell_list), "cap": rec.cap, "charge_given": rec.charge is not None,
                                           "cell_level": rec.cell_level, "init": rec.init_line, "init_dump": rec.init_dump,
                                           "legs": rec.legs, "updates": rec.n_updates})
        except Exception:
            pass
    with open(job["out"], "w") as f:
        json.dump(out, f)


if __name__ == "__main__":
    main()
