"""Tie of `lean/JF/Props/ModeDiscipline.lean` (E13: the mode discipline of C12Chain derived from the wiring) to the code.

The theorems (`modeStep_of_modeSound`, `run_rootConsistent_chain_of_modeSound`) speak about runs `RunK` of the activator model in which
every committed event is of a kind the HANDLER CLASS of the committing tagger can commit (`kindsOf`, lean/JF/Model/ModeWiring.lean; for
the end of chain: the leaf / root variant according to the mode of the activation state in which its candidate time was requested), and
conclude that the kinds follow the leaf/root mode protocol and that the mode is the one read off the activation flags (`modeOf`).
On every recorded commit of a traced run with composite objects this module evaluates:

* `mode.hmode`        — the handler mode the translator derives from the class hierarchy (ast) and the .ini options equals the one
                        derived from the MRO of the REAL handler object and the configuration the run was built from;
* `mode.wiring`       — the wiring of the run passes `ModeSound` (Python mirror `mode_sound`; for the shipped files this is the Lean
                        obligation `modeSound_<name>`, the mirror's mode table is pinned to Lean's by `py_mode_tables_agree`);
* `mode.kind-map`     — the hypothesis `hkind`: which point masses changed velocity is the pattern of a kind `kindsOf` allows for the
                        committing tagger (`instances`: one leaf -> another leaf = exchange; all leaves of one object -> all leaves of
                        another = pass; …), the end of chain judged with the mode of the flags at the leg that created the handler;
* `mode.flags-vs-state` — the conclusion: the mode `modeOf` computes from the recorded activation flags equals the observed mode of the
                        global state before the commit (exactly one moving point mass / all point masses of exactly one object);
* `mode.step`         — `kStep (mode of the flags) kind = mode of the flags at the next leg`;
* `mode.start`        — the start-of-run commit starts one point mass / a whole object as `initial_active_identifier` says.

Call `check_trace(ctx, tr, w)` per trace (w = `actcorr.wiring_of_trace(ctx, tree, tr)`)."""
from harness import translate

LEAF, ROOT = "leaf", "root"
ALL_KINDS = ["keep", "snap", "exchange", "pass", "eocLeaf", "eocRoot", "toLeaf", "toRoot", "start"]


# ---------------------------------------------------------------------------------------------------------------
# Python mirror of lean/JF/Model/ModeWiring.lean (+ the part of lean/JF/Model/Wiring.lean it rests on)

def k_step(m, k):
    """kStep"""
    if k in ("keep", "snap"):
        return m
    return {(LEAF, "exchange"): LEAF, (LEAF, "eocLeaf"): LEAF, (LEAF, "toRoot"): ROOT,
            (ROOT, "pass"): ROOT, (ROOT, "eocRoot"): ROOT, (ROOT, "toLeaf"): LEAF}.get((m, k))


def kinds_of(h, cm):
    """kindsOf (h: the translator's `hmode` string)"""
    if h.startswith("start"):
        return ["start"]
    return {"neutral": ["keep"], "endOfChain": ["eocLeaf"] if cm == LEAF else ["eocRoot"], "switcher true": ["toLeaf"],
            "switcher false": ["toRoot"], "cellBoundary": ["snap"], "rootUnit": ["pass", "keep"],
            "leafUnit": ["exchange", "keep"]}.get(h, ALL_KINDS)


def is_poly(h):
    return h == "endOfChain"


def definite(h):
    return {"leafUnit": LEAF, "rootUnit": ROOT, "switcher true": ROOT, "switcher false": LEAF}.get(h)


def start_mode_of(h):
    return {"start true": LEAF, "start false": ROOT}.get(h)


def kind_agrees(kind, h):
    return (kind, h.split()[0]) in {("startOfRun", "start"), ("endOfRun", "neutral"), ("sampling", "neutral"), ("dumping", "neutral"),
                                    ("endOfChain", "endOfChain"), ("switcher", "switcher"), ("cellBoundary", "cellBoundary"),
                                    ("cellVeto", "leafUnit"), ("interaction", "leafUnit"), ("interaction", "rootUnit")}


def a_step(w, s, E):
    """aStep: activate list, then deactivate list"""
    s = list(s)
    t = w["taggers"][E]
    for i in t["activates_idx"]:
        s[i] = True
    for i in t["deactivates_idx"]:
        s[i] = False
    return tuple(s)


def can_commit(w, s, E):
    return s[E] and w["taggers"][E]["kind"] not in ("startOfRun", "endOfRun")


def start_of(w):
    """Wiring.start?"""
    c = [i for i, t in enumerate(w["taggers"]) if t["kind"] == "startOfRun"]
    return c[0] if len(c) == 1 and w["taggers"][c[0]]["pool"] == 1 else None


def start_state(w, S):
    n = len(w["taggers"])
    return a_step(w, a_step(w, (True,) * n, S), S)


def reach(w, S, fuel=64):
    """reach / reachFrom / addNew: same order as the Lean lists"""
    n = len(w["taggers"])
    seen = [start_state(w, S)]
    for _ in range(fuel):
        nxt = list(seen)
        for s in seen:
            for E in range(n):
                if can_commit(w, s, E):
                    s2 = a_step(w, s, E)
                    if s2 not in nxt:
                        nxt.append(s2)
        if len(nxt) == len(seen):
            return seen
        seen = nxt
    return seen


def mode_of(w, m0, s):
    """modeOf: the mode of the first tagger that can commit and whose handler class belongs to one mode only"""
    for T in range(len(w["taggers"])):
        if can_commit(w, s, T):
            d = definite(w["taggers"][T]["hmode"])
            if d is not None:
                return d
    return m0


def commit_ok(w, m0, s, E):
    m, s2 = mode_of(w, m0, s), a_step(w, s, E)
    m2 = mode_of(w, m0, s2)
    if not all(k_step(m, k) == m2 for k in kinds_of(w["taggers"][E]["hmode"], m)):
        return False
    if m2 == m:
        return True
    return all(not (is_poly(t["hmode"]) and s[T]) or T in w["taggers"][E]["trashes_idx"] for T, t in enumerate(w["taggers"]))


def mode_sound(w):
    """ModeSound; returns (verdict, start mode, list of violations)"""
    S = start_of(w)
    if S is None:
        return False, None, ["no-unique-start-of-run-handler"]
    m0 = start_mode_of(w["taggers"][S]["hmode"])
    if m0 is None:
        return False, None, ["start-mode-unreadable"]
    bad = ["kind-vs-mode:" + t["tag"] for t in w["taggers"] if not kind_agrees(t["kind"], t["hmode"])]
    if mode_of(w, m0, start_state(w, S)) != m0:
        bad.append("start-state-not-in-start-mode")
    for s in reach(w, S):
        for E in range(len(w["taggers"])):
            if can_commit(w, s, E) and not commit_ok(w, m0, s, E):
                bad.append(f"commit:{mode_of(w, m0, s)}:{w['taggers'][E]['tag']}")
    return not bad, m0, sorted(set(bad))


def mode_table(w):
    """modeTable: [(activation state, mode)] over the reachable activation states"""
    S = start_of(w)
    if S is None:
        return []
    m0 = start_mode_of(w["taggers"][S]["hmode"]) or LEAF
    return [(s, mode_of(w, m0, s)) for s in reach(w, S)]


# ---------------------------------------------------------------------------------------------------------------
# observation

def moving(snap, nper):
    """-> {root: [children with a velocity]}"""
    out = {}
    for k, v in snap.items():
        if len(k) == 2 and v[1] is not None:
            out.setdefault(k[0], []).append(k[1])
    return {r: sorted(c) for r, c in out.items()}


def observed_modes(snap, nper):
    """the modes the global state is in: exactly one moving point mass / all point masses of exactly one composite object
    (both for an object with a single point mass; none if nothing or something else moves)"""
    mv = moving(snap, nper)
    if len(mv) != 1:
        return set()
    (r, cs), = mv.items()
    out = set()
    if len(cs) == 1:
        out.add(LEAF)
    if len(cs) == nper:
        out.add(ROOT)
    return out


def instances(pre, post, nper):
    """the event kinds (constructors of `JF.Composite.Ev`) the commit pre -> post is an instance of, judged by which point masses
    move before / after and whether the velocity was handed over unchanged"""
    m0, m1 = moving(pre, nper), moving(post, nper)
    vel = lambda snap, r, c: snap[(r, c)][1]
    out = set()
    if not m0:
        if len(m1) == 1:
            out.add("start")
        return out
    if len(m0) != 1 or len(m1) != 1:
        return out
    (a, ca), = m0.items()
    (b, cb), = m1.items()
    va, vb = vel(pre, a, ca[0]), vel(post, b, cb[0])
    same_v = va == vb
    one0, all0, one1, all1 = len(ca) == 1, len(ca) == nper, len(cb) == 1, len(cb) == nper
    if (a, ca) == (b, cb) and all(vel(pre, a, c) == vel(post, a, c) for c in ca):
        out |= {"keep", "snap"}
    if one0 and one1:
        out.add("eocLeaf")
        if same_v and (a, ca) != (b, cb):
            out.add("exchange")
    if all0 and all1:
        out.add("eocRoot")
        if same_v and a != b:
            out.add("pass")
    if a == b and same_v and all0 and one1:
        out.add("toLeaf")
    if a == b and same_v and one0 and all1:
        out.add("toRoot")
    return out


def real_hmode(meta, t):
    """the handler mode from the MRO of the real handler object and the configuration the run was built from"""
    hsec = t["handler_cls"].split(" (")[0]
    return translate.mode_of_bases(t["handler_bases"], meta["config"].get(hsec, {}))


def check_trace(ctx, tr, w):
    """evaluate the correspondences on every recorded commit of `tr`; returns the number of commits judged"""
    meta = tr["meta"]
    ini = meta.get("ini", "")
    if meta.get("levels") != 2 or not tr["legs"]:
        ctx.count("mode:trace-outside(no composite objects)")
        return 0
    nper = meta["n_per_root"]
    case0 = {"ini": ini, "seed": meta.get("seed"), "job": tr.get("job")}
    tags = [t["tag"] for t in w["taggers"]]
    if tags != [t["tag"] for t in meta["taggers"]]:
        ctx.disagree("mode.hmode", {**case0, "what": "tagger list"}, [t["tag"] for t in meta["taggers"]], tags)
        return 0
    for t, rt in zip(w["taggers"], meta["taggers"]):
        rh = real_hmode(meta, rt)
        ctx.count("mode:hmode:" + rh.split()[0])
        if rh != t["hmode"]:
            ctx.disagree("mode.hmode", {**case0, "tagger": t["tag"]}, rh, t["hmode"])
    ok, m0, bad = mode_sound(w)
    ctx.count("mode:wiring:" + ("sound" if ok else "UNSOUND"))
    if not ok:
        ctx.disagree("mode.wiring", case0, "a wiring that keeps the modes apart", bad)
        if m0 is None:
            return 0
    hm = {t["tag"]: t["hmode"] for t in w["taggers"]}
    flags = lambda leg: tuple(bool(leg["activated"][tag]) for tag in tags)
    legs = tr["legs"]
    cm = {}                                   # handler id -> mode of the flags at the leg that created it
    pre = tr["initial"]
    nbad = {}

    def bad_(corr, case, impl, model):
        nbad[corr] = nbad.get(corr, 0) + 1
        if nbad[corr] <= 3:
            ctx.disagree(corr, case, impl, model)
        else:
            ctx.count("disagreement(more):" + corr)
    for i, leg in enumerate(legs):
        s = flags(leg)
        m = mode_of(w, m0, s)
        for h, _ids in leg["created"]:
            cm[h] = m
        etag = meta["handlers"][leg["chosen"]][0]
        post = leg["post"]
        case = {**case0, "leg": i, "handler": list(meta["handlers"][leg["chosen"]])}
        inst = instances(pre, post, nper)
        if i == 0:
            # the start-of-run commit: `StartMode`
            want = {LEAF} if m0 == LEAF else {ROOT}
            got = observed_modes(post, nper)
            ctx.count("mode:start:" + ("ok" if "start" in inst and want <= got else "BAD"))
            if "start" not in inst or not want <= got:
                bad_("mode.start", case, {"instances": sorted(inst), "observed": sorted(got)}, {"kind": "start", "mode": m0})
            pre = post
            continue
        # conclusion of the theorem: the mode of the flags is the mode of the state
        obs = observed_modes(pre, nper)
        ctx.count(f"mode:flags-vs-state:{m}:" + ("ok" if m in obs else "BAD"))
        if m not in obs:
            bad_("mode.flags-vs-state", case, sorted(obs), m)
        # hypothesis `hkind`
        allowed = kinds_of(hm[etag], cm.get(leg["chosen"], m))
        hit = [k for k in allowed if k in inst]
        ctx.count(f"mode:kind-map:{hm[etag].split()[0]}:{m}:" + ("+".join(hit) or "NONE"))
        ctx.cls(("mode", hm[etag], m, "+".join(hit)))
        if not hit:
            bad_("mode.kind-map", {**case, "hmode": hm[etag], "request-mode": cm.get(leg["chosen"])}, sorted(inst), allowed)
        if leg["chosen"] not in cm:
            bad_("mode.kind-map", {**case, "what": "committing handler was never handed out"}, None, "created")
        # the step
        if i + 1 < len(legs) and hit:
            m2 = mode_of(w, m0, flags(legs[i + 1]))
            steps = {k_step(m, k) for k in hit}
            ctx.count("mode:step:" + ("ok" if steps == {m2} else "BAD"))
            if steps != {m2}:
                bad_("mode.step", {**case, "kinds": hit, "mode": m}, m2, sorted(str(x) for x in steps))
        pre = post
    ctx.evaluations += len(legs)
    return len(legs)
