"""E1 — the single-process mediator loop as ONE composed model (lean/JF/Model/Mediator.lean, driver `jf_med`).

`replay(ctx, tr, w, cap)`: every recorded leg of a real single-process run is replayed in the composed model. The model is fed
only what depends on physics / the random stream — the identifier tuples each tagger yields on the leg's state (`fresh`) and the
candidate time each handed-out handler returned (`times`, bit patterns) — and RECOMPUTES, in three copies (model of HeapScheduler
on the model of heap.c, model of ListScheduler, spec-level scheduler): the handlers handed out and their order, the `push_event`
calls, the handler `get_succeeding_event` returns and its time, the `trash_event` calls and their order, the end-of-run stop, and
the scheduler's live set after the leg. Compared with what the real mediator / activator / scheduler did:

* the copy with the run's scheduler class must agree on everything, leg by leg (`med.created`, `med.pushed`, `med.committed`,
  `med.trashed`, `med.stop`, `med.live`); the other two copies must commit the same handler until the first time tie
  (`med.refinement`), and the spec-level live set is the finite part of the real live set (`med.live-spec`);
* the real scheduler's live set after every leg is read off the REAL scheduler class of the tree under test, fed the recorded
  calls of the real mediator (`push_event` with the recorded time objects' values, `get_succeeding_event`, `trash_event`, in the
  recorded order): `ListScheduler._times` directly, `HeapScheduler` through `lib.entry` + `_minimal_valid_counter` (an entry is
  live iff `event_valid_callback` would accept it). The schedulers are deterministic functions of their call sequence; that the
  re-executed scheduler returns the handler the traced run committed is checked on every leg (`med.scheduler-rerun`).

Cross-invariant, evaluated directly on the implementation (no model involved): after every leg, the live events of the real
scheduler are exactly the current candidates of the handlers the REAL activator lists as running (`pending` of the next leg minus
the handlers created there) — all of them for the list scheduler, the finite ones for the heap scheduler. A live event that is
not a current candidate of a running handler is a *stale event that survived in the scheduler*: if its handler belongs to an
interaction / cell-veto tagger and a commit since its push changed the motion of a unit of its in-state, this is C08's second
sentence violated -> `ctx.fail("C08:stale-event-live-in-scheduler", …)`; in every other case (no motion change yet, handler of
another kind, a running handler whose event is missing) scheduler and activator are out of step -> `ctx.disagree("med.cross-invariant", …)`.

Dumped and resumed runs (`resumed_check`): own traced runs through `python -m harness.medcorr <job.json>` — the tracer of
`harness/runtrace.py` plus a read-only observer at CLASS level (nothing of it is pickled into a dump): at every
`get_succeeding_event` of the run's scheduler it records the scheduler's live set (`ListScheduler._times`; `HeapScheduler`:
`lib.entry` + `_minimal_valid_counter`). A dumping run A (power_bounded_dump.ini and variants, short dumping interval) is traced
in full, its dumps are resumed through the repository's `resume.main()` (runs B, scheduler = the UNPICKLED one), the first dump
of every B is resumed again (runs C). The history `A up to the dump | B up to its dump | C` is one event history of the
implementation: it is replayed in the composed model (which knows no pickling: the resume must be transparent) and the
cross-invariant is evaluated on it with the OBSERVED live sets, so a candidate that comes back to life in `__setstate__` is
reported with the leg in which it was pushed, the leg in which the motion of its unit changed and the dump it survived.
"""
import os, sys, json, pickle, subprocess, tempfile, shutil, concurrent.futures
from collections import Counter
from harness import runs, actcorr
from harness.drive import f2b

INF = float("inf")


class _H:
    """stand-in for an event handler object (the schedulers only use identity / hash)"""
    def __init__(self, i):
        self.i = i


class RealSched:
    """the real scheduler class of the tree under test, driven with recorded calls"""
    def __init__(self, kind, prime=None):
        self.prime = prime
        from jellyfysh.base.time import Time
        from jellyfysh.base.exceptions import SchedulerError
        self.Time, self.SErr, self.kind = Time, SchedulerError, kind
        if kind == "HeapScheduler":
            from jellyfysh.scheduler.heap_scheduler import HeapScheduler
            from jellyfysh.scheduler.heap_scheduler import heap_scheduler as hsm
            self.lib, self.ffi = hsm.lib, hsm.ffi
            self.s = HeapScheduler()
        else:
            from jellyfysh.scheduler.list_scheduler import ListScheduler
            self.s = ListScheduler()
        self.h = {}
        self.entries = 0

    def hd(self, i):
        if i not in self.h:
            self.h[i] = _H(i)
            if self.prime is not None and self.kind == "HeapScheduler":
                # the traced run started with primed lazy-deletion counters (runtrace: `prime_counters`): the re-executed scheduler
                # starts in the same state, otherwise the purge at the wrap-around orders tied events differently
                self.s._minimal_valid_counter[self.h[i]] = int(self.prime)
        return self.h[i]

    def push(self, i, t):
        self.s.push_event(self.Time(t[0], t[1]), self.hd(i))

    def get(self):
        try:
            return self.s.get_succeeding_event().i
        except self.SErr as e:
            return "SchedulerError:" + str(e)[:60]
        except AssertionError:
            return "AssertionError"

    def trash(self, i):
        try:
            self.s.trash_event(self.hd(i))
            return None
        except self.SErr:
            return "SchedulerError"

    def live(self):
        """[(handler, q bits, r bits)] in the scheduler's own order (list order / heap array order)"""
        if self.kind == "ListScheduler":
            return [(e.event_handler.i, f2b(e.time.quotient), f2b(e.time.remainder)) for e in self.s._times]
        out, i, mv = [], 0, self.s._minimal_valid_counter
        lib, heap, null, fh = self.lib, self.s._heap, self.ffi.NULL, self.ffi.from_handle
        while True:
            e = lib.entry(heap, i)
            if e.event_handler == null:
                break
            h = fh(e.event_handler)
            if not mv[h] > e.counter:          # the test of `event_valid_callback`
                out.append((h.i, f2b(e.time_quotient), f2b(e.time_remainder)))
            i += 1
        self.entries = i
        return out


def _events(s):
    """`h:q:r,…|-` -> [(h, q, r)]"""
    if s == "-":
        return []
    out = []
    for item in s.split(","):
        h, q, r = item.split(":")
        out.append((int(h), q, r))
    return out


def _parse(reply):
    """one instance's reply -> dict or the error string"""
    if not reply.startswith("ok "):
        return reply
    p = reply.split()
    d = {"handler": int(p[1]), "time": (p[2], p[3]), "stop": p[4] == "1"}
    for item in p[5:]:
        k, v = item.split(":", 1)
        d[k] = v
    d["live"] = _events(d["live"])
    return d


def _finite(q, r):
    from harness.drive import b2f
    return (b2f(q), b2f(r)) < (INF, INF)


def replay(ctx, tr, w, cap, obs=None, label=None):
    """`obs` = {leg index: live set observed at that leg's get_succeeding_event} (own traced runs, `resumed_check`); None: the real
    scheduler class is re-executed on the recorded calls"""
    meta = tr["meta"]
    job = tr.get("job") or {}
    if (obs is None and job.get("resume")) or meta.get("number_cores") or job.get("mp"):
        ctx.count("med:skipped-resumed-or-multiprocess")
        return 0
    kind = meta.get("scheduler")
    if kind not in ("HeapScheduler", "ListScheduler"):
        ctx.count("med:skipped-unknown-scheduler")
        return 0
    case0 = {"ini": meta["ini"], "seed": meta["seed"], "scheduler": kind, "job": job}
    if label:
        case0["history"] = label
    tags = [t["tag"] for t in meta["taggers"]]
    kind_of = {t["tag"]: runs.tagger_kind(t) for t in meta["taggers"]}
    lines = actcorr.wiring_lines(w) + ["nargs " + " ".join("1" if a else "0" for a, _ in meta["handler_nargs"])]
    n0 = len(lines)
    legs = tr["legs"][:cap]
    used = []
    for i, leg in enumerate(legs):
        ys, usable = [], True
        for tag in tags:
            fr = leg["fresh"][tag]
            if isinstance(fr, str):
                usable = False
                break
            if not leg["activated"][tag]:
                ys.append(actcorr.DUMMY)
            else:
                ys.append(" ".join([str(len(fr))] + [actcorr.req_tuple(x) for x in fr]))
        if not usable:
            ctx.count("med:stopped-at-unreadable-yield")
            break
        ts = leg["times"]
        lines.append("leg %d %s %s" % (len(ts), " ".join(f"{h} {f2b(t[0])} {f2b(t[1])}" for h, t in ts.items()), " ".join(ys)))
        used.append(i)
    rep = ctx.model("med", lines)
    if not rep[n0 - 2].startswith("ok") or rep[n0 - 1] != "ok":
        ctx.disagree("med.protocol", {**case0, "reply": rep[n0 - 2:n0]}, "ok", rep[n0 - 1])
        return 0
    prim = 0 if kind == "HeapScheduler" else 1
    names = ["heap", "list", "spec"]
    primed = (tr.get("job") or {}).get("prime_counters") if kind == "HeapScheduler" else None
    real = RealSched(kind, primed) if obs is None else None
    following = {k: True for k in range(3) if k != prim}     # secondary copies still on the run's path
    cand = {}                     # handler -> current candidate (q bits, r bits), from the recorded pushes
    pushlog = {}                  # handler -> [(leg, (q bits, r bits), ids)]
    exc_end = str(tr["end"]).startswith("exc:")
    nbad = Counter()

    def bad(name, case, impl, model):
        nbad[name] += 1
        if nbad[name] <= 2:
            ctx.disagree(name, {**case0, **case}, impl, model)
    changed_cache = {}

    def changed_units(k):
        """units whose velocity / straight line the commit of leg k changed (C08's notion, as `actcorr.check_steps`)"""
        if k not in changed_cache:
            L = meta["system_lengths"]
            tol = 1e-11 * max(L)
            pre = tr["initial"] if k == 0 else tr["legs"][k - 1]["post"]
            post = tr["legs"][k]["post"]
            changed_cache[k] = {u for u in tr["legs"][k]["out"] if actcorr.off_trajectory(pre[u], post[u], L, tol)}
        return changed_cache[k]
    compared = 0
    # reading the whole C heap (dead entries included) after every leg would dominate the run time: after a scan of n entries the
    # next n / rate legs are not scanned (a stale event stays in the heap until it reaches the root, so nothing is lost but the
    # leg number at which it is first seen); the list scheduler is read after every leg
    rate = ctx.n(100, 25)
    next_scan = 0
    model_ok = True      # after the first disagreement with the model only the implementation-side checks go on

    def compare_model(i, leg, res, pushed, ctime, complete, last, scan, rlive):
        """the model's three copies vs the real leg; False = stop comparing with the model"""
        nonlocal compared
        m = res[prim]
        if isinstance(m, str):
            bad("med.committed", {"leg": i}, f"handler {leg['chosen']} committed", m)
            return False
        cs = ",".join(f"{h}={actcorr.enc_tuple(ids)}" for h, ids in leg["created"]) or "-"
        if m["c"] != cs:
            bad("med.created", {"leg": i}, cs, m["c"])
            return False
        if _events(m["p"]) != pushed:
            bad("med.pushed (one push_event per handed-out handler, in the activator's order)", {"leg": i}, pushed, m["p"])
            return False
        if primed is not None and m["handler"] != leg["chosen"] and ctime is not None and m["time"] == ctime:
            # the model's heap starts with counters 0, the traced run with counters primed just below 2^32: after the purge at the
            # wrap-around the two heaps may order events of EQUAL time differently (both are minimal: C06); the model copy leaves the
            # run's path here, exactly as a secondary copy does at a tie
            ctx.count("med:primed-run-left-model-at-tie")
            return False
        if m["handler"] != leg["chosen"] or (ctime is not None and m["time"] != ctime):
            bad("med.committed", {"leg": i, "handler": meta["handlers"][leg["chosen"]]}, [leg["chosen"], ctime], [m["handler"], m["time"]])
            return False
        compared += 1
        ctx.count("med:leg:" + kind)
        if not complete:
            return False
        if m["t"] != actcorr.commas(leg["trashed"]):
            bad("med.trashed (every handler of get_trashable_events is passed to trash_event, in order)", {"leg": i,
                "committed": meta["handlers"][leg["chosen"]]}, actcorr.commas(leg["trashed"]), m["t"])
            return False
        real_stop = last and tr["end"] == "EndOfRun"
        if m["stop"] != real_stop and not (last and tr["end"] == "cap"):
            bad("med.stop", {"leg": i, "committed": meta["handlers"][leg["chosen"]]}, real_stop, m["stop"])
        # secondary copies: the same commits until the first tie
        for k in following:
            if not following[k]:
                continue
            sk = res[k]
            if isinstance(sk, str) or sk["handler"] != leg["chosen"]:
                following[k] = False
                tie = (not isinstance(sk, str)) and sk["time"] == ctime
                ctx.count("med:secondary-left-at-" + ("tie" if tie else "difference") + ":" + names[k])
                if not tie:
                    bad("med.refinement (" + names[k] + " copy vs the run's scheduler, no tie)", {"leg": i}, [leg["chosen"], ctime],
                        sk if isinstance(sk, str) else [sk["handler"], sk["time"]])
            else:
                ctx.count("med:secondary-leg:" + names[k])
        if not scan:
            return True
        # the scheduler's live set after the leg
        ctx.count("med:live-set-read:" + kind)
        same_live = (m["live"] == rlive) if (kind == "ListScheduler" and obs is None) else (sorted(m["live"]) == sorted(rlive))
        if not same_live:
            bad("med.live (scheduler's live set after the leg)", {"leg": i, "committed": meta["handlers"][leg["chosen"]]},
                sorted(rlive)[:12], sorted(m["live"])[:12])
            return False
        ctx.count("med:live-events-compared", len(rlive))
        if following.get(2):
            fin = sorted(e for e in rlive if _finite(e[1], e[2]))
            if sorted(res[2]["live"]) != fin:
                bad("med.live-spec (spec-level live set = finite part of the real live set)", {"leg": i}, fin[:12], sorted(res[2]["live"])[:12])
                following[2] = False
        return True
    for n, i in enumerate(used):
        leg = legs[i]
        last = i == len(tr["legs"]) - 1
        # ---- what the real run did in this leg, re-executed on the real scheduler class
        pushed = [(h, f2b(t[0]), f2b(t[1])) for h, t in leg["times"].items()]
        ids_of = dict(leg["created"])
        for h, q, r in pushed:
            if real is not None:
                real.push(h, leg["times"][h])
            cand[h] = (q, r)
            pushlog.setdefault(h, []).append((i, (q, r), ids_of.get(h)))
        if real is not None:
            got = real.get()
            if got != leg["chosen"]:
                bad("med.scheduler-rerun", {"leg": i}, f"traced run committed handler {leg['chosen']}",
                    f"the scheduler class re-executed on the recorded calls returns {got}")
                break
        ctime = cand.get(leg["chosen"])
        complete = not (last and exc_end)        # the run raised after this commit: trash list / stop may be incomplete
        if complete:
            for h in leg["trashed"]:
                if real is not None:
                    e = real.trash(h)
                    if e is not None:
                        bad("med.scheduler-rerun", {"leg": i, "handler": h}, "trash_event succeeded in the traced run", e)
                cand.pop(h, None)
        if real is not None:
            scan = complete and (kind == "ListScheduler" or i >= next_scan or n == len(used) - 1)
            rlive = real.live() if scan else None
            if scan and kind == "HeapScheduler":
                next_scan = i + 1 + real.entries // rate
        else:
            # observed at the NEXT leg's get_succeeding_event (after that leg's pushes): take those pushes off again
            scan, rlive = False, None
            if complete and (i + 1) in obs and i + 1 < len(tr["legs"]):
                nxt_push = Counter((h, f2b(t[0]), f2b(t[1])) for h, t in tr["legs"][i + 1]["times"].items()
                                   if kind == "ListScheduler" or (t[0], t[1]) < (INF, INF))
                seen = Counter(tuple(e) for e in obs[i + 1])
                if nxt_push - seen:
                    bad("med.observed-live-set (a candidate pushed in this leg is not live at get_succeeding_event)", {"leg": i + 1},
                        sorted(nxt_push.elements())[:8], sorted(seen.elements())[:8])
                rlive = sorted((seen - nxt_push).elements())
                scan = True
        # ---- the composed model
        if model_ok:
            parts = rep[n0 + n].split(" | ")
            if len(parts) != 3:
                bad("med.protocol", {"leg": i}, "three replies", rep[n0 + n][:200])
                model_ok = False
            else:
                model_ok = compare_model(i, leg, [_parse(p) for p in parts], pushed, ctime, complete, last, scan, rlive)
        if not scan:
            continue
        # ---- cross-invariant on the implementation: real scheduler vs real activator
        if i + 1 < len(tr["legs"]):
            nxt = tr["legs"][i + 1]
            created_next = {h for h, _ in nxt["created"]}
            running = {h for tag in tags for h in nxt["pending"][tag]} - created_next
            want = Counter()
            for h in running:
                c = cand.get(h)
                if c is not None and (kind == "ListScheduler" or _finite(*c)):
                    want[(h, c[0], c[1])] += 1
                elif c is None:
                    want[(h, None, None)] += 1      # a running handler that never pushed: reported below
            have = Counter(rlive)
            ctx.count("med:cross-invariant-evaluated")
            stale = []
            for ev in (have - want):
                h, q, r = ev
                tag = meta["handlers"][h][0]
                # the push this live event stems from
                src = next(((j, ids) for j, t, ids in reversed(pushlog.get(h, [])) if t == (q, r)), None)
                moved = None
                if src is not None and src[1] is not None and kind_of[tag] == "interaction":
                    j, ids = src
                    snap = tr["initial"] if j == 0 else tr["legs"][j - 1]["post"]
                    units = runs.branch_units(ids, snap)
                    moved = next(((k, u) for k in range(j, i + 1) for u in changed_units(k) if u in units), None)
                case = {"leg": i, "handler": meta["handlers"][h], "handler_id": h, "event_time_bits": [q, r],
                        "pushed_in_leg": None if src is None else src[0], "running_handlers_of_its_tagger": nxt["pending"][tag],
                        "committed": meta["handlers"][leg["chosen"]]}
                stale.append((moved is None, case, moved, ev))
            stale.sort(key=lambda x: x[0])
            if stale:
                ctx.count("med:stale-live-events", len(stale))
                _, case, moved, ev = stale[0]
                if moved is not None:
                    if nbad["fail"] < 2:
                        ctx.fail("C08:stale-event-live-in-scheduler", {**case0, **case, "motion_changed_in_leg": moved[0], "unit": moved[1]},
                                 "a candidate event of an interaction / cell-veto handler is still live in the scheduler although the activator "
                                 "no longer lists it as the handler's current event and a commit since it was computed changed the motion of a "
                                 "unit of its in-state")
                    nbad["fail"] += 1
                else:
                    bad("med.cross-invariant (live event in the real scheduler that is not the current candidate of a running handler)",
                        case, "no such event", ev)
            for ev in (want - have):
                bad("med.cross-invariant (running handler with a candidate the scheduler keeps, but no live event)",
                    {"leg": i, "handler": meta["handlers"][ev[0]], "handler_id": ev[0]}, ev, "missing in the real scheduler")
                break
    ctx.evaluations += compared
    ctx.cls(("med", meta["ini"].split("/")[-1], kind, "observed" if obs is not None else "re-executed",
             tuple(sorted(names[k] for k in following if not following[k]))))
    return compared


# ------------------------------------------------------------------------------------------------------------------
# dumped and resumed runs: own traced runs with a class-level observer of the scheduler

def run_observed(root, jobs, workers=8, timeout=600):
    """as `runs.run_jobs`, but every job runs under `python -m harness.medcorr` (tracer + scheduler observer)"""
    d = tempfile.mkdtemp(prefix="jfmed_", dir=os.path.dirname(root))
    env = {**os.environ, "PYTHONPATH": root + os.pathsep + runs.VERIF, "JELLYFYSH_VERIF": "1"}

    def one(k):
        job = dict(jobs[k])
        job["out"] = os.path.join(d, f"t{k}.pkl")
        jp = os.path.join(d, f"j{k}.json")
        json.dump(job, open(jp, "w"))
        try:
            proc = subprocess.Popen([runs.PY, "-m", "harness.medcorr", jp], cwd=runs.VERIF, env=env, stdout=subprocess.DEVNULL,
                                    stderr=subprocess.DEVNULL, start_new_session=True)
            try:
                proc.wait(timeout=job.get("timeout", timeout))
            except subprocess.TimeoutExpired:
                import signal
                os.killpg(proc.pid, signal.SIGKILL)
                proc.wait()
                raise
            tr = pickle.load(open(job["out"], "rb"))
        except subprocess.TimeoutExpired:
            tr = {"meta": {"ini": job["ini"]}, "legs": [], "writes": [], "end": "timeout"}
        except Exception as e:
            tr = {"meta": {"ini": job["ini"]}, "legs": [], "writes": [], "end": "harness-exc:" + repr(e)}
        tr["job"] = {k_: v for k_, v in job.items() if k_ != "out"}
        return tr
    with concurrent.futures.ThreadPoolExecutor(workers) as ex:
        out = list(ex.map(one, range(len(jobs))))
    shutil.rmtree(d, ignore_errors=True)
    return out


def _install_observer(job, store):
    """class-level wrappers (never pickled with a mediator): remember the mediator that runs, and at every
    `get_succeeding_event` of ITS scheduler record the live set — read-only"""
    from jellyfysh.mediator.single_process_mediator import SingleProcessMediator
    from jellyfysh.scheduler.heap_scheduler import heap_scheduler as hsm
    from jellyfysh.scheduler.list_scheduler import ListScheduler
    state = {"sched": None, "hid": {}, "k": 0, "next": 0}
    rate = job.get("obs_rate", 100)
    always = job.get("obs_always", 40)           # the first gets (right after an unpickle) are always observed
    orig_run = SingleProcessMediator.run

    def run(self):
        state["sched"] = self._scheduler
        state["hid"] = {id(h): i for i, h in enumerate(self._activator.get_event_handlers())}
        return orig_run(self)
    SingleProcessMediator.run = run

    def observe_heap(s):
        out, i, mv, hid = [], 0, s._minimal_valid_counter, state["hid"]
        lib, null, fh = hsm.lib, hsm.ffi.NULL, hsm.ffi.from_handle
        while True:
            e = lib.entry(s._heap, i)
            if e.event_handler == null:
                break
            h = fh(e.event_handler)
            if not mv.get(h, 0) > e.counter:
                out.append((hid.get(id(h)), f2b(e.time_quotient), f2b(e.time_remainder)))
            i += 1
        return out, i

    def observe_list(s):
        hid = state["hid"]
        return [(hid.get(id(e.event_handler)), f2b(e.time.quotient), f2b(e.time.remainder)) for e in s._times], len(s._times)

    def wrap(cls, observe, every):
        orig = cls.get_succeeding_event

        def get(self):
            if state["sched"] is self:
                k = state["k"]
                state["k"] = k + 1
                if every or k < always or k >= state["next"]:
                    live, n = observe(self)
                    store[k] = live
                    state["next"] = k + 1 + n // rate
            return orig(self)
        cls.get_succeeding_event = get
    wrap(hsm.HeapScheduler, observe_heap, False)
    wrap(ListScheduler, observe_list, True)


def main():
    """subprocess entry: `harness.runtrace` with the scheduler observer; the observations go into `trace["sched_obs"]`"""
    import harness.runtrace as rt
    job = json.load(open(sys.argv[1]))
    store = {}
    import logging, warnings
    logging.disable(logging.CRITICAL)
    warnings.simplefilter("ignore")
    try:
        _install_observer(job, store)
    except Exception as e:        # e.g. the tree under test cannot be imported: the trace will say so
        store["error"] = repr(e)
    for name in ("record", "record_resume"):
        f = getattr(rt, name)

        def g(job_, f=f):
            tr = f(job_)
            tr["sched_obs"] = store
            return tr
        setattr(rt, name, g)
    rt.main()


def stitch(segments):
    """[(trace, last leg kept or None)] -> one history (`legs`, `initial`, `meta`, `end`, `job` of the first segment) and the
    observations re-indexed; the legs after a kept prefix are those of the run resumed from the dump written in its last leg"""
    legs, obs, cuts = [], {}, []
    for tr, upto in segments:
        part = tr["legs"] if upto is None else tr["legs"][:upto + 1]
        off = len(legs)
        for k, v in (tr.get("sched_obs") or {}).items():
            if isinstance(k, int) and k < len(part):
                obs[off + k] = v
        legs += part
        cuts.append(len(legs))
    first, lastt = segments[0][0], segments[-1][0]
    out = {"meta": first["meta"], "initial": first["initial"], "legs": legs, "writes": [], "end": lastt["end"],
           "exception": lastt.get("exception"), "job": {k: v for k, v in (first.get("job") or {}).items() if k != "resume"}}
    return out, obs, cuts[:-1]


def resumed_check(ctx):
    """dump -> resume -> dump -> resume histories of the implementation: composed-model replay + cross-invariant with the live
    sets observed on the real (unpickled) schedulers"""
    from harness import translate
    from harness.props import c19
    rng = ctx.rng
    CFG = runs.CFG
    work = tempfile.mkdtemp(prefix="jfmeddumps_", dir=os.path.dirname(ctx.root))
    n_hist = 0
    try:
        tree = translate.Tree(ctx.root)
        specs = [(CFG + "coulomb_atoms/power_bounded_dump.ini", "heap_scheduler", 3.7, 30.0, True),
                 (CFG + "coulomb_atoms/power_bounded_dump.ini", "list_scheduler", 2.9, 14.0, True),
                 (CFG + "coulomb_atoms/power_bounded_dump.ini", "heap_scheduler", 1100.0 / 64, 2000.0 / 64, False),
                 (CFG + "coulomb_atoms/cell_veto.ini", "heap_scheduler", 0.9, 4.0, False),
                 (CFG + "dipoles/dipole_motion.ini", "heap_scheduler", 2.3, 9.0, False)][:ctx.n(3, 5)]
        jobsA = []
        for n, (ini, sched, interval, t_end, many) in enumerate(specs):
            for rep in range(ctx.n(1, 2)):
                dd = os.path.join(work, f"A{len(jobsA)}")
                os.makedirs(dd)
                ov = c19.merge({"FinalTimeEndOfRunEventHandler": {"end_of_run_time": t_end}, "SingleProcessMediator": {"scheduler": sched}},
                               c19.dumping_overrides(ctx.root, ini, interval))
                ov = c19.merge(ov, {"DumpingOutputHandler": {"filename": f"dumpM{len(jobsA)}_{os.getpid()}.dat"}})
                if many:
                    # several atoms, as many Coulomb handlers as atoms: handlers of one pool are trashed and re-used at different times, so
                    # at a dump the heap holds lazily deleted entries of handlers that run again, or do not run at all
                    k = rng.randint(4, 7)
                    ov = c19.merge(ov, {"RandomInputHandler": {"number_of_root_nodes": k}, "Coulomb": {"number_event_handlers": k}})
                jobsA.append({"ini": ini, "seed": ctx.seed * 1000 + 800 + 10 * n + rep, "max_legs": ctx.n(4000, 20000), "dump_dir": dd,
                              "overrides": ov, "kind": "dumping"})
        trsA = run_observed(ctx.root, jobsA)
        # every run of one family (A and the runs resumed from its dumps) writes its dumps to the SAME file name (it is pickled with
        # the output handler): runs whose dump copies are used later must not overlap with another run of the family. Wave 1: the
        # run resumed from the first dump of every A (its dumps are kept); wave 2: the other resumed runs and the twice-resumed ones.
        jobsB, parentB = [], []
        for a, A in enumerate(trsA):
            if not A["legs"]:
                ctx.count("med:resume:dump-run-failed:" + str(A["end"])[:40])
                continue
            dumps = [d for d in (A.get("dumps") or []) if d["leg"] >= 0]
            pick = dumps[:1] + rng.sample(dumps[1:], min(len(dumps) - 1, ctx.n(2, 4))) if dumps else []
            for n, dk in enumerate(pick):
                job = {"ini": A["meta"]["ini"], "resume": dk["file"], "max_legs": ctx.n(1500, 8000), "kind": "resumed",
                       "seed": A["job"].get("seed", 0)}
                if n == 0:
                    job["dump_dir"] = os.path.join(work, f"B{len(jobsB)}")
                    os.makedirs(job["dump_dir"])
                jobsB.append(job)
                parentB.append((a, dk["leg"]))
        wave1 = [k for k, j in enumerate(jobsB) if "dump_dir" in j]
        trsB = [None] * len(jobsB)
        for k, t in zip(wave1, run_observed(ctx.root, [jobsB[k] for k in wave1]) if wave1 else []):
            trsB[k] = t
        jobsC, parentC = [], []
        for b in wave1:
            B = trsB[b]
            dumps = [d for d in (B.get("dumps") or []) if d["leg"] >= 0] if B["legs"] else []
            if dumps:
                jobsC.append({"ini": B["meta"]["ini"], "resume": dumps[0]["file"], "max_legs": ctx.n(1000, 5000), "kind": "resumed-twice",
                              "seed": jobsB[b]["seed"]})
                parentC.append((b, dumps[0]["leg"]))
        wave2 = [k for k in range(len(jobsB)) if k not in wave1]
        res2 = run_observed(ctx.root, [jobsB[k] for k in wave2] + jobsC) if (wave2 or jobsC) else []
        for k, t in zip(wave2, res2[:len(wave2)]):
            trsB[k] = t
        trsC = res2[len(wave2):]
        histories = []
        for b, B in enumerate(trsB):
            a, da = parentB[b]
            if not B["legs"]:
                ctx.count("med:resume:resumed-run-failed:" + str(B["end"])[:40])
                ctx.fail("C08:resumed-run-does-not-start", {"ini": B["meta"].get("ini"), "end": B["end"], "dump_written_in_leg": da,
                                                             "job": trsA[a].get("job"), "exception": (B.get("exception") or "")[-1200:]},
                         "a dump of the run could not be resumed (the resumed run raised before its first commit)")
                continue
            histories.append(([(trsA[a], da), (B, None)], f"dump in leg {da}, resumed"))
        for c, C in enumerate(trsC):
            b, db = parentC[c]
            a, da = parentB[b]
            if C["legs"]:
                histories.append(([(trsA[a], da), (trsB[b], db), (C, None)], f"dump in leg {da}, resumed, dump in leg {da + 1 + db}, resumed"))
        for segs, label in histories:
            tr, obs, cuts = stitch(segs)
            if any("error" in (t.get("sched_obs") or {}) for t, _ in segs):
                ctx.disagree("med.observer", {"ini": tr["meta"]["ini"]}, "observer installed", str([t["sched_obs"].get("error") for t, _ in segs]))
                continue
            try:
                w = actcorr.wiring_of_trace(ctx, tree, tr)
            except Exception as e:
                ctx.disagree("act.translator", {"ini": tr["meta"]["ini"], "error": repr(e)}, "translatable configuration", "exception")
                continue
            n = replay(ctx, tr, w, 10 ** 9, obs=obs, label=label + f" (resume points before legs {cuts})")
            n_hist += 1
            ctx.count("med:resume:histories")
            ctx.count("med:resume:legs", n)
            ctx.count("med:resume:observations", len(obs))
            ctx.cls(("med-resume", tr["meta"]["ini"].split("/")[-1], tr["meta"]["scheduler"], len(segs)))
    finally:
        shutil.rmtree(work, ignore_errors=True)
    return n_hist


if __name__ == "__main__":
    main()
