"""E40 — C09's last clause on the implementation: "the number of event handlers demanded never exceeds what the tagger owns".

`check(ctx)`        (a) the yield methods of the REAL cell tagger classes (`CellVetoTagger`, `CellBoundaryTagger`,
                    `CellBoundingPotentialTagger`, `ExcludedCellsTagger`, `SurplusCellsTagger`:
                    `Class.yield_identifiers_send_event_time` called on a stand-in `self` whose `_internal_state` is an
                    occupancy built by the harness over the REAL `nearby_cells` arithmetic of the model grid) on random and
                    adversarial (crowded) occupancy states: number of in-states yielded == the model's count
                    (`JF.C09Pools.excluded_demand_eq`, `bounding_demand_eq`, `surplus_demand_eq`, `cellVeto_demand_eq`) and
                    <= the bound (`excludedBound`, `boundingBound`, `surplusBound`); plus the table pool-vs-bound of every shipped
                    `.ini` of the tree under test (`translate_pools`), counted as evidence; a pool below the bound is counted
                    (`pool<bound:<ini>:<tagger>`), it is a property violation only if a run exhausts it (b).
`check_trace(ctx, tr, w)` (b) on a recorded run: per tagger the maximum number of simultaneously running handlers and the longest
                    fresh yield vs the pool (`ctx.count`), `ctx.fail("C09:pool-exhausted:<ini>:<tagger>", …)` if the demand
                    exceeds the pool or the run ended in `TagActivatorError`.
                    (a2, E42) the REAL `FactorTypeMapInStateTagger` on a REAL `FactorTypeMaps` object built from the factor file of
                    every shipped `.ini` (with the configuration's numbers of root nodes / nodes per root node) and from generated
                    factor files (`harness/props/c10.py: gen_file`), on real `Node` branches: every one-chain state in leaf mode
                    (one leaf active) and in root mode (all leaves of one composite object), and two-chain (adversarial) states:
                    number of in-states yielded == the model's count (`translate_pools.factor_yield`, the Python reading of
                    `FactorMaps.taggerYield`); over the one-chain states of the tagger's mode (`Sel`) the count is <= `demandBound`
                    (= `demandMax`), the maximum IS `demandMax`, and a count above the shipped pool is
                    `ctx.fail("C09:pool-exhausted:<ini>:<tagger>")`.
"""
import os

from harness import translate_pools as TP


# ------------------------------------------------------------------------------------------------------------------
# stand-ins handed to the real yield methods

class _Cell:
    __slots__ = ("identifier",)

    def __init__(self, identifier):
        self.identifier = identifier

    def __repr__(self):
        return f"Cell{self.identifier}"


class _Cells:
    """cuboid periodic cell system reduced to what the taggers call: `yield_cells`, `nearby_cells` (same arithmetic as
    `CuboidPeriodicCells._yield_nearby_cells`: `range(c - l, c + l + 1)` corrected by `% n`, a set)"""

    def __init__(self, n, layers):
        self.n, self.layers = list(n), layers
        idents = [()]                           # order of `allCells`: first index runs fastest (CuboidCells.__init__)
        for k in reversed(self.n):
            idents = [(x,) + t for t in idents for x in range(k)]
        self._cells = {i: _Cell(i) for i in idents}
        self._order = [self._cells[i] for i in idents]

    def yield_cells(self):
        return iter(self._order)

    def nearby_cells(self, cell):
        out = {()}
        for d, k in enumerate(self.n):
            rng = {(cell.identifier[d] + o) % k for o in range(-self.layers, self.layers + 1)}
            out = {t + (x,) for t in out for x in rng}
        return {self._cells[i] for i in out}


class _Occupancy:
    """what the taggers read of a `SingleActiveCellOccupancy`"""

    def __init__(self, cells, occupants, surplus, active):
        self.cells, self._occ, self._surplus, self._active = cells, occupants, surplus, active

    def __getitem__(self, cell):
        return self._occ.get(cell, [])

    def yield_surplus(self):
        for v in self._surplus.values():
            yield from v

    def yield_active_cells(self):
        if self._active is not None:
            yield self._active


class _Self:
    def __init__(self, internal_state):
        self._internal_state = internal_state


# ------------------------------------------------------------------------------------------------------------------
# (a)

def _random_state(rng, cells, n_units, cap, crowded):
    """an occupancy state in the shape `SingleActiveCellOccupancy` produces (occupants up to `cap`, rest surplus), units
    1..n_units-1 stored, unit 0 active; `crowded`: everything around the active cell"""
    order = list(cells.yield_cells())
    ac = rng.choice(order)
    near = sorted(cells.nearby_cells(ac), key=lambda c: c.identifier)
    occ, sur = {}, {}
    for u in range(1, n_units):
        pool = near if crowded and rng.random() < 0.9 else order
        c = ac if crowded and rng.random() < 0.3 else rng.choice(pool)
        if cap <= 0 or len(occ.get(c, [])) < cap:
            occ.setdefault(c, []).append((u,))
        else:
            sur.setdefault(c, []).append((u,))
    active = (ac, (0,)) if rng.random() < 0.95 else None
    return _Occupancy(cells, occ, sur, active), ac, near


def check(ctx):
    from jellyfysh.activator.tagger.cell_veto_tagger import CellVetoTagger
    from jellyfysh.activator.tagger.cell_boundary_tagger import CellBoundaryTagger
    from jellyfysh.activator.tagger.cell_bounding_potential_tagger import CellBoundingPotentialTagger
    from jellyfysh.activator.tagger.excluded_cells_tagger import ExcludedCellsTagger
    from jellyfysh.activator.tagger.surplus_cells_tagger import SurplusCellsTagger
    rng = ctx.rng
    grids = [([3, 5, 7], 1), ([6, 6, 6], 2), ([13, 13], 1), ([3, 4], 1), ([4], 1), ([2, 2], 1), ([6, 6, 6], 1)]
    n_cases = ctx.n(120, 600)
    built = {}
    for k in range(n_cases):
        n, layers = grids[k % len(grids)]
        key = (tuple(n), layers)
        if key not in built:
            built[key] = _Cells(n, layers)
        cells = built[key]
        cap = rng.choice([1, 1, 2, 3, -1])
        n_units = rng.choice([1, 2, 2, 3, 5, 17, 40, 162])
        crowded = rng.random() < 0.5
        occ, ac, near = _random_state(rng, cells, n_units, cap, crowded)
        me = _Self(occ)
        total, n_near, n_non = TP.grid_counts(n, layers)
        case = {"grid": n, "layers": layers, "cap": cap, "units": n_units, "crowded": crowded,
                "active": None if occ._active is None else list(ac.identifier)}
        got = {
            "cellVeto": len(list(CellVetoTagger.yield_identifiers_send_event_time(me, None))),
            "cellBoundary": len(list(CellBoundaryTagger.yield_identifiers_send_event_time(me, None))),
            "cellBounding": len(list(CellBoundingPotentialTagger.yield_identifiers_send_event_time(me, None))),
            "excludedCells": len(list(ExcludedCellsTagger.yield_identifiers_send_event_time(me, None))),
            "surplusCells": len(list(SurplusCellsTagger.yield_identifiers_send_event_time(me, None))),
        }
        has = occ._active is not None
        near_set = set(near)
        model = {
            "cellVeto": 1 if has else 0, "cellBoundary": 1 if has else 0,
            "cellBounding": sum(1 for c in cells.yield_cells() if occ[c] and c not in near_set) if has else 0,
            "excludedCells": sum(len(occ[c]) for c in near) if has else 0,
            "surplusCells": sum(len(v) for v in occ._surplus.values()) if has else 0,
        }
        if len(near) != n_near:
            ctx.disagree("pool.nearby-count", case, len(near), n_near)
        n_rel = n_units
        bound = {
            "cellVeto": 1, "cellBoundary": 1,
            "cellBounding": min(n_non, max(0, n_rel - 1)),
            "excludedCells": max(0, n_rel - 1) if cap <= 0 else min(n_near * cap, max(0, n_rel - 1)),
            "surplusCells": max(0, n_rel - 1),
        }
        ctx.evaluations += 1
        for cls in got:
            if got[cls] != model[cls]:
                ctx.disagree("pool.demand:" + cls, case, got[cls], model[cls])
            if got[cls] > bound[cls]:
                ctx.disagree("pool.bound:" + cls, case, got[cls], bound[cls])
            if got[cls] == bound[cls] and bound[cls] > 1:
                ctx.cls("pool:bound-attained:" + cls)
            ctx.count(f"pool:{cls}:demand" + ("=0" if got[cls] == 0 else "=1" if got[cls] == 1 else ">1"))
        if got["cellBounding"] + got["excludedCells"] + got["surplusCells"] > max(0, n_rel - 1):
            ctx.disagree("pool.shared-bound", case, got, n_rel - 1)
        ctx.cls(f"pool:grid{len(n)}d:cap{'inf' if cap <= 0 else cap}:{'crowded' if crowded else 'random'}")
    # the shipped table
    try:
        pds = TP.all_pool_data(ctx.root)
    except Exception as e:                                   # a tree whose .ini files cannot be read: report, do not judge
        ctx.disagree("pool.translate", {"root": ctx.root}, "readable configurations", repr(e))
        return
    for pd in pds:
        for T, t in enumerate(pd["wiring"]["taggers"]):
            b, _ = TP.demand_bound(pd, T)
            rel = "<" if t["pool"] < b else "=" if t["pool"] == b else ">"
            ctx.count(f"pool:shipped:pool{rel}bound")
            if t["pool"] < b:
                ctx.count(f"pool<bound:{pd['ini']}:{t['tag']}:{t['pool']}<{b}")
    try:
        _check_factor(ctx, pds)
    except Exception as e:  # noqa
        ctx.disagree("pool.factor-check", {}, "evaluated", repr(e))
    ctx.rule = ("(a) occupancy states (grid x occupant limit x number of units x crowded/random, with/without active unit) handed to "
                "the real cell taggers' yield methods: count == model count <= bound; non-trivial = a demand > 1 or a bound attained. "
                "(a2) real FactorTypeMapInStateTagger on real FactorTypeMaps (shipped factor files with the shipped numbers of nodes, generated "
                "files): leaf-mode / root-mode / two-chain active branches, count == model count, max over the one-chain states of "
                "the tagger's mode == demandMax <= pool. "
                "(b) per recorded run: max simultaneously running handlers and longest yield per tagger vs pool.")


# ------------------------------------------------------------------------------------------------------------------
# (a2) the factor tagger on a real `FactorTypeMaps`

def _snake(camel):
    out = ""
    for ch in camel:
        out += ("_" + ch.lower()) if ch.isupper() and out else ch.lower()
    return out


def _branches(Node, Unit, n_per, leaves):
    """the extracted active global state (list of root cnodes) whose leaf nodes are `leaves` (identifier tuples)"""
    by_root = {}
    for lf in leaves:
        by_root.setdefault(lf[0], []).append(lf)
    out = []
    for r in sorted(by_root):
        b = Node(Unit((r,), [0.0]))
        if n_per != 1:
            for lf in by_root[r]:
                b.add_child(Node(Unit(tuple(lf), [0.0])))
        out.append(b)
    return out


def _factor_states(rng, n_roots, n_per, n_random):
    """(mode, leaves): every one-chain state for small systems (a sample for large ones), plus two-chain states"""
    roots = list(range(n_roots)) if n_roots <= 6 else sorted(set([0, 1, n_roots - 1] + rng.sample(range(n_roots), 3)))
    for i in roots:
        if n_per == 1:
            yield "leaf", [(i,)]
            continue
        yield "root", [(i, j) for j in range(n_per)]
        for j in range(n_per):
            yield "leaf", [(i, j)]
    for _ in range(n_random):                                  # adversarial: two independent active units / partial objects
        if n_roots < 2:
            break
        a, b = rng.sample(range(n_roots), 2)
        if n_per == 1:
            yield "two", [(a,), (b,)]
        else:
            ja = sorted(rng.sample(range(n_per), rng.randint(1, n_per)))
            jb = sorted(rng.sample(range(n_per), rng.randint(1, n_per)))
            yield "two", [(a, j) for j in ja] + [(b, j) for j in jb]


def _check_factor(ctx, pds):
    import logging
    import tempfile
    import jellyfysh.setting as setting
    from jellyfysh.setting import hypercuboid_setting
    from jellyfysh.activator.tagger.factor_type_maps import FactorTypeMaps
    from jellyfysh.activator.tagger.factor_type_map_in_state_tagger import FactorTypeMapInStateTagger
    from jellyfysh.base.node import Node
    from jellyfysh.base.unit import Unit
    from harness.props import c10 as C10
    logging.getLogger("jellyfysh.activator.tagger.factor_type_maps").setLevel(logging.ERROR)
    rng = ctx.rng
    fsdir = os.path.join(ctx.root, "jellyfysh", "config_files", "factor_set_files")

    def set_up(n_roots, n_per, path):
        setting.reset()
        hypercuboid_setting.HypercuboidSetting(beta=1.0, dimension=1, system_lengths=[1.0])
        setting.set_number_of_root_nodes(n_roots)
        setting.set_number_of_nodes_per_root_node(n_per)
        setting.set_number_of_node_levels(1 if n_per == 1 else 2)
        FactorTypeMaps._instance = None
        return FactorTypeMaps(path)

    def one(ftm, lines, n_roots, n_per, ty, sel, pool, bound, case0, sig):
        """drive one tagger over the states; returns the maximum over the one-chain states of its mode"""
        try:
            tg = FactorTypeMapInStateTagger([], [], object(), max(1, pool or 1), ftm, tag="t", factor_type_maps_label=_snake(ty))
            tg.initialize()
        except Exception as e:  # noqa
            ctx.disagree("pool.factor-tagger:construct", case0, repr(e), "constructed")
            return None
        best = 0
        for mode, leaves in _factor_states(rng, n_roots, n_per, 4):
            case = dict(case0, mode=mode, active_leaves=[list(x) for x in leaves])
            try:
                got = len(list(tg.yield_identifiers_send_event_time(_branches(Node, Unit, n_per, leaves))))
            except Exception as e:  # noqa
                got = "err:" + type(e).__name__
            y = TP.factor_yield(lines, n_roots, n_per, ty, leaves)
            want = "err:KeyError" if y is None else len(y)
            ctx.evaluations += 1
            if not isinstance(got, int) and got != want and pool is None:
                # a GENERATED file on which the real map raises something this Python mirror does not model (it models the `KeyError`
                # of a local map only): an explicit error outcome, judged by C10's correspondence against the full Lean model of
                # `FactorTypeMaps` — counted here, never a disagreement by itself
                ctx.count("pool:factor:generated:tagger-raised:" + str(got))
                continue
            if got != want:
                ctx.disagree("pool.demand:factorTypeMap", case, got, want)
            ctx.count(f"pool:factor:{mode}:demand" + ("=err" if not isinstance(got, int) else "=0" if got == 0 else "=1" if got == 1 else ">1"))
            in_mode = (mode == "leaf" and sel != 1) or (mode == "root" and sel != 0)
            if in_mode and isinstance(got, int):
                best = max(best, got)
                if bound is not None and got > bound:
                    ctx.disagree("pool.bound:factorTypeMap", case, got, bound)
                if pool is not None and got > pool:
                    ctx.fail(sig, dict(case, pool=pool, demand=got),
                             f"the factor tagger yields {got} in-states on a one-chain state of its mode but owns {pool} event handlers")
        return best

    # the shipped configurations: their factor file, their numbers of nodes, their pools
    for pd in pds:
        if not pd["factor_file"]:
            continue
        path = os.path.join(fsdir, pd["factor_file"])
        n_roots, n_per = pd["n_roots"], pd["n_per"]
        try:
            ftm = set_up(n_roots, n_per, path)
        except Exception as e:  # noqa
            ctx.disagree("pool.factor-file", {"ini": pd["ini"], "file": pd["factor_file"]}, repr(e), "accepted")
            continue
        for T, t in enumerate(pd["wiring"]["taggers"]):
            if t["lean_cls"] != "factorTypeMap":
                continue
            ty, sel = pd["ftypes"][T], pd["sels"][T]
            bound, _ = TP.demand_bound(pd, T)
            case0 = {"ini": pd["ini"], "tagger": t["tag"], "type": ty, "sel": sel, "n_roots": n_roots, "n_per": n_per}
            best = one(ftm, pd["lines"], n_roots, n_per, ty, sel, t["pool"], bound, case0,
                       f"C09:pool-exhausted:{pd['ini']}:{t['tag']}")
            if best is None:
                continue
            full = n_roots <= 6
            if full and best != bound:
                ctx.disagree("pool.demandMax:factorTypeMap", case0, best, bound)
            ctx.cls(f"pool:factor:shipped:{'leaf' if sel == 0 else 'root' if sel == 1 else 'both'}:"
                    f"{'max=pool' if best == t['pool'] else 'max<pool' if best < t['pool'] else 'max>pool'}")
            ctx.count(f"pool:factor:shipped:{os.path.basename(pd['ini'])}:{t['tag']}:max={best}:bound={bound}:pool={t['pool']}")
    # generated factor files
    tmpdir = tempfile.mkdtemp(prefix="poolcorr_")
    try:
        for k in range(ctx.n(40, 300)):
            n_per = rng.choice([2, 2, 3, 3, 4])         # point masses (n_per = 1): the shipped coulomb_atoms files above
            n_roots = rng.choice([1, 2, 3, 4])
            lines, kinds = C10.gen_file(rng, n_per)
            path = os.path.join(tmpdir, f"g{k}.txt")
            with open(path, "w") as f:
                f.write(C10.factor_text(lines, False))
            try:
                ftm = set_up(n_roots, n_per, path)
            except Exception as e:  # noqa
                ctx.count("pool:factor:generated-file-rejected:" + type(e).__name__)
                continue
            types = sorted({ty for _, ty in lines})
            for ty in types + ["Absent"]:
                sel = rng.choice([0, 1, 2])
                bound = (n_roots - 1) if n_per == 1 else TP.factor_demand_max(lines, n_roots, n_per, ty, sel)[0]
                case0 = {"file": C10.factor_text(lines, False), "type": ty, "sel": sel, "n_roots": n_roots, "n_per": n_per}
                best = one(ftm, lines, n_roots, n_per, ty, sel, None, bound, case0, "")
                if best is not None and best != bound and n_per != 1:
                    ctx.disagree("pool.demandMax:factorTypeMap", case0, best, bound)
                ctx.cls(f"pool:factor:generated:nper{n_per}:{'fallback' if ty == 'Absent' else 'file'}:sel{sel}")
    finally:
        import shutil
        shutil.rmtree(tmpdir, ignore_errors=True)
        setting.reset()
        FactorTypeMaps._instance = None


# ------------------------------------------------------------------------------------------------------------------
# (b)

def check_trace(ctx, tr, w):
    """maximum demand per tagger on the recorded run `tr` of wiring `w` (translate.wiring_of_config); returns the number of legs"""
    meta = tr["meta"]
    ini = meta.get("ini", "")
    tags = [t["tag"] for t in w["taggers"]]
    pool = {t["tag"]: t["pool"] for t in w["taggers"]}
    case0 = {"ini": ini, "seed": meta.get("seed"), "job": tr.get("job")}
    peak = {tag: 0 for tag in tags}
    longest = {tag: 0 for tag in tags}
    for i, leg in enumerate(tr["legs"]):
        for tag in tags:
            running = leg.get("pending", {}).get(tag)
            if running is not None:
                peak[tag] = max(peak[tag], len(running))
            fr = leg.get("fresh", {}).get(tag)
            if isinstance(fr, list) and leg.get("activated", {}).get(tag):
                longest[tag] = max(longest[tag], len(fr))
    for tag in tags:
        d = max(peak[tag], longest[tag])
        ctx.count(f"pool:run:{os.path.basename(ini)}:{tag}:max-demand={d}:pool={pool[tag]}")
        ctx.count("pool:run:demand" + ("=pool" if d == pool[tag] else "<pool" if d < pool[tag] else ">pool"))
        if d > pool[tag]:
            ctx.fail(f"C09:pool-exhausted:{ini}:{tag}", {**case0, "tagger": tag, "pool": pool[tag], "demand": d},
                     f"tagger {tag} is asked for {d} event handlers at once but owns {pool[tag]}")
    end = str(tr.get("end", ""))
    if "TagActivatorError" in end:
        tag = next((t for t in tags if t.replace("_", "") in end.lower().replace("_", "")), "?")
        ctx.fail(f"C09:pool-exhausted:{ini}:{tag}", {**case0, "end": end[:500]}, "the run ended in TagActivatorError")
    return len(tr["legs"])
