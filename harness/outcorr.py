"""Correspondence + oracle for the observable OUTPUT HANDLERS (C01 "observables written by a run", C17 "what is written").

Model: `lean/JF/Model/Output.lean` (component `output`, executable `jf_output`), binary64 reading.
Implementation: the REAL classes `SeparationOutputHandler`, `BondLengthAndAngleOutputHandler`,
`OxygenOxygenSeparationOutputHandler`, `PolarizationOutputHandler` (with `HardBufferedTextWriter`, `base/vectors.py`,
`base/node.py`, `jellyfysh.setting`), writing to temporary files which are closed through `post_run` and read back.

    check(ctx)                          random extracted global states -> real handlers vs model (bit for bit on the parsed floats),
                                        several `write` calls per handler instance; Fraction oracle on the implementation's files
    check_run_outputs(ctx, tr, files)   the files a recorded run wrote vs the model observables of the recorded sampled states
    run_output_files(tr, root)          helper: derive `files` for a trace of `harness/runtrace.py` from its recorded configuration
    check_runs(ctx)                     self-contained: runs five shipped configurations (one per handler kind, + variants) with unique
                                        output file names and applies `check_run_outputs` to every completed run

Signatures emitted with `ctx.fail` (the implementation's files violate the statement, independent of the model):
    output:sep:count-per-file, output:sep:squared-separations-differ, output:sep:exception-on-valid-state,
    output:bond:lengths-differ, output:bond:angle-differs, output:bond:count, output:bond:exception-on-valid-state,
    output:oo:separations-differ, output:oo:count, output:oo:exception-on-valid-state,
    output:pol:vector-differs, output:pol:count, output:pol:exception-on-valid-state, output:file:header-missing,
    output:file:missing-after-post_run, output:file:unparsable-line,
    output:run:<the same suffixes> for the files of recorded runs (`check_run_outputs`)
`ctx.disagree` names: output.<kind>.init / .write / .files, output.vec.<fn>, output.run.<kind>.
"""
import contextlib, io, math, os, shutil, tempfile
from fractions import Fraction as Fr
from harness.drive import f2b, b2f

COMPONENT = "output"
KIND_CLASS = {"sep": ("separation_output_handler", "SeparationOutputHandler"),
              "bond": ("bond_length_and_angle_output_handler", "BondLengthAndAngleOutputHandler"),
              "oo": ("oxygen_oxygen_separation_output_handler", "OxygenOxygenSeparationOutputHandler"),
              "pol": ("polarization_output_handler", "PolarizationOutputHandler")}
CLASS_KIND = {v[1]: k for k, v in KIND_CLASS.items()}
ERR = {"AssertionError": "err:AssertionError", "IndexError": "err:IndexError", "ZeroDivisionError": "err:ZeroDivisionError",
       "ValueError": "err:ValueError", "TypeError": "err:TypeError", "ConfigurationError": "err:ConfigurationError"}
CHARGE = "charge"
INF = math.inf


def nxt(x, k=1):
    return x if k == 0 else math.nextafter(x, INF if k > 0 else -INF, steps=abs(k))


def hx(x):
    return None if x is None else float(x).hex()


# ------------------------------------------------------------------------------------------------- states (plain data)
# a state is a list of roots; root = {"id": int, "pos": [..], "q": float|None, "ch": [leaf…]}; leaf = {"id", "pos", "q"}

def node_tokens(n):
    return [str(n["id"]), "N" if n["q"] is None else f2b(n["q"]), str(len(n["pos"]))] + [f2b(x) for x in n["pos"]]


def state_line(state):
    t = [str(len(state))]
    for r in state:
        t += node_tokens(r) + [str(len(r["ch"]))]
        for c in r["ch"]:
            t += node_tokens(c)
    return " ".join(t)


def setting_tokens(kind_box, dim, Ls, levels, per_root):
    if kind_box == "cubic":
        return f"cubic {dim} {f2b(Ls[0])} {levels} {per_root}"
    return f"cuboid {dim} {len(Ls)} " + " ".join(f2b(l) for l in Ls) + f" {levels} {per_root}"


def state_json(state):
    return [{"id": r["id"], "pos": [hx(x) for x in r["pos"]], "q": hx(r["q"]),
             "ch": [{"id": c["id"], "pos": [hx(x) for x in c["pos"]], "q": hx(c["q"])} for c in r["ch"]]} for r in state]


def leaves(r):
    return r["ch"] if r["ch"] else [r]


MUTATIONS = []      # (kind, call index, what) - a `write` that changed the state handed to it (filled by run_impl_session)


def _node_values(nodes):
    return [[(tuple(n.value.identifier), list(n.value.position), None if n.value.velocity is None else list(n.value.velocity),
              None if n.value.charge is None else dict(n.value.charge)) for n in [r] + list(r.children)] for r in nodes]


def build_nodes(state):
    """the real `Node`/`Unit` trees for a plain state"""
    from jellyfysh.base.node import Node
    from jellyfysh.base.unit import Unit
    out = []
    for r in state:
        rn = Node(Unit(identifier=(r["id"],), position=list(r["pos"]), charge=None if r["q"] is None else {CHARGE: r["q"]}))
        for c in r["ch"]:
            rn.add_child(Node(Unit(identifier=(r["id"], c["id"]), position=list(c["pos"]),
                                   charge=None if c["q"] is None else {CHARGE: c["q"]})))
        out.append(rn)
    return out


# ---------------------------------------------------------------------------------------------------------- files
def parse_file(path):
    """file -> list of tokens 'H' | 'C' | 'b1,b2,…' (floats parsed from their printed repr, re-encoded as bit patterns)"""
    out = []
    with open(path) as f:
        for line in f.read().split("\n"):
            if line == "":
                continue
            if line.startswith("# Run identification hash:"):
                out.append("H")
            elif line == "# Polarization Vector":
                out.append("C")
            else:
                try:
                    out.append(",".join(f2b(float(x)) for x in line.split("\t")))
                except ValueError:
                    out.append("X" + line[:80].replace(";", ":").replace("|", ":"))      # not a line of floats
    return out


def unparsable(files):
    return [t for f in files if f is not None for t in f if t.startswith("X")]


def file_values(tokens):
    return [[b2f(b) for b in t.split(",")] for t in tokens if t not in ("H", "C") and not t.startswith("X")]


def expected_paths(kind, filename, per_root):
    base, ext = filename.rsplit(".", 1)
    if kind == "sep":
        if per_root > 1:
            return [f"{base}_1{k + per_root + 1}.{ext}" for k in range(per_root)]
        return [filename]
    if kind == "bond":
        return [f"{base}_Length.{ext}", f"{base}_Angle.{ext}"]
    return [filename]


# ------------------------------------------------------------------------------------------------------ exact oracle
def nearest_sq(a, b, Ls):
    """exact squared nearest-image separation of two positions (Fractions); also the components"""
    comps = []
    for x, y, L in zip(a, b, Ls):
        d = Fr(y) - Fr(x)
        FL = Fr(L)
        r = d - FL * math.floor(d / FL + Fr(1, 2))          # in [-L/2, L/2)
        comps.append(r)
    return sum(c * c for c in comps), comps


def sq_tol(exact_sq, Ls, dim):
    """tolerance on a squared separation: 1e-12 relative plus the absolute error of the float wrapping (a few ulp(L) per component)"""
    Lm = max(Ls)
    d = 2e-15 * Lm
    return 1e-12 * float(exact_sq) + 2 * math.sqrt(dim * float(exact_sq)) * d + dim * d * d


def well_formed(state, dim, Ls, levels, per_root, kind=None):
    for r in state:
        if kind == "pol" and (any(c["q"] is None for c in r["ch"]) or sum(Fr(c["q"]) for c in r["ch"]) != 0):
            return False                   # the handler asserts exact charge neutrality of every composite object
        if levels == 1 and r["ch"]:
            return False
        if levels == 2 and len(r["ch"]) != per_root:
            return False
        for n in [r] + r["ch"]:
            if len(n["pos"]) != dim or not all(0.0 <= x < L for x, L in zip(n["pos"], Ls)):
                return False
        if [c["id"] for c in r["ch"]] != list(range(len(r["ch"]))):
            return False
    return True


def exact_separations(state, Ls, levels):
    """per file index the list of exact squared nearest-image separations over inter-object leaf pairs"""
    out = {}
    for i in range(len(state)):
        for j in range(i + 1, len(state)):
            for a in leaves(state[i]):
                for b in leaves(state[j]):
                    k = abs(a["id"] - b["id"]) if levels > 1 else 0
                    out.setdefault(k, []).append(nearest_sq(a["pos"], b["pos"], Ls)[0])
    return out


class Oracle:
    """property oracle on the implementation's files (Fraction arithmetic, independent of the Lean model)"""

    def __init__(self, ctx, prefix="output"):
        self.ctx, self.prefix = ctx, prefix

    def fail(self, sig, case, what):
        self.ctx.fail(f"{self.prefix}:{sig}", case, what)

    def separations(self, case, files_vals, states, dim, Ls, levels, per_root):
        """files_vals[k] = written values of file k (all calls); states = the states of the calls that completed"""
        pos = [0] * len(files_vals)
        total = {}
        for st in states:
            for k, v in exact_separations(st, Ls, levels).items():
                total[k] = total.get(k, 0) + len(v)
        for k in range(max(len(files_vals), max(total, default=-1) + 1)):
            have = len(files_vals[k]) if k < len(files_vals) else None
            if have != total.get(k, 0):
                self.fail("sep:count-per-file", dict(case, file=k),
                          f"file {k} holds {have} values, the states have {total.get(k, 0)} inter-object leaf pairs at identifier distance {k}")
                return
        for si, st in enumerate(states):
            ex = exact_separations(st, Ls, levels)
            for k in range(len(files_vals)):
                want = sorted(ex.get(k, []))
                got = files_vals[k][pos[k]:pos[k] + len(want)]
                pos[k] += len(want)
                if len(got) != len(want):
                    self.fail("sep:count-per-file", dict(case, call=si, file=k), f"file {k}: {len(got)} values for {len(want)} pairs")
                    return
                gs = sorted(Fr(x) ** 2 for x in got)
                for g, w in zip(gs, want):
                    if abs(float(g - w)) > sq_tol(w, Ls, dim):
                        self.fail("sep:squared-separations-differ", dict(case, call=si, file=k),
                                  f"written squared separation {float(g)!r} vs exact nearest-image {float(w)!r} (sorted multisets)")
                        return
            for k in ex:
                if k >= len(files_vals):
                    self.fail("sep:count-per-file", dict(case, call=si, file=k), "identifier distance without a file")
                    return
        for k, v in enumerate(files_vals):
            if pos[k] != len(v):
                self.fail("sep:count-per-file", dict(case, file=k), f"file {k}: {len(v) - pos[k]} surplus values")
                return

    def oxygen(self, case, vals, states, dim, Ls):
        want = []
        for st in states:
            ox = [r["ch"][1]["pos"] for r in st]
            want += [nearest_sq(ox[i], ox[j], Ls)[0] for i in range(len(ox)) for j in range(i + 1, len(ox))]
        if len(vals) != len(want):
            self.fail("oo:count", case, f"{len(vals)} values for {len(want)} oxygen pairs"); return
        for n, (g, w) in enumerate(zip(vals, want)):
            if abs(float(Fr(g) ** 2 - w)) > sq_tol(w, Ls, dim):
                self.fail("oo:separations-differ", dict(case, index=n), f"written {g!r}, exact squared separation {float(w)!r}"); return

    def bonds(self, case, lens, angs, states, dim, Ls):
        wl, wa = [], []
        for st in states:
            for r in st:
                h1, o, h2 = (c["pos"] for c in r["ch"])
                s1, v1 = nearest_sq(o, h1, Ls)
                s2, v2 = nearest_sq(o, h2, Ls)
                wl += [s1, s2]
                tie = any(abs(abs(v[j]) - Fr(Ls[j]) / 2) < Fr(Ls[j]) / 10 ** 9 for v in (v1, v2) for j in range(dim))
                wa.append((sum(x * y for x, y in zip(v1, v2)), s1, s2, tie))
        if len(lens) != len(wl) or len(angs) != len(wa):
            self.fail("bond:count", case, f"{len(lens)} lengths / {len(angs)} angles for {len(wa)} molecules"); return
        for n, (g, w) in enumerate(zip(lens, wl)):
            if abs(float(Fr(g) ** 2 - w)) > sq_tol(w, Ls, dim):
                self.fail("bond:lengths-differ", dict(case, index=n), f"written length {g!r}, exact squared bond length {float(w)!r}"); return
        for n, (g, (d, s1, s2, tie)) in enumerate(zip(angs, wa)):
            if tie:
                # a bond component at exactly half a box length: its sign ([-L/2, L/2) in exact arithmetic) is decided by rounding
                self.ctx.count("oracle:bond:half-box-tie-angle-skipped")
                continue
            c = float(d) / math.sqrt(float(s1) * float(s2))
            # tolerance: the wrapping error relative to the shorter bond, plus rounding
            rel = 1e-9 + 1e-14 * max(Ls) / math.sqrt(float(min(s1, s2)))
            if abs(math.cos(g) - c) > rel or not (0.0 <= g <= math.pi):
                self.fail("bond:angle-differs", dict(case, index=n), f"written angle {g!r} (cos {math.cos(g)!r}), exact cosine {c!r}"); return

    def polarization(self, case, rows, states, dim, Ls):
        if len(rows) != len(states):
            self.fail("pol:count", case, f"{len(rows)} lines for {len(states)} samples"); return
        for n, (row, st) in enumerate(zip(rows, states)):
            want = [Fr(0)] * dim
            scale = Fr(0)
            tie = False
            for r in st:
                for c in r["ch"]:
                    _, v = nearest_sq(r["pos"], c["pos"], Ls)
                    for j in range(dim):
                        if abs(abs(v[j]) - Fr(Ls[j]) / 2) < Fr(Ls[j]) / 10 ** 9:
                            tie = True
                        want[j] += Fr(c["q"]) * (Fr(r["pos"][j]) + v[j])
                    scale += abs(Fr(c["q"]))
            if tie:
                self.ctx.count("oracle:pol:half-box-tie-skipped")
                continue
            if len(row) != dim or any(abs(float(Fr(g) - w)) > 1e-12 * max(Ls) * float(scale) + 1e-300 for g, w in zip(row, want)):
                self.fail("pol:vector-differs", dict(case, sample=n), f"written {row!r}, exact {[float(w) for w in want]!r}"); return


# ------------------------------------------------------------------------------------------------------- generators
FIXED_L = [1.0, 2.0, 0.5, 10.0, 3.0, 0.1, 1 / 3, math.pi, 7.0, 1.5, 12.5, 0.7, 5.0, 1e-3, 1e3]


def gen_L(rng):
    c = rng.random()
    if c < 0.45:
        return rng.choice(FIXED_L)
    if c < 0.6:
        return 2.0 ** rng.randint(-8, 8)
    return (1 + rng.random()) * 2.0 ** rng.randint(-6, 6)


def wrap_in(x, L):
    y = x % L
    if not (0.0 <= y < L):
        y = 0.0
    return y


def gen_coord(rng, L, ref=None):
    """a coordinate in [0, L): interior, box edges, or placed relative to `ref` (exact half box, tiny, equal)"""
    c = rng.random()
    if ref is not None and c < 0.35:
        k = rng.random()
        if k < 0.35:
            return "half", wrap_in(ref + rng.choice([-1, 1]) * L / 2, L)
        if k < 0.5:
            return "half-ulp", wrap_in(nxt(ref + rng.choice([-1, 1]) * L / 2, rng.choice([-2, -1, 1, 2])), L)
        if k < 0.7:
            return "tiny", wrap_in(ref + rng.choice([-1, 1]) * L * 2.0 ** -rng.randint(20, 60), L)
        if k < 0.78:
            return "equal", ref
        return "bond", wrap_in(ref + rng.uniform(-0.2, 0.2) * L, L)
    if c < 0.45:
        return "edge", rng.choice([0.0, nxt(L, -1), nxt(L, -2), 5e-324, L / 2, nxt(L / 2, 1), nxt(L / 2, -1)])
    return "in", rng.random() * L


def gen_pos(rng, dim, Ls, ref=None):
    cls, out = [], []
    for j in range(dim):
        c, x = gen_coord(rng, Ls[j], None if ref is None else ref[j])
        cls.append(c); out.append(x)
    return cls, out


NEUTRAL = {2: [[1.0, -1.0], [0.5, -0.5], [0.1, -0.1], [-2.5, 2.5]],
           3: [[0.41, -0.82, 0.41], [0.1, 0.2, -0.3], [0.5, -1.0, 0.5], [1.0, -2.0, 1.0], [0.1, -0.2, 0.1], [0.3, -0.6, 0.3]],
           4: [[1.0, -1.0, 1.0, -1.0], [0.1, 0.2, 0.3, -0.6], [0.25, 0.25, -0.25, -0.25], [0.1, 0.7, -0.2, -0.6]]}


def gen_state(ctx, rng, dim, Ls, levels, per_root, n_roots, kind, malformed):
    """a plain state; `malformed` in {None, 'children', 'short', 'charge', 'ident', 'not-neutral'}"""
    state = []
    bad_root = rng.randrange(n_roots) if malformed else -1
    for i in range(n_roots):
        cls, rp = gen_pos(rng, dim, Ls)
        root = {"id": i, "pos": rp, "q": None, "ch": []}
        if levels == 2:
            n = per_root
            if i == bad_root and malformed == "children":
                n = rng.choice([k for k in (0, 1, 2, 3, 4, 5) if k != per_root])
            qs = rng.choice(NEUTRAL.get(n, [[rng.choice([1.0, -1.0, 0.5]) for _ in range(n)]]))
            if i == bad_root and malformed == "not-neutral" and n:
                qs = list(qs); qs[0] = qs[0] + rng.choice([1.0, 1e-17, 0.1])
            prev = rp
            for j in range(n):
                ccls, cp = gen_pos(rng, dim, Ls, ref=prev if rng.random() < 0.7 else rp)
                for c in ccls:
                    ctx.count("coord:" + c)
                prev = cp
                root["ch"].append({"id": j, "pos": cp, "q": qs[j] if j < len(qs) else 0.0})
            if i == bad_root and malformed == "charge" and root["ch"]:
                rng.choice(root["ch"])["q"] = None
            if i == bad_root and malformed == "ident" and root["ch"]:
                root["ch"][-1]["id"] = per_root + rng.randint(0, 2)
            if kind != "pol":
                pass
        else:
            root["q"] = rng.choice([1.0, -1.0]) if rng.random() < 0.5 else None
            for c in cls:
                ctx.count("coord:" + c)
        if i == bad_root and malformed == "short":
            tgt = rng.choice([root] + root["ch"])
            tgt["pos"] = tgt["pos"][:-1] if rng.random() < 0.7 else tgt["pos"] + [0.25 * Ls[0]]
        state.append(root)
    # place some whole roots relative to earlier ones (exact half-box / tiny inter-object separations)
    if n_roots > 1 and rng.random() < 0.5 and not malformed:
        i, j = rng.sample(range(n_roots), 2)
        a = rng.choice(leaves(state[i])); b = rng.choice(leaves(state[j]))
        cls, b["pos"] = gen_pos(rng, dim, Ls, ref=a["pos"])
        for c in cls:
            ctx.count("coord:" + c)
    return state


# ------------------------------------------------------------------------------------------------ implementation
class Impl:
    def __init__(self):
        import jellyfysh.setting as setting
        from jellyfysh.setting import hypercubic_setting, hypercuboid_setting
        from jellyfysh.base.exceptions import ConfigurationError
        import importlib
        self.setting, self.hc, self.hq, self.ConfigurationError = setting, hypercubic_setting, hypercuboid_setting, ConfigurationError
        self.cls = {}
        for k, (mod, cn) in KIND_CLASS.items():
            m = importlib.import_module("jellyfysh.input_output_handler.output_handler." + mod)
            self.cls[k] = getattr(m, cn)

    def init_setting(self, box, dim, Ls, levels, per_root, n_roots):
        self.setting.reset()
        if box == "cubic":
            self.hc.HypercubicSetting(beta=1.0, dimension=dim, system_length=Ls[0])
        else:
            self.hq.HypercuboidSetting(beta=1.0, dimension=dim, system_lengths=list(Ls))
        self.setting.set_number_of_root_nodes(n_roots)
        self.setting.set_number_of_nodes_per_root_node(per_root)
        self.setting.set_number_of_node_levels(levels)

    def make(self, kind, filename):
        if kind == "pol":
            return self.cls[kind](filename, CHARGE)
        return self.cls[kind](filename)


def exc_token(e):
    return ERR.get(type(e).__name__, "exc:" + type(e).__name__)


def run_impl_session(impl, kind, tmp, per_root, states):
    """construct the real handler, call `write` for every state, `post_run`, read the files back.
    returns (init reply, [write replies (msg, err)], files tokens or None, paths)"""
    filename = os.path.join(tmp, "obs.dat")
    try:
        with contextlib.redirect_stdout(io.StringIO()):
            h = impl.make(kind, filename)
    except impl.ConfigurationError:
        return "err:ConfigurationError", [], None, []
    writes = []
    for st in states:
        nodes = build_nodes(st)
        buf = io.StringIO()
        err = "ok"
        before = _node_values(nodes)
        with contextlib.redirect_stdout(buf):
            try:
                r = h.write(nodes)
                if r is not None:
                    err = "returned:" + repr(r)
            except Exception as e:  # noqa
                err = exc_token(e)
        # the extracted global state hands out the STORED position / charge objects (C13): an output handler that changes what it is
        # handed changes the global state at a sampling event, which is not a commit
        after = _node_values(nodes)
        if after != before:
            bad = next((b, a) for rb, ra in zip(before, after) for b, a in zip(rb, ra) if b != a)
            MUTATIONS.append((kind, len(writes), f"unit {bad[0][0]}: {bad[0][1:]} -> {bad[1][1:]}"))
        out = buf.getvalue()
        msg = "1" if "Calculated" in out else "0"
        if msg == "1" and out.strip() != f"{type(h).__name__}: Calculated {h._counter} samples.":
            msg = "msg:" + out.strip()
        writes.append((msg, err))
    h.post_run()
    paths = expected_paths(kind, filename, per_root)
    present = sorted(os.listdir(tmp))
    files = []
    for p in paths:
        files.append(parse_file(p) if os.path.exists(p) else None)
    extra = [f for f in present if os.path.join(tmp, f) not in paths]
    return "ok", writes, files, extra


def files_reply(files):
    return "|".join(";".join(f) if f is not None else "MISSING" for f in files)


# ------------------------------------------------------------------------------------------------------ vectors
def gen_vec(rng, n):
    c = rng.random()
    if c < 0.5:
        return [rng.uniform(-1, 1) * 2.0 ** rng.randint(-3, 3) for _ in range(n)]
    if c < 0.6:
        return [rng.choice([0.0, -0.0, 1.0, -1.0, 0.5]) for _ in range(n)]
    if c < 0.7:
        return [rng.uniform(-1, 1) * 2.0 ** rng.randint(-540, -500) for _ in range(n)]          # squares underflow
    if c < 0.8:
        return [rng.uniform(-1, 1) * 2.0 ** rng.randint(500, 520) for _ in range(n)]            # squares overflow
    if c < 0.9:
        return [rng.uniform(-1, 1) * 10.0 ** rng.randint(-8, 8) for _ in range(n)]             # cancellation in `sum`
    return [float(rng.randint(-5, 5)) / rng.choice([1, 3, 7, 10]) for _ in range(n)]


def check_vectors(ctx):
    """`base/vectors.py`: norm, norm_sq, dot, angle_between_two_vectors vs the model, bit for bit"""
    from jellyfysh.base import vectors
    rng = ctx.rng
    lines, want, meta = [], [], []
    for _ in range(ctx.n(1500, 20000)):
        n = rng.choice([1, 2, 2, 3, 3, 3, 4])
        v = gen_vec(rng, n)
        c = rng.random()
        if c < 0.25:
            w = [x * rng.choice([1.0, 2.0, -1.0, -0.5, 3.0]) for x in v]                         # (anti)parallel: |cos| rounds around 1
        elif c < 0.3:
            w = gen_vec(rng, rng.choice([n, n + 1, max(1, n - 1)]))                             # length mismatch -> assert
        else:
            w = gen_vec(rng, n)
        vs = f"{len(v)} " + " ".join(f2b(x) for x in v)
        ws = f"{len(w)} " + " ".join(f2b(x) for x in w)
        for fn, f, line in (("norm", lambda: vectors.norm(v), f"vec norm {vs}"),
                            ("normsq", lambda: vectors.norm_sq(v), f"vec normsq {vs}"),
                            ("dot", lambda: vectors.dot(v, w), f"vec dot {vs} {ws}"),
                            ("angle", lambda: vectors.angle_between_two_vectors(v, w), f"vec angle {vs} {ws}")):
            try:
                r = f2b(f())
                if fn == "angle":
                    ctx.cls(("vec", "angle", "ok"))
            except Exception as e:  # noqa
                r = exc_token(e)
                ctx.cls(("vec", fn, r))
            lines.append(line); want.append(r); meta.append(fn)
    rep = ctx.model(COMPONENT, lines)
    for line, w, r, fn in zip(lines, want, rep, meta):
        if w != r:
            # nan payloads are not part of any statement
            if w.isdigit() and r.isdigit() and math.isnan(b2f(w)) and math.isnan(b2f(r)):
                continue
            ctx.disagree(f"output.vec.{fn}", {"line": line}, w, r)
    ctx.count("vec-ops", len(lines))
    ctx.evaluations += len(lines)


# ------------------------------------------------------------------------------------------------------------ check
def gen_config(rng):
    dim = rng.choice([1, 2, 2, 3, 3, 3])
    c = rng.random()
    if c < 0.45:
        box, Ls = "cubic", [gen_L(rng)] * dim
    elif c < 0.6:
        box, Ls = "cuboid", [gen_L(rng)] * dim
    else:
        box, Ls = "cuboid", [gen_L(rng) for _ in range(dim)]
    levels = rng.choice([1, 2, 2, 2])
    per_root = 1 if levels == 1 else rng.choice([2, 3, 3, 3, 4])
    if rng.random() < 0.04:
        per_root = rng.choice([1, 2, 3])                     # inconsistent pairs (levels 1 with several nodes, levels 2 with one)
    n_roots = rng.choice([1, 2, 2, 3, 3, 4, 5])
    return box, dim, Ls, levels, per_root, n_roots


def pick_kind(rng, levels, per_root):
    ok = ["sep"]
    if levels == 2 and per_root == 3:
        ok += ["bond", "bond", "oo"]
    if levels == 2 and per_root != 1:
        ok += ["pol"]
    if rng.random() < 0.07:
        return rng.choice(["sep", "bond", "oo", "pol"])      # incl. ConfigurationError outcomes
    return rng.choice(ok)


def check(ctx, sessions=None):
    """correspondence model <-> real handler classes, and the Fraction oracle on the files the real classes write"""
    rng = ctx.rng
    impl = Impl()
    orc = Oracle(ctx)
    check_vectors(ctx)
    n_sessions = sessions if sessions is not None else ctx.n(600, 5000)
    tmp_root = tempfile.mkdtemp(prefix="outcorr_")
    lines, expect = [], []          # model requests, (name, case, implementation reply)
    try:
        for s in range(n_sessions):
            box, dim, Ls, levels, per_root, n_roots = gen_config(rng)
            kind = pick_kind(rng, levels, per_root)
            long_session = rng.random() < 0.02
            n_calls = rng.randint(100, 205) if long_session else rng.choice([1, 2, 2, 3, 3, 4, 6])
            states, malformed_at = [], None
            for c in range(n_calls):
                mal = None
                if rng.random() < (0.01 if long_session else 0.1):
                    mal = rng.choice(["children", "short", "charge" if kind == "pol" else "children", "ident",
                                      "not-neutral" if kind == "pol" else "short"])
                nr = n_roots if rng.random() < 0.8 else rng.choice([0, 1, 2, 3, 4])     # a variable number of root nodes is allowed
                if long_session:
                    nr = min(nr, 2)
                states.append(gen_state(ctx, rng, dim, Ls, levels, per_root, nr, kind, mal) if nr else [])
                if mal and malformed_at is None:
                    malformed_at = c
            case = {"kind": kind, "box": box, "dimension": dim, "lengths": [hx(l) for l in Ls], "levels": levels,
                    "per_root": per_root, "session": s}
            tmp = os.path.join(tmp_root, f"s{s}")
            os.mkdir(tmp)
            try:
                impl.init_setting(box, dim, Ls, levels, per_root, max(n_roots, 1))
                init, writes, files, extra = run_impl_session(impl, kind, tmp, per_root, states)
            finally:
                impl.setting.reset()
            ctx.count("kind:" + kind); ctx.count("box:" + box); ctx.count(f"dim:{dim}")
            while MUTATIONS:
                k_, call_, what_ = MUTATIONS.pop(0)
                ctx.fail("output:write-changes-the-state-it-is-handed:" + k_, dict(case, call=call_, state=state_json(states[call_]) if call_ < len(states) else None),
                         "an output handler's write() modified the extracted global state (the stored field objects): " + what_)
            # ---- model side requests
            lines.append(f"init {kind} " + setting_tokens(box, dim, Ls, levels, per_root))
            if init != "ok":
                expect.append((f"output.{kind}.init", case, init)); ctx.cls((kind, init))
                shutil.rmtree(tmp, ignore_errors=True)
                continue
            expect.append((f"output.{kind}.init", case, None))
            for c, (st, (msg, err)) in enumerate(zip(states, writes)):
                lines.append("write " + state_line(st))
                expect.append((f"output.{kind}.write", dict(case, call=c, state=state_json(st)) if len(states) < 10 else dict(case, call=c),
                               (msg, err)))
                ctx.cls((kind, err, dim, box, levels)); ctx.count("write:" + err)
                if msg != "0":
                    ctx.count("counter-message")
            lines.append("post_run")
            expect.append((f"output.{kind}.files", case, files_reply(files)))
            if extra:
                ctx.disagree(f"output.{kind}.files", case, "unexpected files " + repr(extra), "files " + repr(expected_paths(kind, "obs.dat", per_root)))
            ctx.evaluations += len(states)
            # ---- oracle on the implementation's files
            if any(f is None for f in files):
                ctx.fail("output:file:missing-after-post_run", case, "a file of the handler does not exist after post_run()")
            elif any(not f or f[0] != "H" for f in files):
                ctx.fail("output:file:header-missing", case, "a file does not start with the run identification hash")
            elif unparsable(files):
                ctx.fail("output:file:unparsable-line", dict(case, line=unparsable(files)[0]), "a written line is not a line of floats")
            else:
                judge(ctx, orc, kind, case, files, states, writes, dim, Ls, levels, per_root)
            shutil.rmtree(tmp, ignore_errors=True)
            if len(lines) > 4000:
                flush(ctx, lines, expect)
        flush(ctx, lines, expect)
    finally:
        shutil.rmtree(tmp_root, ignore_errors=True)


def judge(ctx, orc, kind, case, files, states, writes, dim, Ls, levels, per_root):
    """oracle on one finished session: only calls on well-formed states are in the statement's quantifier"""
    valid = [well_formed(st, dim, Ls, levels, per_root, kind) for st in states]
    consistent = (levels == 1 and per_root == 1) or (levels == 2 and per_root > 1)
    if not consistent:
        return
    done = []
    for c, (st, ok, (msg, err)) in enumerate(zip(states, valid, writes)):
        if err != "ok":
            degenerate = kind == "bond" and err in ("err:ZeroDivisionError", "err:ValueError")
            if ok and not degenerate:
                orc.fail(f"{kind}:exception-on-valid-state", dict(case, call=c, state=state_json(st)), f"write raised {err}")
            if ok and degenerate:
                ctx.count("bond:degenerate-or-collinear:" + err)
            # lines printed before the exception stay in the files: the chunk structure is lost -> no oracle on this session
            return
        if not ok:
            return                              # a malformed state that happened not to raise: outside the quantifier
        done.append(st)
    vals = [[v for row in file_values(f) for v in row] for f in files]
    c2 = dict(case, states=[state_json(st) for st in done] if len(done) < 6 else len(done))
    if kind == "sep":
        orc.separations(c2, vals, done, dim, Ls, levels, per_root)
    elif kind == "oo":
        orc.oxygen(c2, vals[0], done, dim, Ls)
    elif kind == "bond":
        orc.bonds(c2, vals[0], vals[1], done, dim, Ls)
    else:
        if files[0][:2] != ["H", "C"]:
            orc.fail("pol:count", c2, "the polarization file does not start with its two header lines")
        orc.polarization(c2, file_values(files[0]), done, dim, Ls)
    ctx.count("oracle-sessions:" + kind)


def flush(ctx, lines, expect):
    if not lines:
        return
    rep = ctx.model(COMPONENT, lines)
    for line, (name, case, want), r in zip(lines, expect, rep):
        if name.endswith(".init"):
            if want is None:
                if not r.startswith("ok "):
                    ctx.disagree(name, case, "constructed", r)
            elif r != want:
                ctx.disagree(name, case, want, r)
        elif name.endswith(".write"):
            parts = r.split(" ")
            got = (parts[0], parts[1]) if len(parts) >= 2 else (r,)
            if got != want:
                ctx.disagree(name, dict(case, line=line if len(line) < 3000 else line[:3000]), list(want), list(got))
        else:
            if r != want:
                ctx.disagree(name, case, first_difference(want, r), "(model side of the same position)")
            ctx.sample({"request": "post_run", "impl": want[:300], "model": r[:300]})
    del lines[:], expect[:]


def first_difference(a, b):
    fa, fb = a.split("|"), b.split("|")
    if len(fa) != len(fb):
        return f"{len(fa)} files vs {len(fb)} files"
    for k, (x, y) in enumerate(zip(fa, fb)):
        la, lb = x.split(";"), y.split(";")
        for n, (p, q) in enumerate(zip(la, lb)):
            if p != q:
                sh = lambda t: t if t in ("H", "C", "MISSING", "") or t.startswith("X") else [b2f(z).hex() for z in t.split(",")]
                return f"file {k} line {n}: implementation {sh(p)} model {sh(q)}"
        if len(la) != len(lb):
            return f"file {k}: implementation {len(la)} lines, model {len(lb)} lines"
    return "equal"


# ------------------------------------------------------------------------------------------------- recorded runs
def states_of_trace(tr, handler):
    """the sampled states `runtrace` recorded for the writes to output handler `handler`, as plain states (roots in the order of
    the extracted global state: `flat_units` inserts a root before its children, dicts keep insertion order)"""
    meta = tr["meta"]
    out = []
    for w in tr["writes"]:
        if w.get("handler") != handler or w.get("state") is None:
            continue
        roots, index = [], {}
        for ident, (pos, _vel, _ts, charge) in w["state"].items():
            node = {"id": int(ident[-1]), "pos": [float(x) for x in pos], "charge": charge}
            if len(ident) == 1:
                node["ch"] = []
                index[ident] = node
                roots.append(node)
            else:
                index[ident[:1]]["ch"].append(node)
        out.append(roots)
    return out


def _with_charge(states, name):
    for st in states:
        for r in st:
            for n in [r] + r["ch"]:
                ch = n.get("charge")
                n["q"] = None if ch is None or name is None or name not in ch else float(ch[name])
    return states


def run_output_files(tr, root):
    """`files` argument of `check_run_outputs` for a trace of `harness/runtrace.py` run in the tree `root`:
    {handler name as used in `ioh.write`: {"kind", "paths" (file-index order; the `.tmp` twin is used if the run never reached
    `post_run`), "charge"}}, derived from the recorded configuration (sections of the output handlers)."""
    cfg = tr["meta"].get("config") or {}
    per_root = tr["meta"]["n_per_root"]
    out = {}
    for sec, kv in cfg.items():
        m = sec.replace(" ", "")
        alias, real = (m.split("(")[0], m.split("(")[1].rstrip(")")) if "(" in m else (m, m)
        if real not in CLASS_KIND or "filename" not in kv:
            continue
        kind = CLASS_KIND[real]
        fn = kv["filename"]
        if not os.path.isabs(fn):
            fn = os.path.join(root, "jellyfysh", fn)
        paths = []
        for p in expected_paths(kind, fn, per_root):
            paths.append(p if os.path.exists(p) or not os.path.exists(p + ".tmp") else p + ".tmp")
        name = "".join("_" + ch.lower() if ch.isupper() else ch for ch in alias).lstrip("_")
        out[name] = {"kind": kind, "paths": paths, "charge": kv.get("charge")}
    return out


def check_run_outputs(ctx, tr, files=None, root=None):
    """the files a recorded run wrote contain exactly the model observables of the recorded sampled states, in order.

    tr     a trace of `harness/runtrace.py` (`tr["writes"][i]["state"]` = the state handed to the output handler)
    files  {handler name: {"kind": sep|bond|oo|pol, "paths": [file 0, file 1, …], "charge": name|None}}; default
           `run_output_files(tr, root or ctx.root)`.  Read the files before the next run of the same configuration overwrites them.
    A run that ended by the tracer's cap never called `post_run`: its `.tmp` files are complete up to the last write and are compared
    as they are.  Returns the number of compared sample chunks."""
    meta = tr["meta"]
    if files is None:
        files = run_output_files(tr, root or ctx.root)
    dim, Ls = meta["dimension"], [float(x) for x in meta["system_lengths"]]
    levels, per_root = meta["levels"], meta["n_per_root"]
    setting_name = ((meta.get("config") or {}).get("Run") or {}).get("setting", "hypercubic_setting")
    box = "cubic" if "hypercubic" in setting_name else "cuboid"
    total = 0
    for name, spec in files.items():
        kind = spec["kind"]
        states = _with_charge(states_of_trace(tr, name), spec.get("charge"))
        case = {"ini": meta.get("ini"), "seed": meta.get("seed"), "handler": name, "kind": kind, "samples": len(states)}
        got = []
        for p in spec["paths"]:
            got.append(parse_file(p) if os.path.exists(p) else None)
        if any(g is None for g in got):
            if states:
                ctx.fail(f"output:run:{kind}:file-missing", dict(case, paths=spec["paths"]), "the run wrote samples but a file does not exist")
            continue
        lines = [f"init {kind} " + setting_tokens(box, dim, Ls if box == "cuboid" else Ls[:1], levels, per_root)]
        lines += ["write " + state_line(st) for st in states] + ["post_run"]
        rep = ctx.model(COMPONENT, lines)
        want = rep[-1]
        have = files_reply(got)
        ctx.count(f"run-outputs:{kind}", len(states)); total += len(states)
        ctx.cls(("run-output", kind, levels, per_root, len(states) > 0))
        if not rep[0].startswith("ok ") or any(r.split(" ")[1:2] != ["ok"] for r in rep[1:-1]):
            ctx.disagree(f"output.run.{kind}", case, "the run constructed the handler and wrote every sample",
                         [r[:60] for r in rep if not r.startswith("ok ") and r.split(" ")[1:2] != ["ok"]][:3])
            continue
        # independent oracle on the run's files (Fraction arithmetic on the recorded states)
        orc = Oracle(ctx, prefix="output:run")
        if unparsable(got):
            ctx.fail("output:run:file:unparsable-line", dict(case, line=unparsable(got)[0], paths=spec["paths"]),
                     "a written line is not a line of floats")
        elif all(well_formed(st, dim, Ls, levels, per_root, kind) for st in states):
            vals = [[v for row in file_values(f) for v in row] for f in got]
            c2 = dict(case, paths=spec["paths"])
            if kind == "sep":
                orc.separations(c2, vals, states, dim, Ls, levels, per_root)
            elif kind == "oo":
                orc.oxygen(c2, vals[0], states, dim, Ls)
            elif kind == "bond":
                orc.bonds(c2, vals[0], vals[1], states, dim, Ls)
            else:
                orc.polarization(c2, file_values(got[0]), states, dim, Ls)
        else:
            ctx.count("run-outputs:state-not-well-formed")
        if want != have:
            ctx.disagree(f"output.run.{kind}", dict(case, paths=spec["paths"]), first_difference(have, want),
                         "(model observables of the recorded sampled states)")
    return total


# ------------------------------------------------------------------------------------------ self-contained run check
_CFG = "config_files/2018_JCP_149_064113/"
RUN_INIS = [_CFG + "dipoles/atom_factors.ini", _CFG + "water/single_molecule.ini", _CFG + "coulomb_atoms/power_bounded.ini",
            _CFG + "water/coulomb_power_bounded_lj_inverted.ini", "config_files/hard_disk_dipoles/single_hard_disk_dipole.ini"]
# end of run times (time units) that keep a run well below a second / a few seconds: (quick, thorough)
RUN_T_END = {"atom_factors.ini": (14.0, 60.0), "single_molecule.ini": (14.0, 80.0), "power_bounded.ini": (14.0, 80.0),
             "coulomb_power_bounded_lj_inverted.ini": (9.0, 30.0), "single_hard_disk_dipole.ini": (30.0, 200.0)}


def _section_class(sec):
    m = sec.replace(" ", "")
    return m.split("(")[1].rstrip(")") if "(" in m else m


def run_jobs_list(ctx):
    """job list for `harness.runs.run_jobs`: the five shipped configurations that use the four observable output handlers (both
    separation layouts), each job with its OWN output file name (pid + job index), a short end time, and varied sampling
    (interval, `first_event_time_zero`); plus many-particle variants (more inter-object pairs per sample)"""
    import configparser
    from harness import runcommon
    rng = ctx.rng
    pid = os.getpid()
    jobs = []

    def add(ini, variant, extra=None, pool=None):
        cp = configparser.ConfigParser()
        assert cp.read(os.path.join(ctx.root, "jellyfysh", ini)), ini
        k = len(jobs)
        short = ini.split("/")[-1]
        t_end = ctx.n(*RUN_T_END[short]) * rng.choice([0.5, 0.75, 1.0])
        ov = {"FinalTimeEndOfRunEventHandler": {"end_of_run_time": t_end}}
        for sec in cp.sections():
            if _section_class(sec) in CLASS_KIND and cp.has_option(sec, "filename"):
                d, b = os.path.split(cp.get(sec, "filename"))
                ov[sec] = {"filename": os.path.join(d, f"OC{pid}j{k}_{b}")}          # never shared between two jobs
            if cp.has_option(sec, "sampling_interval"):
                base = float(cp.get(sec, "sampling_interval"))
                zf0 = cp.get(sec, "first_event_time_zero", fallback="False").strip().lower() == "true"
                if variant == "shipped":
                    ov[sec] = {}
                elif variant == "toggled":
                    ov[sec] = {"first_event_time_zero": str(not zf0)}
                else:
                    ov[sec] = {"sampling_interval": rng.choice([0.1, 0.37, 1.0, round(base / 3, 5), 0.56789]),
                               "first_event_time_zero": rng.choice(["True", "False"])}
        for sec, kv in (extra or {}).items():
            ov.setdefault(sec, {}).update(kv)
        job = {"ini": ini, "seed": ctx.seed * 1000 + 900 + k, "max_legs": ctx.n(60000, 400000), "kind": "outcorr-" + variant,
               "overrides": {s_: v for s_, v in ov.items() if v}, "light": True}
        if pool:
            job["pool"] = pool
        jobs.append(job)

    for n, ini in enumerate(RUN_INIS):
        add(ini, "shipped" if n % 2 == 0 else "toggled")
        for _ in range(ctx.n(2, 6)):
            add(ini, "varied")
    # more particles: several inter-object pairs per sample (and, for the dipoles, both files get several lines per sample)
    for _ in range(ctx.n(1, 4)):
        k = rng.randint(3, 6)
        add(RUN_INIS[2], "varied", {"RandomInputHandler": {"number_of_root_nodes": k}, "Coulomb": {"number_event_handlers": k}})
        k = rng.randint(3, 4)
        add(RUN_INIS[0], "varied", {"RandomInputHandler": {"number_of_root_nodes": k}}, pool=k)
    return runcommon.fix_pools(jobs, ctx.root)


def check_runs(ctx):
    """real runs -> the files they wrote vs the model observables of the sampled states recorded by `harness/runtrace.py`
    (`check_run_outputs`), for every completed run of `run_jobs_list(ctx)`.  Returns the number of compared samples."""
    from harness import runs
    jobs = run_jobs_list(ctx)
    trs = runs.run_jobs(ctx.root, jobs)
    total = 0
    for job, tr in zip(jobs, trs):
        short = job["ini"].split("/")[-1]
        if tr.get("end") != "EndOfRun":
            # a run that did not reach `post_run` has unflushed `.tmp` files: nothing to compare (not a verdict)
            ctx.count("outcorr-run-skipped:" + str(tr.get("end"))[:40])
            ctx.notes.append(f"outcorr.check_runs: run of {short} ended with {str(tr.get('end'))[:80]}; not compared")
            continue
        files = run_output_files(tr, ctx.root)
        if not files:
            ctx.count("outcorr-run-without-observable-handler")
            continue
        n = check_run_outputs(ctx, tr, files)
        total += n
        ctx.traces += 1
        ctx.evaluations += n
        ctx.count("outcorr-runs"); ctx.count("outcorr-runs:" + job["kind"]); ctx.count("outcorr-run-samples", n)
        for name, spec in files.items():
            ctx.cls(("outcorr-run", short, spec["kind"]))
            ctx.cls(("outcorr-run", short, spec["kind"], job["kind"], tr["meta"]["n_roots"] > 2))
            for p in spec["paths"]:
                for q in (p, p + ".tmp"):
                    if os.path.exists(q):
                        os.unlink(q)
    ctx.count("outcorr-run-jobs", len(jobs))
    return total
