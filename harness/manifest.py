"""Writes /verif/MANIFEST.json from the table below (single source of truth for what is claimed)."""
import json, os
VERIF = os.path.dirname(os.path.dirname(os.path.abspath(__file__)))

CLAIMED = {
    "C14": dict(
        text="Lean 4 theorems over the exact (rational) reading of the hand-written model of base/time.py: addition is exact and "
             "normalised, all six comparisons and the C heap comparison coincide with the rational order, from_float and "
             "subtraction are exact, infinity is absorbing; the same model definitions, run in binary64, are compared bit for "
             "bit with the real Time class on every run, and a Fraction oracle evaluates each clause of the property on the "
             "implementation's outputs. Times are values: register sessions over real Time objects (in-place update, results of + and "
             "from_float, the module-level inf) run against the value model (frame theorems update_frame/put_frame), so state cached "
             "inside an object or shared between objects is a disagreement; rounding-abstract reading for every FloatModel with a proved "
             "binary64 instance (C14Float); the same reading extended by +-inf and NaN (C14FloatInf: t + inf = inf for every t, the six comparisons and the heap comparison agree with WithTop Q on proper times, finite clauses by one transfer lemma; inf + finite = Time(nan,nan) and inf - inf = nan as facts about model and class, outside the quantifier).",
        note="Theorems are about the model over Q (one rounding of r+d is what the float reading adds; the oracle measures it "
             "exactly with Fractions on the implementation). Trusted: Lean kernel, propext/Classical.choice/Quot.sound, the "
             "correspondence harness, Lean's native Float for + - * / floor, the model's exact integer fmod (self-checked "
             "against libm each run).",
        technique="Lean 4 proof over a hand-written model + bit-exact differential correspondence with the implementation",
        ref="§5 C14"),
    "C07": dict(
        text="Lean 4 theorems over the exact reading of the kinematic core (time-slice congruent to pos+vel*dt mod L and inside the box; "
             "point-mass chain machine: one moving unit, conserved speed, time stamps equal the event time, no position jump, "
             "non-decreasing commit times for every event list); the two shipped end-of-chain handlers keep the squared speed and fire at the "
             "last end-of-chain time plus the chain time (C07Eoc); for composite objects the one-chain clause (moving point masses are one "
             "leaf or all leaves of one object, one velocity, conserved squared speed) is proved on the two-level model (C12Chain). "
             "The same definitions in binary64 replay every recorded real run of "
             "the point-mass configurations bit for bit (whole global state after every commit) and every time-slice of every "
             "committed out-state of all 19 shipped + generated configurations; the property itself is evaluated by an oracle on "
             "the recorded states of those runs.",
        note="Composite objects: chain-level claim proved at the system level for composite objects without cells (JF/Props/SystemInv2.lean: c07_one_chain_closed2, "
             "c07_chain_clause_closed2, c07_speed_conserved2 along every run of the composed loop), otherwise checked by the run oracle and by C12's model. Run families include hard disks "
             "with cells and the sequential-direction end of chain (velocity components of both signs, cubic and non-cubic boxes), counters primed near 2^32, -vv runs and "
             "multi-process histories. Physics/random "
             "choices (lift target, new direction, accept) are oracle inputs of the model. Trusted: Lean kernel + standard axioms, "
             "runtrace observation harness, MDAnalysis stand-in for two configurations.",
        technique="Lean 4 proof over a hand-written state-machine model + bit-exact replay of recorded real runs + run-level oracle",
        ref="§5 C07, §4"),
    "C17": dict(
        text="Lean 4 theorems (exact reading): k-th sample time = k*interval (from 0 or one interval), normalised; comparison with the "
             "end time is the rational comparison; the sample-count loop returns exactly the ticks before the end and terminates; "
             "the sampled out-state carries the sample time on every moving unit. Binary64 reading of the same clock compared bit for "
             "bit with the real handlers (unit level, up to 50k ticks) and with sample times/counts of recorded real runs; oracle on "
             "recorded writes (time stamps equal sample time bit for bit, written state = committed state, count, end time, nothing "
             "committed after the end time), also on dump/resume histories: runs with a dumping tagger (the shipped [Dumping] wiring and "
             "harness-built ones) are dumped, every dump is resumed through resume.main(), and 'run up to the dump + resumed run' is "
             "judged as one history (sample k at k*interval across dumps, sample count, end at the end time).",
        note="System level (JF/Props/SystemInv.lean, concrete coulomb_atoms world): no_sample_skipped - while a sampling candidate is pending no "
             "event with a later time is committed and the sampling event is committed at exactly its candidate time, for every run (from the "
             "scheduler's minimality and sorted commit times in the composed loop). "
             "The float clause (one rounding per step, not growing with k beyond that) is measured by a Fraction oracle on the "
             "implementation and proved in the rounding-abstract reading of C14 where available. Ties between a sample time and the "
             "end time are not judged. JF/Props/C17System.lean ties the candidates of the composed loop to the clock model: under the decidable wiring condition clockWired (decide for all 19 shipped wirings) and ClockCands (the j-th candidate of the sampling handler is clock j, the end-of-run candidate is the end time; measured bit for bit on every recorded single-process run) the k-th committed sampling event is at exactly k*interval, nothing is committed beyond the end time, the sample count at the end is samplesBeforeEnd (or that plus one at a tie, both outcomes exhibited), for every run of Sys.Reach and Sys2.Reach2. What is WRITTEN is inside the model: JF/Model/Output.lean + JF/Props/Output.lean (the four observable output handlers, base/vectors.py, the buffered writer: every inter-object pair once, invariance under translations and lattice shifts, bounds) and JF/Props/OutputFloat.lean (polarization theorems; rounding-abstract error of the written separation, _partial: sum error a parameter, cubic box); harness/outcorr.py compares the files the real classes and real runs write with the model bit for bit and judges them by a Fraction oracle. Oracle added: the sampled state is the previous configuration advanced to the sample time (also on multi-process histories).",
        technique="Lean 4 proof over a hand-written model + bit-exact differential correspondence + run-level oracle",
        ref="§5 C17"),
    "C13": dict(
        text="Lean 4 theorems over a heap-of-cells model of TreeStateHandler/TreePhysicalState/TreeLiftingState (fresh allocation on copy, "
             "aliasing on insert): isolation invariant for every operation history, extract shape/freshness, non-interference of "
             "mutations through not-yet-inserted branches, insert read-back, unchanged global state between commits, independent-active "
             "rule. Correspondence: random extract/mutate/insert/extract-active sessions against the real classes with deep snapshots "
             "after every operation, plus real runs with the state handler wrapped (global state unchanged between commits).",
        note="JF.Props.C13Refine: ONE refinement theorem refines_functional - for every reachable session and every operation list obeying the discipline "
             "(no in-place mutation through a branch handed out by extract_global_state or already inserted; shown necessary by two concrete histories), "
             "abs (run s0 ops) = Spec.run (abs s0) ops with equal outcome traces, Spec a pure value map; isolation, insert_readback, between_commits, "
             "active_extraction are corollaries stated on the spec and transported. Python "
             "set iteration order is not modelled (two-level dictionary order compared as sets). Trusted: Lean kernel + standard axioms, harness. 30% of the sessions run with DEBUG logging enabled (the handler caches isEnabledFor(DEBUG) and takes other code paths). The output handlers receive the extracted GLOBAL state, which hands out the stored field objects: the output-handler sessions of harness/outcorr.py compare the handed state before and after every write (a write that modifies it changes the global state at a sampling event, without a commit).",
        technique="Lean 4 proof over a hand-written reference-store model + differential correspondence (operation sequences and real runs)",
        ref="§5 C13"),
    "C10": dict(
        text="Lean 4 theorems: on an integer torus the veto domain translated by the active cell is exactly the non-nearby cells (each once), "
             "nearby/non-nearby split all cells, and under the explicit occupancy invariant the three cell families partition all other "
             "relevant units (no duplicates); for factor files: the parser accepts exactly well-formed files and the yielded in-states "
             "are exactly the lines containing the active index instantiated once per other object (inter) or once (intra), each once; "
             "shipped files well-formed by decide. Correspondence: real taggers on real occupancy/cells, real FactorTypeMaps on shipped and "
             "generated files, bit-exact; Counter oracle on the implementation.",
        note="That the occupancy establishes the invariant C10 assumes is now a theorem: JF/Props/C10C11.lean derives C10.OccInv (and restates the "
             "partition theorems without any occupancy hypothesis) at every reachable state of C11's occupancy model; what remains is C11's "
             "history premise and InGrid (position_to_cell lands in the cell system, C16) - and both are DERIVED along every run of the composed coulomb_atoms system "
             "(JF/Props/C10Closed.lean: cell_partition_total_closed, yields_partition_every_leg, pending_partition_closed - every partner has exactly one pending "
             "coverage among the events in the scheduler - under SystemInv's hypotheses incl. TieFreeAll, and CellOfInGrid from a GridBox). The float detour inside translate/relative_cell is tied by "
             "correspondence to the integer torus. KeyError on a leaf mentioned by no line of an intra-object type is modelled as a loud "
             "error outcome (outside the property; no shipped file affected). JF/Props/SystemInv3Occ.lean: cell_partition_total_closed3 - the same partition for the root-level cell system of the composite wirings dipoles/cell_bounded.ini and cell_veto.ini along every run. The check drives the real cell-veto handler with every offset of its domain forced: the proposed cell must be the cell at that offset from the active cell the occupancy records.",
        technique="Lean 4 proof over hand-written models + bit-exact differential correspondence + Counter oracle",
        ref="§5 C10"),
    "C18": dict(
        text="Lean 4 theorems (exact reading, any n>=1, rates>=0, total>0): alias-table construction terminates, n rows, left-overs have "
             "exactly the mean rate, per-item mass conservation, pointwise sampling rule, selection probability = rate/total (also as a "
             "Lebesgue-measure statement), total = sum, zero-rate items never selected for draws > 0; handler: target = translate(active, "
             "offset), proposal rate = total*|charge factor|*speed, confirmation bound is the stored bound of that offset/direction/sign. "
             "Counterexample theorems (rational and binary64) for the draw-0.0 boundary. Correspondence bit-exact for table rows, sampling "
             "under controlled draws, real leaf/composite cell-veto handlers on real cells; oracle: exact selection probabilities of the "
             "implementation's own table.",
        note="binary64 table satisfies mass conservation only up to rounding (tied by correspondence + tolerance (n+10)*2^-50). System-level "
             "'veto cell is current' is covered by C09/C08 wiring clause, not here. Two known findings (draw exactly 0.0 selects a zero-rate "
             "cell; then the handler's assert trips).",
        technique="Lean 4 proof over a hand-written model + bit-exact differential correspondence + exact-probability oracle",
        ref="§5 C18"),
    "C15": dict(
        text="Lean 4 theorems: exact reading (Q): corrected position is the unique representative in [0,L) congruent mod L, idempotent; "
             "separation congruent, in [-L/2, L/2), minimal image; cubic and cuboid classes agree for equal lengths for EVERY scalar type "
             "(so also binary64); rounding-abstract reading (any monotone idempotent rounding): HALF-OPEN 0 <= y < L and idempotence of the "
             "position correction for all inputs, |sep| <= L/2; kernel-evaluated binary64 facts on the witnesses of the repaired finding "
             "(the modulo rounds to L, the corrected position is 0.0 and idempotent; nan passes through). Correspondence bit-exact against both real setting classes (entry and vector forms, "
             "error outcomes); Fraction oracle of every clause on the implementation.",
        note="Former finding F1 (correct_position_entry(x) == L for -ulp(L)/4 <= x < 0, Python float % rounds) is repaired in /repo "
             "(commit f8d52fc: `r if r != L else 0.0`); model, theorems and oracle follow the repaired code, the old witnesses are "
             "regression inputs (known_findings/C15.json: status fixed). Rounding-abstract reading is not tied to Lean Float by proof "
             "(bit-exact run does that).",
        technique="Lean 4 proof over a hand-written model + bit-exact differential correspondence + Fraction oracle",
        ref="§5 C15"),
    "C06": dict(
        text="Lean 4 theorems over a bounds-checked array model of heap.c and models of HeapScheduler/ListScheduler, for every "
             "protocol-respecting history of push/trash/get/pickle, any strict weak order on keys, any content of fresh memory, any counter "
             "range W>=1: no out-of-block access (fault flag), heap order invariant, get returns a current finite event of minimal time, "
             "trashed never returned, empty => error, heap and list scheduler agree on the returned time (same handler when the minimum is "
             "unique), pickle round trip reproduces the array, counter-overflow path keeps exactly the new entry. Correspondence: real "
             "HeapScheduler (freshly compiled heap.c) and ListScheduler, bit-exact per operation incl. growth, lazy deletion, counters "
             "poked to 2^32, pickling; reference-dictionary oracle; ASan/UBSan replay of every history through heap.c.",
        note="uint wrap of length/size excluded by length_le (histories shorter than 2^32-2); realloc failure and NaN times not modelled. "
             "Memory safety of the compiled C is proved for the model and supported by the sanitizer replay.",
        technique="Lean 4 proof (invariants + refinement) over a hand-written model + bit-exact differential correspondence + sanitizer replay",
        ref="§5 C06"),
    "C03": dict(
        text="Lean 4 theorems over R (Mathlib HasDerivAt): inverse power, Lennard-Jones, displaced even power and the 1/r bound return the "
             "directional derivative of their energy, linear in speed and charge product; exactly standard velocities are accepted; axis "
             "permutation reduces direction d to the x routine; bending derivatives are the derivatives of the angle energy and sum to zero; "
             "Ewald routine: trigonometric recurrence spec, oddness, Fourier periodicity, homogeneity in L, and (partial) derivative of the "
             "TRUNCATED Ewald energy for any erfc with the right derivative. Correspondence: binary64 model (own erfc) vs real classes and "
             "freshly compiled C at 1e-12/1e-10; oracle: Richardson finite differences of independently written energies, symmetry checks.",
        note="PARTIAL: 'derivative of the fully converged lattice sum, independent of alpha' is a truncation-error statement not provable "
             "here; probed numerically by the oracle only. libm rounding tied by tolerance, not bit-exact.",
        technique="Lean 4 proof (calculus over R) over a hand-written model + tolerance-based differential correspondence + finite-difference oracle",
        ref="§5 C03, §10"),
    "C19": dict(
        text="Lean 4 theorem resume_same: a deterministic client of the scheduler (the mediator with everything it owns) sees the same "
             "answers for ever from two observationally equal scheduler states, for every client and every pair of implementations; "
             "and pickle_obsEq / resume_same_heap (JF.Props.C19Heap): for every protocol-respecting history the unpickled heap-scheduler "
             "model (different allocated size, different garbage) is observationally equal to the original for ALL future operation "
             "lists, same winner among exactly simultaneous events included, so the reduction is closed for the model. "
             "Correspondence/oracle on real runs: dumping variants of "
             "shipped configurations (C potentials, cells, composite objects; heap and list scheduler) are dumped at every dumping event, "
             "each dump is resumed in a fresh interpreter through the repository's own resume.main(), and the continuation is compared "
             "bit for bit (handlers, candidate times, out-states, whole global state, trash lists, samples, final random state) with "
             "the uninterrupted run; the same run without the dumping tagger is compared with the run minus its dumping events. "
             "Scheduler level: real HeapScheduler/ListScheduler objects after random histories at large run times: every pending heap "
             "entry survives a pickle round trip bit for bit in its slot (code side of the premise of pickle_obsEq) and original and "
             "unpickled scheduler answer random futures with candidates within a few ulps of old ones identically.",
        note="dill's faithfulness on ordinary Python objects and the re-construction of the C potentials are exercised by the real runs, "
             "not modelled. At the level of the composed mediator loop (JF/Props/C19Loop.lean) the pickled-and-restored heap scheduler is "
             "proved invisible, ties and error outcomes included: resume_same_loop, resume_at_boundary, resume_repeated (any number of dumps "
             "at any leg boundaries) for every reachable state and every future oracle list; activator bookkeeping, handlers and the list "
             "scheduler are restored as identity (dill, trusted). System level (JF/Props/SystemInvResume.lean): a run of the composed coulomb_atoms system that is dumped and resumed any number of times (heap scheduler pickled and restored) is leg for leg the uninterrupted run (resumed_is_uninterrupted, no tie hypothesis) and satisfies the joint invariant and its corollaries (joint_inv_resumed, c09_fresh_closed_resumed, c11_occinv_closed_resumed, ... under E1's NoTies for the heap->spec direction).",
        technique="Lean 4 proof (observational-equivalence lemma) + differential replay of dumped/resumed real runs",
        ref="§5 C19"),
    "C05": dict(
        text="Lean 4 theorems over any linearly ordered field, for tables of any size/insertion order with zeros allowed: pointwise "
             "selection rule of the three schemes, selected unit strictly negative under exactly the draw hypotheses the proof forces, "
             "the set of selecting draws is an interval whose (Lebesgue) measure is prob, and GLOBAL BALANCE: sum over positive active "
             "units of q_a * P(select k | a) = |q_k| for inside-first, outside-first and ratio; determinism. Kernel-evaluated binary64 "
             "counterexample theorems for the six boundary findings. Correspondence: bit-exact against the three real classes under "
             "controlled draws (incl. CPython's compensated sum), sessions with invalid histories, glue (_fill_lifting, fixed-separations "
             "handler); oracle: exact selection intervals of the implementation by bisection, summed with Fractions, vs |q_k|.",
        note="Rounding-abstract reading (JF/Props/C05Float.lean, every FloatModel + the proved binary64 instance): the walk always returns an "
             "entry with non-positive derivative (choose_safe); a zero-derivative unit is selected IFF one of two explicit conditions holds "
             "(zero_rate_selected_iff: rounded position <= 0 with a leading zero-rate entry, or fall-through with a trailing zero-rate entry) "
             "- the six known findings are exactly these; selection stays monotone in the draw (intervals); flow error bounds "
             "(flow_error_draw; the error of CPython's compensated sum() is an explicit parameter delta for the outside/ratio schemes). "
             "Float behaviour is also tied by bit-exact correspondence and the flow "
             "oracle's derived tolerance. Six known findings (a zero-derivative unit can be selected at a measure-zero/ulp-level end point).",
        technique="Lean 4 proof over a hand-written model + bit-exact differential correspondence + exact flow-integral oracle",
        ref="§5 C05"),
    "C01": dict(
        text="Lean 4 theorem global_balance_identity (any ordered field, any number of factors, all three lifting schemes): per unit, "
             "probability inflow into the lifted state minus outflow equals -beta times the sum of the factor derivatives (the transport "
             "term), assembled from C05's flow balance; thinned_rate. JF.Props.C01Generator: infinitesimal stationarity - for the generator L of "
             "the lifted, factorised event-chain process (transport + jump part with the lifting probabilities of C05's three schemes, also "
             "with thinning against a dominating bound), sum_k I(exp(-beta U) * (L f)(.,k)) = 0 for all test functions f "
             "(boltzmann_stationary_generator, from the balance identity, prob_row_sum and integration by parts); integration by parts "
             "discharged for two concrete instances (pair on a circle, pair on a torus: circle_pair_stationary, torus_pair_stationary, "
             "cosine energies as non-vacuity). Tie to the code: the kernel correspondences of C02, C03, C04, C05, "
             "C18 are re-run inside this check; run level: every exponential energy budget of real runs is drawn at the setting's beta. "
             "Failing-history search: real runs of the small shipped systems (all algorithmic variants), observables recomputed from "
             "the recorded sampled states, Kolmogorov-Smirnov against the repository's reference CDFs and between variants.",
        note="PARTIAL by nature: the generator-level (infinitesimal) stationarity of exp(-beta U) x uniform is proved; the step from there to "
             "invariance of the measure under the semigroup of the piecewise-deterministic process, ergodicity and convergence of histograms is not formalised "
             "and cannot be decided by this technique (DESIGN §10); the statistical comparison is supporting evidence (a search for a "
             "failing history with loose thresholds), never a proof.",
        technique="Lean 4 proof of the balance identity + kernel correspondences + statistical failing-history search",
        ref="§5 C01, §10"),
    "C08": dict(
        text="Lean 4 theorems over the activator model: under wiring clause (h) (every event that may change a unit's motion trashes every "
             "populated interaction/cell-veto tagger) a stale candidate is always in the trash list, hence the in-state of every "
             "committed interaction/cell-veto event is still on its trajectory, for every run; clause (h) follows from the decidable "
             "WiringSound predicate, which is proved by decide for each of the 19 shipped .ini (generated from the current tree). "
             "Run level: oracle on recorded real runs compares, at each interaction commit, the in-state as extracted when the candidate "
             "was computed with the global state just before the commit (velocity identical, position on the same straight line). "
             "Composition (JF/Props/MediatorLoop.lean): the loop of SingleProcessMediator.run as one machine (activator model x scheduler "
             "instance x preceding handler) with theorems for all legs of all runs: the scheduler's live events are exactly the running "
             "handlers' candidates, the committed handler is running and minimal, a trashed handler is never committed unless handed out "
             "again (C08's second sentence end to end, composed with stale_handlers_are_trashed), commit times sorted, list and heap loops "
             "refine the spec loop; every recorded leg of every single-process run (incl. dumped-and-resumed histories) is replayed in the "
             "composed model and the cross-invariant 'live events of the real scheduler = candidates of the real activator's running "
             "handlers' is evaluated on the implementation.",
        note="Footprint tables (which handler class may change motion/identity/cell) are hypotheses of the link theorem, tied to the code "
             "only by the run-level oracle and the activator replay. Trusted: translator .ini -> Lean data (self-checked against the real "
             "factory-built activator every run). Multi-process histories (3 and 4 cores, seeded wait adversary; soft spheres and dipole_motion.ini) and runs whose heap-scheduler counters wrap around 2^32 inside the trace are judged by the oracle as well; system level for composite objects with cells: c08_closed3, c08_stale_trashed_closed3 (JF/Props/SystemInv3Loop.lean, hooked into C09).",
        technique="Lean 4 proof over a hand-written activator model + generated decidable obligations per .ini + run-level oracle/replay",
        ref="§5 C09/C08, §4"),
    "C09": dict(
        text="Lean 4 theorems over a literal model of TagActivator bookkeeping: for all operation sequences running++notRunning is a "
             "permutation of each pool, update returns only not-running handlers, trash returns exactly the running ones, error iff the "
             "pool is exhausted; freshness invariant by induction over all runs whose steps satisfy StepOK: pending in-state tuples = "
             "effective fresh yield (identifier multisets for interaction taggers, counts for the others); decidable WiringSound over "
             "reachable activation states with footprint tables, proved by decide for all 19 shipped .ini regenerated from the tree; "
             "link theorem WiringSound + FootprintsSound => StepOK. Correspondence: translator vs real factory-built activator; every "
             "recorded leg of real runs replayed in the model (created handlers, order, running lists, flags, trash order); real "
             "TagActivator with stub taggers on random wirings. Oracle: pending vs fresh yield after every commit of real runs. "
             "FootprintsSound is PROVED (JF/Props/Footprints.lean: footprintsSound_concrete, fresh_concrete, clause_h_concrete) for the "
             "concrete world of point masses with one cell-occupancy system (kinematic chain machine + occupancy update + cell taggers; "
             "the four shipped coulomb_atoms wirings by decide), every recorded commit of such runs is checked to be an instance of that "
             "world's transition relation (harness/fpcorr.py).",
        note="FootprintsSound is proved for the coulomb_atoms family; its premise (a sampling/dumping/end-of-run commit finds the active unit in "
             "its recorded cell) is itself derived by the joint induction of JF/Props/SystemInv.lean (c09_fresh_closed: pending = fresh yield "
             "at every leg of every run of the four shipped coulomb_atoms wirings, positive direction, explicit no-tie hypothesis for the two "
             "cell wirings, none for the two without cells). For composite objects without a cell system (the five dipole wirings, water/single_molecule, ...) "
             "FootprintsSound is proved as well (JF/Props/Footprints2.lean: footprintsSound_concrete2 over the two-level machine, C10's factor "
             "maps and E13's kind map; fresh_concrete2, clause_h_concrete2; tie: harness/fpcorr2.py compares what the real taggers yield "
             "with the world's yields on every recorded leg) under the mode premise that ModeDiscipline concludes from the activation flags; that premise is discharged "
             "along the run by the joint induction of JF/Props/SystemInv2.lean (joint_inv2, c09_fresh_closed2 / c09_fresh_every_leg2: pending = fresh at every leg of "
             "every run of the five shipped dipole wirings without cells and water/single_molecule, no no-tie hypothesis; its step-relation hypotheses are measured "
             "by harness/sysinvcorr.check_trace2, modecorr and fpcorr2); "
             "for composite objects WITH cell systems (the six shipped wirings: dipoles/cell_*, three water files, hard_disk_dipoles_cells) FootprintsSound is proved too "
             "(JF/Props/Footprints3.lean over the world CW3 = two-level machine x any number of occupancies; tie: harness/fpcorr3.py on runs with the occupancies "
             "dumped at every leg), and the joint invariant over the composed mediator loop (JF/Props/SystemInv3Loop.lean: joint_inv3, c09_fresh_closed3, c08_closed3, "
             "c12_rootConsistent_closed3, c11_consistent_closed3, no_sample_skipped3) DERIVES the stays-in-recorded-cell premise per cell system from the pending "
             "cell-boundary candidate, scheduler minimality and the geometry, under an explicit no-tie hypothesis (TieFree3, ties counted on runs) and positive direction of motion. "
             "Pool sizes (last clause of C09): JF/Props/C09Pools.lean proves exact demand counts / tight bounds per tagger class and, per shipped configuration, the generated "
             "obligation pool >= bound by decide (17 configurations; every shipped pool equals its bound); JF/Props/C09PoolsClosed.lean composes them with the joint invariants: "
             "no_pool_exhausted_closed (coulomb_atoms, along Sys.Reach) and no_pool_exhausted_closed2 (composite objects without cells, activation-aware, dipole_motion) - "
             "no leg can end in TagActivatorError - with no demand hypothesis; hard_disk_dipoles_cells.ini has bound 161 > pool 15 for nearby_sphere (judged physically "
             "unreachable, DESIGN 0b), hard_disk_dipoles.ini has no kernel-checked obligation (decide too slow); harness/poolcorr.py drives the real taggers.",
        technique="Lean 4 proof over a hand-written activator model + generated decidable obligations per .ini + trace replay + run-level oracle",
        ref="§5 C09/C08, §4"),
    "C11": dict(
        text="Lean 4 theorems over a branch-for-branch model of SingleActiveCellOccupancy: the mirror invariant OccInv is established by "
             "initialize and preserved by update for every new active unit (relevant or not, from occupants or surplus, same/other "
             "cell), hence at every leg of every history satisfying the stated premise; update never raises; cell-boundary event (exact "
             "arithmetic): positive time, unit stays in its cell before it, lands in the neighbour cell, snap agrees with the time slice. "
             "Correspondence: real class on random configurations and update sequences (multiset compare per cell), real "
             "CellBoundaryEventHandler bit-exact, replay of the call sequence of real cell runs; oracle: occupancy recomputed from "
             "scratch from true positions after every update of real runs + history clause; the premise of the link theorem "
             "SystemLinks.active_unit_stays_in_recorded_cell (exactly one pending cell-boundary candidate of an occupancy while it records "
             "an active unit) is checked after every leg of every shipped cell configuration; when it fails, long runs of that "
             "configuration are searched for an active unit that really leaves its recorded cell without a cell-boundary event.",
        note="The premise 'the active unit leaves its recorded cell only by a cell-boundary event' is a hypothesis of reach_inv (it needs "
             "the scheduler/system model) and is measured by the run-level oracle; it is derived from the leg loop + a pending cell-boundary "
             "candidate for both directions of motion (SystemLinks), in the negative direction for representable coordinates under the "
             "adjacency of the recorded extents (no scalar between the neighbour's cell_max and the cell's lower edge: C16 part D, checked "
             "on the real cell systems). For the concrete coulomb_atoms world (point masses, one cell system, motion in the positive "
             "direction, exact reading) the premise is no longer a premise: JF/Props/SystemInv.lean proves by ONE joint induction over the legs "
             "of the composed mediator loop (E1 scheduler mirror + C09 freshness + C11 mirror + C07 kinematics + C08 currency) that the active "
             "unit is in its recorded cell at every commit (c11_active_in_recorded_cell_closed, c11_occinv_closed), under an explicit no-tie "
             "hypothesis (no sampling/dumping event committed exactly at a pending cell-boundary time: at such a tie C09's freshness really "
             "fails in the exact reading). JF/Props/SystemInv3Occ.lean: for composite objects WITH cell systems (all six shipped wirings, root- and leaf-level systems, two systems at once) the full OccInv holds for every cell system at every leg of every run of the composed mediator loop (c11_occinv_closed3, by one induction; composite_step_rest_fixed: no event displaces a unit at rest), under TieFreeAll3 (counted on runs), OccInit3, CandsOK3/Commits3 and Geo for the positive direction. Run families include hard disks with cells and velocities of both signs, and runs whose heap-scheduler counters wrap around 2^32 inside the trace.",
        technique="Lean 4 proof (invariant by induction) over a hand-written model + differential correspondence + run-level oracle",
        ref="§5 C11"),
    "C16": dict(
        text="Lean 4 theorems: for any scalar/stepper: flat index is a bijection, the constructor enumerates identifiers, nearby/neighbour "
             "specs as index arithmetic mod n (periodic) or clipped, nearby symmetric and reflexive; exact reading: partition (exactly "
             "one cell contains p and position_to_cell returns it), relative/translate are (c-r) mod n and (c+o) mod n and mutually "
             "inverse, nearby is translation invariant; rounding-abstract: extents are the maximal runs of scalars with digit i, "
             "consecutive cells abut, the last cell reaches the top of the box, position_to_cell is total on the closed box; kernel-evaluated "
             "binary64 facts on the former counterexample witnesses (the raw quotient still overflows, the clamp is live; unit box tiled for "
             "n = 1..12). Correspondence bit-exact against "
             "CuboidCells/CuboidPeriodicCells (all cells with extents, all queries, error outcomes); oracle on the implementation.",
        note="F2 (int(p/side) = n for the top floats of the box: wrong cell or IndexError; last cell_max below nextafter(L,0)) was repaired "
             "in /repo (fix 24644d9); the old behaviour is a regression the check reports with a failing input. Extent hypothesis Geo is not derived from the float constructor in general (bridged by "
             "part D and the oracle); loop termination (fuel) not proved.",
        technique="Lean 4 proof over a hand-written model + bit-exact differential correspondence + oracle",
        ref="§5 C16"),
    "C20": dict(
        text="Lean 4 model of the multi-process mediator's stage machine (mediator stage, worker program counter, pipe contents, stored "
             "out-states; one leg = send, receive loop under an adversarial list of wait results, commit, trash) with theorems for all "
             "core counts/handler sets/adversaries: the receive loop terminates within 2*|created| waits and raises nothing, stage "
             "invariant (activatable handlers are idle; no 'not ready' / 'already finished'), no stale pre-computed out-state survives a "
             "trash, and mp_refines_sp: the committed sequence equals the single-process one. Trace validation: every recorded leg of real "
             "multi-process runs replayed in the model (stages, stored out-states, push order). Differential runs of the real MultiProcessMediator (fork) against the SingleProcessMediator with identical per-handler random "
             "streams, for several core counts and seeded adversarial schedules (connection.wait replaced by a shim that returns a "
             "seeded ordered sub-list of in-flight pipes): every leg compared bit for bit (handler, candidate times, out-state, global "
             "state, trash list, samples); no worker alive after post_run; a run that does not finish is a deadlock.",
        note="The abstract 'rest of the application' of mp_refines_sp is instantiated by the concrete single-process loop of E1 "
             "(JF/Props/C20Loop.lean): Protocol medEnv is a THEOREM (from the activator/scheduler invariants of MediatorLoop), runSP of that "
             "environment is JF.Med.runLegs (runSP_eq_runLegs, any scheduler instance), hence mp_refines_medloop and the transfers "
             "commit_times_sorted_mp, no_stale_event_committed_mp, trashed_never_committed_mp, committed_is_running_mp for every core count, "
             "arity assignment and adversary. OS-level behaviour (pipes, events, lost wake-ups, reaping) is exercised, not modelled. Quantifier: configurations whose "
             "pre-computable out-states draw no random numbers. The tie finding (two handlers started in one leg report EQUAL candidate times: the commit "
             "depended on the arrival order) was repaired in /repo (fix 93334e5: times are pushed after the receive loop in activator "
             "order); mp_refines_sp holds without a no-tie hypothesis; the counterexample theorem tie_breaks_refinement is kept for the old "
             "arrival-order variant only. System level (JF/Props/SystemInvMP.lean): a multi-process run of the composed coulomb_atoms system whose world moves by the same step relation IS a Sys.Reach run (mp_run_is_reach, every adversary, every core count), so the joint invariant and its corollaries hold for it (joint_inv_mp, c09_fresh_closed_mp, c08_closed_mp, c11_occinv_closed_mp, commit_times_sorted_closed_mp, no_sample_skipped_mp).",
        technique="Lean 4 proof (stage-machine refinement) + trace validation + schedule-controlled differential runs against the single-process mediator",
        ref="§5 C20"),
    "C02": dict(
        text="Lean 4 theorems over R: 'accumulated uphill energy' is the positive variation uphill f 0 d; inverse power (repulsive/attractive): "
             "a returned finite d is >= 0 and uphill = budget, infinite iff the total climb is below (<= / <, as the code compares) the "
             "budget, totality of sqrt/denominators; hard sphere: least root of the contact equation, scaling with speed; hard dipole; the "
             "C Coulomb-bound routine with whole-box laps (split into laps and remainder exact, all six remainder branches invert the periodic "
             "minimum-image energy; cb_code_inverts for the routine as repaired: fmod first, trips = round((dE - remainder)/c), "
             "sqrt(non_negative(.))); the Mexican-hat case tree generic in the radial potential, instantiated for Lennard-Jones and even "
             "power; cell bound. Correspondence: native-Float model (CPython pow/sum semantics, exceptions as outcomes) vs real classes and "
             "freshly compiled C, by outcome class and 1e-9; oracle independent of the code's formulas: exact positive variation from the "
             "break points of an independently written energy, totality/sign down to denormal budgets, exact rational contact equations.",
        note="Binary64 totality is explored, not proved (theorems are over R; pow/sqrt are libm). Eight known findings in the Python potentials: arithmetic "
             "failures (ZeroDivisionError head-on, ValueError/TypeError within rounding of a turning point) and one wrong value (swallowed "
             "nested ValueError in the Mexican-hat tree). The two findings about the C routine (floor/fmod disagreement: one box length too "
             "long; nan) were repaired in /repo (fix 1b03a38, 22b464f).",
        technique="Lean 4 proof (real analysis) over a hand-written model + tolerance-based differential correspondence + break-point oracle",
        ref="§5 C02"),
    "C12": dict(
        text="Lean 4 theorems (exact reading, any n>=1 members, any dimension) over a two-level model of the composite-object bookkeeping "
             "(register leaf velocity change with the in-place scaling, commit with time-slice before the root velocity change, exchange, "
             "pass, end of chain in leaf and root mode, both switcher directions, start, snap): RootConsistent (root velocity = weighted "
             "sum of member velocities, absent iff all absent; root position advanced to any time = weighted barycentre of the members "
             "with explicit image shifts) is preserved by every admissible event and hence by every run; the dipole and water creators' "
             "geometry satisfies it initially; JF.Props.C12Chain: a system-level ONE-CHAIN invariant (ghost leaf/root mode) is preserved by every "
             "weakly admissible event and implies the formerly assumed at-rest/which-leaves-move facts, so RootConsistent holds for every "
             "history whose events satisfy only index-level admissibility. Correspondence: every recorded commit of every composite configuration (shipped + generated "
             "+ small-speed variants) is classified and recomputed by the binary64 model bit for bit (positions, velocities, time stamps of "
             "roots and leaves); creators bit for bit; oracle oracle_c12 on recorded states and on directly created molecules.",
        note="Exact reading replaces the 1e-13 threshold by = 0 (stated in the file); float drift between a root and its members is "
             "measured by the oracle (tolerance tied to run length), not bounded by a theorem. Admissibility hypotheses are the code's "
             "asserts plus the one-chain fact of C07. The mode discipline of the event-kind sequence (leaf/root mode) that C12Chain needs is "
             "derived from the wiring: decidable ModeSound over the reachable activation states, proved by decide for the 15 shipped composite "
             "wirings (regenerated from the tree), modeStep_of_modeSound and the composed corollaries (JF/Props/ModeDiscipline.lean); what each "
             "handler class commits (hkind) stays a hypothesis measured on every recorded commit (harness/modecorr.py). JF.Props.SystemInv2: for composite "
             "objects without a cell system ONE joint induction over the legs of the composed mediator loop (joint_inv2) discharges the mode premise and gives "
             "c12_rootConsistent_closed2 / c07_one_chain_closed2 / c09_fresh_closed2 / c08_closed2 for every run with no cross-file hypothesis left (the step relation: "
             "Composite.step of a kind the committing handler class commits in the mode read off the activation flags; candidate times normalised and not before "
             "the last commit, measured by sysinvcorr.check_trace2). Dumped-and-resumed "
             "composite runs (many dumps per run) are further histories judged by the oracle.",
        technique="Lean 4 proof (invariant by induction) over a hand-written model + bit-exact replay of recorded real runs + run-level oracle",
        ref="§5 C12, §4"),
    "C04": dict(
        text="Lean 4 theorems: decision kernel (both comparison styles accept exactly draws below max(0,q)), the accepting set of random() has "
             "Lebesgue measure max(0,q)/b, thinned rate b*(q+/b)=q+, summed bound dominates, an unconfirmed event returns the proposal state "
             "unchanged with no lifting insert (for every scalar type, so also binary64), the lifting table sums to zero; the 1/r bound: "
             "positivity iff, reduction of domination to unit charges on the positive half; the piecewise-constant bounding family "
             "(JF.Props.C04Piecewise): cache discipline of one handler object over every history (cached rate iff genuine proposal), "
             "decision kernel, accepting set/measure, thinned-rate identity, per-stretch domination under the named hypothesis "
             "LocalBound. Correspondence: all six real handlers' "
             "send_out_state vs the model bit for bit (decision, warning, uniform limit, potential calls, lifting inserts, out-state) over "
             "all rate regimes and draw classes; C 1/r routine bit-exact. DOMINATION (bound >= true rate everywhere, margin 1e-4) is a "
             "hypothesis of the theorems and is searched numerically on the freshly compiled C routines (corners/edges down to 1e-8 L, "
             "multi-start, both charge signs; supremum 0.999902); run level: every (bound, true, draw) of real thinned events re-derived.",
        note="PARTIAL: Dominates for the real Ewald derivative with prefactor 1.5837 cannot be proved in Lean here (DESIGN §10): the theorems "
             "leaf/summed_one_over_r_sound_partial carry it as a hypothesis; a ratio > 1 found by the search is a concrete failing input. The two root-unit-active handlers of dipole_motion.ini are in the correspondence as kinds 7 and 8 (sendRoot / passComposite in JF/Model/Thinning.lean, Part H of JF/Props/C04.lean: sendRoot_spec, root_thinning_exact, root_zero_rate_rejected, root_thinned_rate, root_one_over_r_sound_partial; kind 8 is directly invertible and judged by an implementation-level oracle). For a SUMMED bound (kinds 4 and 7) the oracle demands one independent exponential potential change per pair displacement, otherwise the candidate is not drawn at the bounding rate the confirmation ratio divides by.",
        technique="Lean 4 proof of the decision logic over a hand-written model + bit-exact differential correspondence + numerical domination search",
        ref="§5 C04, §10"),
}

PENDING_REASON = "check not built yet in this session (work in progress; see DESIGN.md §9 for the order)"


def main():
    ids = [json.loads(l)["id"] for l in open(os.path.join(VERIF, "properties.jsonl"))]
    checks, na = [], []
    for i in ids:
        if i in CLAIMED:
            c = CLAIMED[i]
            checks.append({
                "property_id": i,
                "quick_cmd": f"./check {i} --tier quick",
                "thorough_cmd": f"./check {i} --tier thorough",
                "evidence_file": f"/verif/evidence/{i}.json",
                "replay_cmd_template": f"./check {i} --replay {{path}}",
                "engine": "lean4-model+correspondence",
                "level_claimed": {"category": "proof", "text": c["text"], "design_ref": c["ref"]},
                "level_note": c["note"],
                "technique": c["technique"],
            })
        else:
            na.append({"property_id": i, "reason": PENDING_REASON})
    m = {
        "version": 1,
        "setup_cmd": "cd /verif/lean && lake build",
        "hooks": {"guard": "JELLYFYSH_VERIF", "enable": "no source hooks: checks observe the real classes from the harness "
                  "(JELLYFYSH_VERIF=1 is exported by ./check but read by nothing in /repo)",
                  "baseline_off_cmd": "cd /repo && /venv/bin/python -m pytest -ra -q -p no:cacheprovider --timeout=900 --continue-on-collection-errors",
                  "source_commits": [], "add_only": True},
        "engines": [{"name": "lean4-model+correspondence", "path": "/verif/lean + /verif/harness",
                     "serves_properties": sorted(CLAIMED),
                     "kind_free_text": "Lean 4 library JF (models, theorems, line-protocol driver) + Python correspondence harness"}],
        "checks": checks,
        "not_applicable": na,
        "notes": "See DESIGN.md. Every check: fresh scratch copy of /repo's working tree (C rebuilt) -> lake build of the property's "
                 "theorem module + axiom audit -> correspondence model vs implementation -> property oracle on the implementation.",
    }
    json.dump(m, open(os.path.join(VERIF, "MANIFEST.json"), "w"), indent=1)
    # root module of the library: everything a claimed check proves or runs (so that `lake build` in setup_cmd prebuilds it)
    import importlib, sys
    sys.path.insert(0, VERIF)
    mods = set()
    for i in sorted(CLAIMED):
        pm = importlib.import_module(f"harness.props.{i.lower()}")
        mods.update(getattr(pm, "THEOREM_MODULES", [f"JF.Props.{i}"]))
    with open(os.path.join(VERIF, "lean", "JF.lean"), "w") as f:
        f.write("-- generated by harness/manifest.py: the theorem modules of every claimed property\n")
        for mname in sorted(mods):
            f.write(f"import {mname}\n")


if __name__ == "__main__":
    main()
