"""Writes /verif/MANIFEST.json from the table below (single source of truth for what is claimed)."""
import json, os
VERIF = os.path.dirname(os.path.dirname(os.path.abspath(__file__)))

CLAIMED = {
    "C14": dict(
        text="Lean 4 theorems over the exact (rational) reading of the hand-written model of base/time.py: addition is exact and "
             "normalised, all six comparisons and the C heap comparison coincide with the rational order, from_float and "
             "subtraction are exact, infinity is absorbing; the same model definitions, run in binary64, are compared bit for "
             "bit with the real Time class on every run, and a Fraction oracle evaluates each clause of the property on the "
             "implementation's outputs.",
        note="Theorems are about the model over Q (one rounding of r+d is what the float reading adds; the oracle measures it "
             "exactly with Fractions on the implementation). Trusted: Lean kernel, propext/Classical.choice/Quot.sound, the "
             "correspondence harness, Lean's native Float for + - * / floor, the model's exact integer fmod (self-checked "
             "against libm each run).",
        technique="Lean 4 proof over a hand-written model + bit-exact differential correspondence with the implementation",
        ref="§5 C14"),
    "C07": dict(
        text="Lean 4 theorems over the exact reading of the kinematic core (time-slice congruent to pos+vel*dt mod L and inside the box; "
             "point-mass chain machine: one moving unit, conserved speed, time stamps equal the event time, no position jump, "
             "non-decreasing commit times for every event list). The same definitions in binary64 replay every recorded real run of "
             "the point-mass configurations bit for bit (whole global state after every commit) and every time-slice of every "
             "committed out-state of all 19 shipped + generated configurations; the property itself is evaluated by an oracle on "
             "the recorded states of those runs.",
        note="Composite objects: chain-level claim checked by the run oracle and by C12's model, not by C07's theorems. Physics/random "
             "choices (lift target, new direction, accept) are oracle inputs of the model. Trusted: Lean kernel + standard axioms, "
             "runtrace observation harness, MDAnalysis stand-in for two configurations.",
        technique="Lean 4 proof over a hand-written state-machine model + bit-exact replay of recorded real runs + run-level oracle",
        ref="§5 C07, §4"),
    "C17": dict(
        text="Lean 4 theorems (exact reading): k-th sample time = k*interval (from 0 or one interval), normalised; comparison with the "
             "end time is the rational comparison; the sample-count loop returns exactly the ticks before the end and terminates; "
             "the sampled out-state carries the sample time on every moving unit. Binary64 reading of the same clock compared bit for "
             "bit with the real handlers (unit level, up to 50k ticks) and with sample times/counts of recorded real runs; oracle on "
             "recorded writes (time stamps equal sample time bit for bit, written state = committed state, count, end time).",
        note="The float clause (one rounding per step, not growing with k beyond that) is measured by a Fraction oracle on the "
             "implementation and proved in the rounding-abstract reading of C14 where available. Ties between a sample time and the "
             "end time are not judged.",
        technique="Lean 4 proof over a hand-written model + bit-exact differential correspondence + run-level oracle",
        ref="§5 C17"),
}

PENDING_REASON = "check not built yet in this session (work in progress; see DESIGN.md §9 for the order)"


def main():
    ids = [json.loads(l)["id"] for l in open(os.path.join(VERIF, "properties.jsonl"))]
    checks, na = [], []
    for i in ids:
        if i in CLAIMED:
            c = CLAIMED[i]
            checks.append({
                "property_id": i,
                "quick_cmd": f"./check {i} --tier quick",
                "thorough_cmd": f"./check {i} --tier thorough",
                "evidence_file": f"/verif/evidence/{i}.json",
                "replay_cmd_template": f"./check {i} --replay {{path}}",
                "engine": "lean4-model+correspondence",
                "level_claimed": {"category": "proof", "text": c["text"], "design_ref": c["ref"]},
                "level_note": c["note"],
                "technique": c["technique"],
            })
        else:
            na.append({"property_id": i, "reason": PENDING_REASON})
    m = {
        "version": 1,
        "setup_cmd": "cd /verif/lean && lake build",
        "hooks": {"guard": "JELLYFYSH_VERIF", "enable": "no source hooks: checks observe the real classes from the harness "
                  "(JELLYFYSH_VERIF=1 is exported by ./check but read by nothing in /repo)",
                  "baseline_off_cmd": "cd /repo && /venv/bin/python -m pytest -ra -q -p no:cacheprovider --timeout=900 --continue-on-collection-errors",
                  "source_commits": [], "add_only": True},
        "engines": [{"name": "lean4-model+correspondence", "path": "/verif/lean + /verif/harness",
                     "serves_properties": sorted(CLAIMED),
                     "kind_free_text": "Lean 4 library JF (models, theorems, line-protocol driver) + Python correspondence harness"}],
        "checks": checks,
        "not_applicable": na,
        "notes": "See DESIGN.md. Every check: fresh scratch copy of /repo's working tree (C rebuilt) -> lake build of the property's "
                 "theorem module + axiom audit -> correspondence model vs implementation -> property oracle on the implementation.",
    }
    json.dump(m, open(os.path.join(VERIF, "MANIFEST.json"), "w"), indent=1)


if __name__ == "__main__":
    main()
