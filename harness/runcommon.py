"""Shared by the run-level properties (C07 C08 C09 C12 C17 …): which real runs a check traces, and the replay of
recorded runs in the Lean chain machine (`jf_sys`)."""
from harness import runs
from harness.drive import f2b

CFG = runs.CFG


def job_list(ctx, composite_only=False, cap_quick=2500, cap_thorough=20000):
    """shipped configurations (all 19) with a shortened end time + harness-generated variants, seeded by VERIF_SEED"""
    rng = ctx.rng
    cap = ctx.n(cap_quick, cap_thorough)
    jobs = []
    seeds = [ctx.seed * 1000 + k for k in range(ctx.n(1, 3))]
    for ini in runs.SHIPPED:
        for s in seeds:
            t_end = rng.choice([7.5, 20, 30.25]) if ctx.quick else rng.choice([50, 111.5, 200])
            jobs.append({"ini": ini, "seed": s, "max_legs": cap, "kind": "shipped",
                         "overrides": {"FinalTimeEndOfRunEventHandler": {"end_of_run_time": t_end}}})
    # generated variants: more particles, other grids / chain times / sampling intervals / scheduler
    gen = []
    for k in range(ctx.n(4, 16)):
        n = rng.randint(3, 9)
        cps = ", ".join(str(rng.randint(4, 6)) for _ in range(3))
        base = rng.choice(["coulomb_atoms/cell_veto.ini", "coulomb_atoms/cell_bounded.ini", "coulomb_atoms/power_bounded.ini"])
        ov = {"RandomInputHandler": {"number_of_root_nodes": n},
              "FinalTimeEndOfRunEventHandler": {"end_of_run_time": rng.choice([3.0, 6.5, 11])},
              "FixedIntervalSamplingEventHandler": {"sampling_interval": rng.choice([0.1, 0.37, 1.0, 0.56789]),
                                                    "first_event_time_zero": rng.choice(["True", "False"])},
              "SingleIndependentActivePeriodicDirectionEndOfChainEventHandler": {"chain_time": rng.choice([0.3, 0.78965, 2.5])},
              "SingleProcessMediator": {"scheduler": rng.choice(["heap_scheduler", "list_scheduler"])}}
        if "cell" in base:
            ov["CuboidPeriodicCells"] = {"cells_per_side": cps}
            for sec in ("CoulombNearby", "CoulombSurplus", "CoulombCellBounding", "CoulombCellVeto"):
                pass
        if "power_bounded" in base:
            ov["Coulomb"] = {"number_event_handlers": n}
        else:
            ov["CoulombNearby"] = {"number_event_handlers": n}
            ov["CoulombSurplus"] = {"number_event_handlers": n}
            if "cell_bounded" in base:
                ov["CoulombCellBounding"] = {"number_event_handlers": n}
        gen.append({"ini": CFG + base, "seed": ctx.seed * 1000 + 100 + k, "max_legs": cap, "kind": "generated", "overrides": ov})
    for k in range(ctx.n(3, 10)):
        n = rng.randint(2, 5)
        base = rng.choice(["dipoles/atom_factors.ini", "dipoles/dipole_factors_inside_first.ini", "dipoles/dipole_factors_ratio.ini",
                           "dipoles/dipole_factors_outside_first.ini", "dipoles/dipole_motion.ini"])
        ov = {"RandomInputHandler": {"number_of_root_nodes": n},
              "FinalTimeEndOfRunEventHandler": {"end_of_run_time": rng.choice([3.0, 6.5, 11])},
              "FixedIntervalSamplingEventHandler": {"sampling_interval": rng.choice([0.1, 0.37, 1.0]),
                                                    "first_event_time_zero": rng.choice(["True", "False"])},
              "SingleProcessMediator": {"scheduler": rng.choice(["heap_scheduler", "list_scheduler"])}}
        gen.append({"ini": CFG + base, "seed": ctx.seed * 1000 + 200 + k, "max_legs": cap, "kind": "generated", "overrides": ov,
                    "pool": n})
    # dense cell systems (surplus units, several atoms per cell) and soft spheres in cubic / non-cubic boxes with a cell system
    from harness import genconfigs
    for k in range(ctx.n(4, 12)):
        j = genconfigs.dense_cells(rng, CFG)
        gen.append({**j, "seed": ctx.seed * 1000 + 300 + k, "max_legs": cap, "kind": "generated-dense"})
    for k in range(ctx.n(1, 3)):
        j = genconfigs.activation_variant(ctx.root, CFG)
        j["overrides"]["FinalTimeEndOfRunEventHandler"] = {"end_of_run_time": rng.choice([8, 15])}
        gen.append({**j, "seed": ctx.seed * 1000 + 600 + k, "max_legs": cap, "kind": "generated-activation-variant"})
    for k in range(ctx.n(3, 8)):
        j = genconfigs.water_motion(rng, CFG)
        gen.append({**j, "seed": ctx.seed * 1000 + 500 + k, "max_legs": cap, "kind": "generated-water-motion"})
    for k in range(ctx.n(5, 16)):
        j = genconfigs.soft_spheres_cells(rng)
        gen.append({**j, "seed": ctx.seed * 1000 + 400 + k, "max_legs": cap, "kind": "generated-cuboid"})
    # hard disks with cells and the sequential-direction end of chain: velocity components of both signs (negative branch of the
    # cell-boundary handler, wrap-around through the lower edge of cubic and non-cubic boxes)
    for k in range(ctx.n(3, 8)):
        j = genconfigs.hard_disks_cells(rng)
        gen.append({**j, "seed": ctx.seed * 1000 + 700 + k, "max_legs": cap, "kind": "generated-hard-disks"})
    # "however long the run is": every third generated run starts with the heap scheduler's lazy-deletion counters just below the C
    # `unsigned int` range, i.e. in the state a production run reaches after ~4.3e9 trashed candidates per handler; the wrap-around
    # happens a few dozen to a few hundred legs into the traced run and must be invisible (runtrace: `prime_counters`)
    for i, j in enumerate(gen):
        if i % 3 == 1:
            j["prime_counters"] = 2 ** 32 - 40 - (i * 97) % 600
        if i % 5 == 2:
            j["debug_logging"] = True       # the run as `-vv` would make it (records go to a null sink)
    jobs += gen
    if composite_only:
        jobs = [j for j in jobs if "coulomb_atoms" not in j["ini"]]
    return jobs


def mp_jobs(ctx, composite=True):
    """a few runs under the multi-process mediator (3 and 4 cores, seeded `connection.wait` adversary, out-states computed ahead of
    time on idle cores): soft spheres with directly invertible pair events and - `composite` - the shipped dipole_motion.ini (mode
    switchers, several handlers started in one leg). Further histories for the run-level oracles."""
    from harness.props import c20 as _c20
    rng = ctx.rng
    jobs = []
    for k in range(ctx.n(2, 5)):
        b = _c20.soft_sphere(rng.randint(3, 6), rng.choice([2.0, 3.5]), rng.choice(["heap_scheduler", "list_scheduler"]),
                             rng.choice([1.0, 2.0]), rng.choice([0.11, 0.37]))
        for cores in (3, 4):
            jobs.append({**b, "seed": ctx.seed * 100 + 70 + k, "max_legs": ctx.n(1200, 5000), "per_handler_rng": True, "timeout": 300,
                         "kind": "generated-mp", "mp": {"cores": cores, "schedule_seed": ctx.seed * 1000 + 31 * k + cores}})
    if composite:
        for k, cores in enumerate((3, 4) if ctx.quick else (3, 4, 6)):
            jobs.append({"ini": CFG + "dipoles/dipole_motion.ini", "seed": ctx.seed * 100 + 90 + k, "max_legs": ctx.n(1500, 6000),
                         "overrides": {"FinalTimeEndOfRunEventHandler": {"end_of_run_time": rng.choice([12, 25])}},
                         "per_handler_rng": True, "timeout": 300, "kind": "shipped-mp",
                         "mp": {"cores": cores, "schedule_seed": ctx.seed * 1000 + 57 * k + cores}})
    return jobs


def fix_pools(jobs, root):
    """generated dipole variants need handler pools that grow with the particle number: set number_event_handlers of
    every tagger section that has one to a safe value (read from the shipped .ini in the scratch tree)"""
    import configparser, os
    for j in jobs:
        if "pool" not in j:
            continue
        cp = configparser.ConfigParser()
        cp.read(os.path.join(root, "jellyfysh", j["ini"]))
        n = j.pop("pool")
        for sec in cp.sections():
            if cp.has_option(sec, "number_event_handlers"):
                cur = int(cp.get(sec, "number_event_handlers"))
                j["overrides"].setdefault(sec, {})["number_event_handlers"] = max(cur, 4 * n * 2)
    return jobs


def resumed_traces(ctx, composite=False):
    """dump a few dumping variants of shipped configurations at every dumping event and resume each dump through the
    repository's resume.main(): the resumed runs are further event histories every run-level property must hold on.
    `composite`: configurations with composite objects, many dumps per run (a candidate that is pending at the dump keeps its
    pickled in-state — branches of nodes with explicit weights — and commits after the resume)"""
    import os, tempfile, shutil
    from harness.props import c19
    rng = ctx.rng
    work = tempfile.mkdtemp(prefix="jfdumps_", dir=os.path.dirname(ctx.root))
    out = []
    try:
        jobsA = []
        base = [(CFG + "coulomb_atoms/power_bounded_dump.ini", 9.0), (CFG + "coulomb_atoms/cell_veto.ini", 2.5),
                (CFG + "dipoles/dipole_motion.ini", 7.0)][:ctx.n(2, 3)]
        per_run = 3
        if composite:
            base = [(CFG + "dipoles/atom_factors.ini", 14.0), (CFG + "dipoles/dipole_motion.ini", 9.0),
                    (CFG + "dipoles/dipole_factors_inside_first.ini", 9.0), (CFG + "water/coulomb_power_bounded_lj_inverted.ini", 3.0)][:ctx.n(2, 4)]
            per_run = ctx.n(9, 24)
        for n, (ini, t_end) in enumerate(base):
            for sched in (["heap_scheduler", "list_scheduler"] if n == 0 else ["heap_scheduler"]):
                dd = os.path.join(work, f"A{len(jobsA)}")
                os.makedirs(dd)
                ov = c19.merge({"FinalTimeEndOfRunEventHandler": {"end_of_run_time": t_end}, "SingleProcessMediator": {"scheduler": sched}},
                               c19.dumping_overrides(ctx.root, ini, round(t_end / (rng.choice([2.3, 3.1, 4.4]) if not composite
                                                                                   else per_run + rng.choice([0.3, 0.6])), 4)))
                ov = c19.merge(ov, {"DumpingOutputHandler": {"filename": f"dumpR{len(jobsA)}_{os.getpid()}.dat"}})
                if n == 0 and sched == "heap_scheduler" and not composite:
                    # several atoms: handlers of one pool are trashed and re-used at different times, so the scheduler holds
                    # lazily deleted entries of handlers that are NOT running at the dump
                    k = rng.randint(4, 7)
                    ov = c19.merge(ov, {"RandomInputHandler": {"number_of_root_nodes": k}, "Coulomb": {"number_event_handlers": k}})
                jobsA.append({"ini": ini, "seed": ctx.seed * 1000 + 700 + n, "max_legs": 40000, "dump_dir": dd, "overrides": ov, "light": True})
        trsA = runs.run_jobs(ctx.root, jobsA)
        jobsB = []
        for A in trsA:
            for dk in (A.get("dumps") or [])[:per_run]:
                jobsB.append({"ini": A["meta"].get("ini", "?"), "resume": dk["file"], "max_legs": ctx.n(1500, 8000) if not composite else ctx.n(500, 2500),
                              "kind": "resumed",
                              "seed": A.get("job", {}).get("seed", 0)})
        out = runs.run_jobs(ctx.root, jobsB) if jobsB else []
    finally:
        shutil.rmtree(work, ignore_errors=True)
    return out


def traces(ctx, with_resumed=False, **kw):
    jobs = fix_pools(job_list(ctx, **kw), ctx.root)
    trs = runs.run_jobs(ctx.root, jobs)
    if with_resumed:
        trs += resumed_traces(ctx)
    bad = [t for t in trs if not t["legs"]]
    for t in bad:
        ctx.count("trace-failed:" + str(t["end"])[:60])
    return trs


def record_trace_stats(ctx, tr, stats):
    ctx.traces += 1
    ctx.evaluations += len(tr["legs"])
    ctx.count("end:" + str(tr["end"])[:40])
    meta = tr["meta"]
    for leg in tr["legs"]:
        cls = meta["handlers"][leg["chosen"]][1]
        ctx.count("commit:" + cls)
        ctx.cls((meta["ini"].split("/")[-2] + "/" + meta["ini"].split("/")[-1], cls))
    for k, v in stats.items():
        ctx.count(k, v)


# ----------------------------------------------------------------------------------------------------------------
# replay in the Lean model

FRESH_ARGUMENT_BASES = ("EndOfChainEventHandler", "SamplingEventHandler", "EndOfRunEventHandler", "DumpingEventHandler",
                        "StartOfRunEventHandler", "RootLeafUnitActiveSwitcher", "CompositeObjectsLifting")


def stored_in_states(tr):
    """per leg: {identifier: (pos, vel, ts, charge)} = the values the committing handler holds in its stored in-state
    (deep copies taken when its candidate was computed, possibly several legs ago). Units that reach the handler only at
    commit time (get_arguments_*) are not in it."""
    out, created, pre = [], {}, tr["initial"]
    meta = tr["meta"]
    bases_of = {tg["tag"]: tg["handler_bases"] for tg in meta["taggers"]}
    for leg in tr["legs"]:
        for h, ids in leg["created"]:
            created[h] = (ids, pre)
        h = leg["chosen"]
        st = {}
        # these handler families receive a freshly extracted state through a get_arguments_* method of the mediator
        fresh_args = any(b in bases_of[meta["handlers"][h][0]] for b in FRESH_ARGUMENT_BASES)
        if h in created and created[h][0] is not None and not fresh_args:
            ids, snap = created[h]
            for u in runs.branch_units(ids, snap):
                st[u] = snap[u]
        out.append(st)
        for x in leg["trashed"]:
            created.pop(x, None)
        pre = leg["post"]
    return out


def _ubits(u, d):
    pos, vel, ts, _ = u
    s = " ".join(f2b(x) for x in pos)
    s += (" 1 " + " ".join(f2b(x) for x in vel)) if vel is not None else " 0"
    s += f" 1 {f2b(ts[0])} {f2b(ts[1])}" if ts is not None else " 0"
    return s


def replay_point_masses(ctx, tr):
    """Replay a recorded run of a one-level (point mass) configuration in the Lean chain machine: the recorded
    physics/random choices (which unit was lifted to, the new direction after an end of chain, the snapped coordinate)
    are the oracle inputs; the model recomputes the whole global state after every commit, compared bit for bit."""
    meta = tr["meta"]
    d = meta["dimension"]
    n = meta["n_roots"]
    ets = runs.event_times(tr)
    stored = stored_in_states(tr)
    lines = ["init %d %s" % (d, " ".join(f2b(x) for x in meta["system_lengths"]))]
    for i in range(n):
        lines.append("unit " + _ubits(tr["initial"][(i,)], d))
    expect = [None] * len(lines)
    pre = tr["initial"]
    legs_used = []
    for i, leg in enumerate(tr["legs"]):
        t = ets[i]
        if t is None:
            break
        post = leg["post"]
        cls = meta["handlers"][leg["chosen"]][1]
        bases = next(tg["handler_bases"] for tg in meta["taggers"] if tg["tag"] == meta["handlers"][leg["chosen"]][0])
        mov_pre = [k for k in range(n) if pre[(k,)][1] is not None]
        mov_post = [k for k in range(n) if post[(k,)][1] is not None]
        if not leg["out"]:
            # empty out-state (dumping event): nothing is committed, the model state stays as it is
            ctx.count("replay:empty-out-state")
            pre = post
            continue
        tq = f"{f2b(t[0])} {f2b(t[1])}"
        # the handler computes its out-state from its *stored* in-state (a copy taken when the candidate was computed);
        # where that differs from the global state (the unit was time-sliced by a sampling event in between) the model
        # is given the stored copy, exactly as the code uses it (C08 states that both lie on one trajectory)
        for ident, val in stored[i].items():
            if val[:3] != pre[ident][:3]:
                lines.append(f"set {ident[0]} " + _ubits(val, d))
                expect.append(None)
                ctx.count("replay:stored-in-state-differs-from-global")
        if "StartOfRunEventHandler" in bases:
            a = mov_post[0]
            line = f"ev start {tq} {a} " + " ".join(f2b(x) for x in post[(a,)][1])
            kind = "start"
        elif "EndOfChainEventHandler" in bases:
            a = mov_post[0]
            line = f"ev eoc {tq} {a} " + " ".join(f2b(x) for x in post[(a,)][1])
            kind = "eoc"
        elif "CellBoundaryEventHandler" in bases:
            a = mov_post[0]
            # the snapped direction is not recorded (for axis-aligned motion it is the direction of motion; for velocities off the
            # axes it is the direction of the nearest boundary): the driver takes the direction in which the committed position
            # differs from the time-sliced one
            line = f"ev snapauto {tq} " + " ".join(f2b(x) for x in post[(a,)][0])
            kind = "snap"
        elif mov_pre != mov_post:
            line = f"ev lift {tq} {mov_post[0]}"
            kind = "lift"
        else:
            line = f"ev keep {tq}"
            kind = "keep"
        lines.append(line)
        expect.append(" | ".join(_ubits(post[(k,)], d) for k in range(n)))
        legs_used.append((i, kind, cls))
        ctx.count("replay:" + kind)
        pre = post
    rep = ctx.model("sys", lines)
    if "bad-op" in rep:
        ctx.disagree("sys.protocol", {"ini": meta["ini"], "line": lines[rep.index("bad-op")]}, "request understood", "bad-op")
    bad = 0
    for (line, exp, got), info in zip([(l, e, g) for l, e, g in zip(lines, expect, rep) if e is not None], legs_used):
        if exp != got:
            bad += 1
            if bad <= 3:
                ctx.disagree("sys.chain-replay", {"ini": meta["ini"], "seed": meta["seed"], "leg": info[0], "event": line,
                                                  "handler": info[2], "job": tr.get("job")}, exp, got)
            if bad == 1:
                break   # later states depend on this one
    return len(legs_used)


def replay_slices(ctx, tr):
    """every time-slice of a moving unit in a committed out-state, recomputed by the model's `timeSlice` (bit-exact)"""
    meta = tr["meta"]
    d, L = meta["dimension"], meta["system_lengths"]
    ets = runs.event_times(tr)
    stored = stored_in_states(tr)
    lines, exp, info = [], [], []
    pre = tr["initial"]
    for i, leg in enumerate(tr["legs"]):
        t = ets[i]
        if t is None:
            break
        cls = meta["handlers"][leg["chosen"]][1]
        for ident, (pos, vel, ts, _) in leg["out"].items():
            ppos, pvel, pts, _ = stored[i].get(ident, pre[ident])
            post = leg["post"][ident]
            if pvel is None or pts is None:
                continue
            # sliced iff it still moves and carries the event time, or it stopped at this event
            if (post[1] is not None and post[2] == t) or post[1] is None:
                lines.append("slice %d %s %s %s %s %s %s %s" % (d, " ".join(f2b(x) for x in L), " ".join(f2b(x) for x in ppos),
                                                                 " ".join(f2b(x) for x in pvel), f2b(pts[0]), f2b(pts[1]), f2b(t[0]), f2b(t[1])))
                exp.append(post[0])
                info.append((i, ident, cls))
        pre = leg["post"]
    rep = ctx.model("sys", lines) if lines else []
    nbad = 0
    for line, e, g, inf in zip(lines, exp, rep, info):
        got = g.split()
        want = [f2b(x) for x in e]
        if inf[2] == "CellBoundaryEventHandler":
            # the cell-boundary handler overwrites one coordinate with the cell boundary after slicing
            ndiff = sum(1 for a, b in zip(got, want) if a != b)
            ok = ndiff <= 1
        else:
            ok = got == want
        ctx.count("slice-replay")
        if not ok:
            nbad += 1
            if nbad <= 3:
                ctx.disagree("sys.time-slice", {"ini": meta["ini"], "seed": meta["seed"], "leg": inf[0], "unit": inf[1],
                                                "handler": inf[2], "request": line, "job": tr.get("job")}, " ".join(want), g)
    return len(lines)


def replay_end_of_chain(ctx, tr):
    """the end-of-chain handlers' own computations on recorded runs: new velocity (periodic: cyclic shift of the direction of
    motion; sequential: rotation with the handler's cos/sin) and candidate time = last end-of-chain time + chain time, recomputed
    by `JF.EndOfChain` in binary64, bit for bit"""
    import math
    meta = tr["meta"]
    cfg = meta["config"] or {}
    d = meta["dimension"]
    ets = runs.event_times(tr)
    eoc = {}
    for h, (tag, cls) in enumerate(meta["handlers"]):
        base = cls.split("(")[-1].rstrip(")").strip() if "(" in cls else cls
        sec = cfg.get(cls.split(" (")[0]) or cfg.get(base)
        if sec is None or "chain_time" not in sec:
            continue
        kind = "seq" if "delta_phi_degree" in sec else "periodic"
        par = {"chain": float(sec["chain_time"])}
        if kind == "seq":
            phi = float(sec["delta_phi_degree"]) * math.pi / 180.0
            par.update(c=math.cos(phi), s=math.sin(phi))
        eoc[h] = (kind, par)
    if not eoc:
        return 0
    lines, exp, info = [], [], []
    last = (0.0, 0.0)
    pre = tr["initial"]
    for i, leg in enumerate(tr["legs"]):
        # candidate time pushed by an end-of-chain handler in this leg
        for h, t in leg["times"].items():
            if h in eoc and leg["active_roots"]:
                cur = pre[tuple(leg["active_roots"][0])][2]
                if cur is not None:
                    lines.append("eoctime %s %s %s %s %s" % (f2b(last[0]), f2b(last[1]), f2b(cur[0]), f2b(cur[1]), f2b(eoc[h][1]["chain"])))
                    exp.append(f"{f2b(t[0])} {f2b(t[1])}")
                    info.append((i, "time"))
        h = leg["chosen"]
        if h in eoc and ets[i] is not None:
            kind, par = eoc[h]
            old = [v[1] for k, v in pre.items() if runs.is_leaf(k, meta) and v[1] is not None]
            new = [v[1] for k, v in leg["post"].items() if runs.is_leaf(k, meta) and v[1] is not None]
            if old and new:
                if kind == "periodic":
                    lines.append("eocvel periodic %d %s" % (d, " ".join(f2b(x) for x in old[0])))
                else:
                    lines.append("eocvel seq %s %s %s" % (f2b(par["c"]), f2b(par["s"]), " ".join(f2b(x) for x in old[0])))
                exp.append(" ".join(f2b(x) for x in new[0]))
                info.append((i, "velocity:" + kind))
            last = ets[i]
        pre = leg["post"]
    rep = ctx.model("sys", lines) if lines else []
    for line, e, g, inf in zip(lines, exp, rep, info):
        ctx.count("eoc-replay:" + inf[1])
        if e != g:
            ctx.disagree("sys.end-of-chain." + inf[1].split(":")[0], {"ini": meta["ini"], "seed": meta["seed"], "leg": inf[0], "request": line,
                                                                       "job": tr.get("job")}, e, g)
    return len(lines)


def replay_scheduler(ctx, tr):
    """The scheduler as the mediator really uses it: every push_event / get_succeeding_event / trash_event of a recorded run is
    replayed, in order, in the Lean models of HeapScheduler (array heap with lazy deletion) and ListScheduler; the handler the model
    returns (tie-breaking by heap layout resp. list order included) and its time must be the recorded ones, leg by leg."""
    meta = tr["meta"]
    kind = meta["scheduler"]
    lines, exp, info = ["reset"], [None], [None]
    primed = (tr.get("job") or {}).get("prime_counters")
    if primed is not None and kind == "HeapScheduler":
        # the traced run started with the lazy-deletion counters primed just below 2^32 (runtrace: `prime_counters`): so does the model;
        # the purge at the wrap-around is then replayed in the model of heap.c too (tie-breaking by heap layout included)
        for h in range(len(meta["handlers"])):
            lines.append(f"setmv {h + 1} {int(primed)}")
            exp.append(None); info.append(None)
    for i, leg in enumerate(tr["legs"]):
        for h, t in leg["times"].items():
            lines.append(f"push {f2b(t[0])} {f2b(t[1])} {h + 1}")
            exp.append(None); info.append(None)
        lines.append("get")
        exp.append(leg["chosen"] + 1); info.append(i)
        for h in leg["trashed"]:
            lines.append(f"trash {h + 1}")
            exp.append(None); info.append(None)
    rep = ctx.model("heap", lines)
    n = 0
    for line, e, r, inf in zip(lines, exp, rep, info):
        if e is None:
            continue
        parts = r.split(" | ")
        mine = parts[0] if kind == "HeapScheduler" else parts[1]
        n += 1
        ctx.count("scheduler-replay:" + kind)
        got = mine.split()
        if got[0] != "ok" or int(got[1]) != e:
            ctx.disagree("sched.run-replay (" + kind + ")", {"ini": meta["ini"], "seed": meta["seed"], "leg": inf, "job": tr.get("job")},
                         f"handler {e - 1} ({meta['handlers'][e - 1][1]})", mine)
            break
    return n
