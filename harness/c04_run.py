"""Subprocess helper of harness/props/c04.py: one short real run of a shipped configuration.

usage: c04_run.py <tree root> <ini relative to config_files/2018_JCP_149_064113> <end_of_run_time> <seed> [<json overrides>]
(overrides: {section: {option: value}}, e.g. more particles and more event handlers per tagger — several candidates of one tagger
are then pending at once, each on its own deep copy of the prepared event handler)

For the cell-bounding handlers the constant bounding rate the candidate was PROPOSED with (set by `displacement()` inside the handler's
own `send_event_time`) is noted per handler object and reported next to the rate the event is CONFIRMED against.
Every `send_out_state` of the six thinning event handlers is observed (class-level wrappers, no source change):
the bounding rate and the true rate that the handler compares (as handed to `bounding_potential_warning`, or, for
the two-leaf handlers when the true derivative is <= 0, recomputed from the handler's own potential), the value
returned by `random.uniform` inside the handler module, and whether the velocities of the leaf units changed.
One line `REC {json}` per event (floats as uint64 bit patterns), then `DONE`.
"""
import json, os, struct, sys


def f2b(x):
    return str(struct.unpack("<Q", struct.pack("<d", float(x)))[0])


def main():
    root, ini, end, seed = sys.argv[1], sys.argv[2], float(sys.argv[3]), int(sys.argv[4])
    sys.path.insert(0, root)
    os.chdir(os.path.join(root, "jellyfysh"))
    import jellyfysh
    assert os.path.realpath(jellyfysh.__file__).startswith(os.path.realpath(root)), jellyfysh.__file__
    import functools, importlib, random
    from configparser import ConfigParser
    random.seed(seed)
    from jellyfysh.base import factory
    from jellyfysh.base.strings import to_camel_case
    from jellyfysh.base.exceptions import EndOfRun
    from jellyfysh.setting import hypercubic_setting
    from jellyfysh.potential.inverse_power_coulomb_bounding_potential import InversePowerCoulombBoundingPotential

    config = ConfigParser()
    assert config.read(os.path.join("config_files", "2018_JCP_149_064113", ini)), ini
    config.set("FinalTimeEndOfRunEventHandler", "end_of_run_time", repr(end))
    if len(sys.argv) > 5:
        for sec, kv in json.loads(sys.argv[5]).items():
            if not config.has_section(sec):
                config.add_section(sec)
            for k, v in kv.items():
                config.set(sec, k, str(v))

    kinds = {1: ("two_leaf_unit_bounding_potential_event_handler", "TwoLeafUnitBoundingPotentialEventHandler"),
             2: ("two_leaf_unit_cell_bounding_potential_event_handler", "TwoLeafUnitCellBoundingPotentialEventHandler"),
             3: ("leaf_unit_cell_veto_event_handler", "LeafUnitCellVetoEventHandler"),
             4: ("two_composite_object_summed_bounding_potential_event_handler", "TwoCompositeObjectSummedBoundingPotentialEventHandler"),
             5: ("two_composite_object_cell_bounding_potential_event_handler", "TwoCompositeObjectCellBoundingPotentialEventHandler"),
             6: ("composite_object_cell_veto_event_handler", "CompositeObjectCellVetoEventHandler")}
    cur = {"rec": None}
    counter = {"n": 0}
    MAXREC = 100000

    class RandomProxy:
        """the `random` module as seen from a handler module: same generator, `uniform` results are noted"""

        def __getattr__(self, name):
            return getattr(random, name)

        def uniform(self, a, b):
            u = random.uniform(a, b)
            r = cur["rec"]
            if r is not None:
                r["draws"].append((a, b, u))
            return u
    proxy = RandomProxy()

    def make_warning(orig):
        def warning(name, bound, real):
            r = cur["rec"]
            if r is not None:
                r["pairs"].append((bound, real))
            return orig(name, bound, real)
        return warning

    abst = importlib.import_module("jellyfysh.event_handler.abstracts.event_handler_with_bounding_potential")
    abst.random = proxy
    abst.bounding_potential_warning = make_warning(abst.bounding_potential_warning)
    base_cls = abst.EventHandlerWithBoundingPotential
    orig_calc = base_cls._calculate_out_state_of_two_leaf_unit_bounding_potential

    def calc(self, separation, potential_charges):
        r = cur["rec"]
        if r is not None:
            q = self._potential.derivative(self._active_leaf_unit.velocity, separation, *potential_charges)
            r["leafpair"] = (self._bounding_event_rate, q)
        return orig_calc(self, separation, potential_charges)
    base_cls._calculate_out_state_of_two_leaf_unit_bounding_potential = calc

    proposal = {}                # id(handler) -> bounding rate its pending candidate was proposed with
    from jellyfysh.potential.cell_bounding_potential import CellBoundingPotential
    orig_disp = CellBoundingPotential.displacement

    def displacement(self, *a, **k):
        out = orig_disp(self, *a, **k)
        if cur.get("sender") is not None:
            cur["sender_rate"] = self._bounding_event_rate
        return out
    CellBoundingPotential.displacement = displacement

    def wrap_time(cls):
        orig_t = cls.send_event_time

        @functools.wraps(orig_t)
        def send_event_time(self, *args):
            cur["sender"], cur["sender_rate"] = id(self), None
            try:
                return orig_t(self, *args)
            finally:
                proposal[id(self)] = cur.get("sender_rate")
                cur["sender"] = None
        cls.send_event_time = send_event_time

    def wrap(kind, cls):
        if kind in (2, 5):
            wrap_time(cls)
        orig = cls.send_out_state

        @functools.wraps(orig)      # the mediator reads the arity with inspect.signature
        def send_out_state(self, *args):
            if counter["n"] >= MAXREC:
                return orig(self, *args)
            units = list(self._leaf_units)
            if args and args[0] is not None:
                from jellyfysh.base.node import yield_leaf_nodes
                units += [c.value for c in yield_leaf_nodes(args[0])]
            before = [None if u.velocity is None else list(u.velocity) for u in units]
            rec = {"draws": [], "pairs": [], "leafpair": None}
            cur["rec"] = rec
            try:
                out = orig(self, *args)
            finally:
                cur["rec"] = None
            after = [None if u.velocity is None else list(u.velocity) for u in units]
            if kind <= 3:
                pair = rec["leafpair"]
            else:
                pair = rec["pairs"][0] if rec["pairs"] else None
            if pair is None:
                return out          # no event was proposed against a bound (target None / cell left)
            bp = getattr(self, "_bounding_potential", None)
            counter["n"] += 1
            print("REC " + json.dumps({
                "handler": cls.__name__, "kind": kind, "leaf": kind <= 3, "n": counter["n"],
                "bound": f2b(pair[0]), "true": f2b(pair[1]),
                "proposal_bound": (f2b(proposal[id(self)]) if kind in (2, 5) and proposal.get(id(self)) is not None else None),
                "draw": f2b(rec["draws"][0][2]) if rec["draws"] else None,
                "draw_args": [f2b(rec["draws"][0][0]), f2b(rec["draws"][0][1])] if rec["draws"] else None,
                "ndraws": len(rec["draws"]), "npairs": len(rec["pairs"]),
                "accepted": before != after, "velocity_changed": before != after,
                "one_over_r": isinstance(bp, InversePowerCoulombBoundingPotential),
                "L": f2b(hypercubic_setting.system_length)}))
            return out
        cls.send_out_state = send_out_state

    for kind, (mname, cname) in kinds.items():
        mod = importlib.import_module("jellyfysh.event_handler." + mname)
        if hasattr(mod, "random"):
            mod.random = proxy
        if hasattr(mod, "bounding_potential_warning"):
            mod.bounding_potential_warning = make_warning(mod.bounding_potential_warning)
        wrap(kind, getattr(mod, cname))

    factory.build_from_config(config, to_camel_case(config.get("Run", "setting")), "jellyfysh.setting")
    mediator = factory.build_from_config(config, to_camel_case(config.get("Run", "mediator")), "jellyfysh.mediator")
    try:
        mediator.run()
    except EndOfRun:
        pass
    sys.stdout.flush()
    print("DONE", counter["n"])


if __name__ == "__main__":
    main()
