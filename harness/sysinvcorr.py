"""Hypotheses of the joint system invariant (lean/JF/Props/SystemInv.lean) measured on recorded single-process runs of point-mass
configurations (one node level):
  * `CandOK` / `CandsOK`: every candidate time pushed in a leg is not before the commit time of the preceding leg
    (derived in Lean for the cell-boundary handler from `boundary_pos`; a hypothesis for every other handler);
  * `TieFree`: no sampling / dumping / end-of-run event is committed at exactly the time of a pending cell-boundary candidate
    (at such a tie C09's freshness fails in the exact reading, the theorem does not speak about that run): ties are COUNTED, they are
    not a defect of the code;
  * `TieFreeAll` (needed for the full occupancy invariant only): no event other than the cell-boundary event itself ties with it.
A violated `CandOK` is reported as a disagreement (the composed model's premise does not describe the code)."""
from harness import runs


def _key(t):
    return (t[0], t[1])


def check_trace(ctx, tr, cap=4000):
    meta = tr["meta"]
    job = tr.get("job") or {}
    if meta.get("levels") != 1 or meta.get("number_cores") or job.get("mp") or job.get("resume"):
        return 0
    kind_of = {t["tag"]: runs.tagger_kind(t) for t in meta["taggers"]}
    tag_of_handler = {}
    for t in meta["taggers"]:
        for h in t.get("pool", []):
            tag_of_handler[h] = t["tag"]
    pending = {}                      # handler -> candidate time (q, r) as floats
    last_commit = None
    n = 0
    for i, leg in enumerate(tr["legs"][:cap]):
        for h, t in leg["times"].items():
            tt = (float(t[0]), float(t[1]))
            pending[h] = tt
            if last_commit is not None and tt < last_commit and tt[0] == tt[0]:
                ctx.disagree("sysinv.CandOK (a pushed candidate time is before the preceding commit)",
                             {"ini": meta["ini"], "seed": meta["seed"], "leg": i, "handler": meta["handlers"][h][0], "job": job},
                             list(last_commit), list(tt))
        ch = leg["chosen"]
        ct = pending.get(ch)
        if ct is not None:
            ck = kind_of.get(tag_of_handler.get(ch), meta["handlers"][ch][0])
            for h, t in pending.items():
                if h == ch or t != ct:
                    continue
                hk = kind_of.get(tag_of_handler.get(h))
                if hk == "cellBoundary" or "CellBoundary" in meta["handlers"][h][0]:
                    ctx.count("sysinv:tie-with-pending-cell-boundary-candidate")
                    if "Sampling" in meta["handlers"][ch][0] or "Dumping" in meta["handlers"][ch][0] or "EndOfRun" in meta["handlers"][ch][0]:
                        ctx.count("sysinv:TieFree-hypothesis-not-met (quiet event at the crossing time)")
            last_commit = ct
        for h in leg["trashed"]:
            pending.pop(h, None)
        pending.pop(ch, None) if ch in leg["trashed"] else None
        n += 1
    ctx.count("sysinv:legs-judged", n)
    return n


def check_trace2(ctx, tr, w):
    """Hypotheses of the joint invariant for composite objects WITHOUT cells (lean/JF/Props/SystemInv2.lean) measured on a recorded
    single-process run of that world (`fpcorr2.supported2`, two node levels):
      * `CandsOK2`: every candidate time returned in a leg is a normalised finite time (integer quotient, remainder in [0, 1)) or `inf`,
        and is not before the commit time of the preceding leg;
      * no leg follows the end-of-run commit (`Reach2.step`'s `hgo`).
    The kind/mode part of the step relation (`Commits2`) is measured by `modecorr`, the yields by `fpcorr2`."""
    from harness import fpcorr2, fpcorr3
    meta = tr["meta"]
    job = tr.get("job") or {}
    with_cells = False
    if meta.get("levels") == 2 and not fpcorr2.supported2(w):
        try:
            with_cells = bool(fpcorr3.supported3(w))       # composite objects WITH cell systems: JF.Props.SystemInv3Loop (CandsOK3, TieFree3)
        except Exception:
            with_cells = False
    if meta.get("levels") != 2 or not (fpcorr2.supported2(w) or with_cells) or meta.get("number_cores") or job.get("mp") or job.get("resume"):
        return 0
    last_commit, pending, n, ended = None, {}, 0, False
    for i, leg in enumerate(tr["legs"][:4000]):
        case = {"ini": meta["ini"], "seed": meta["seed"], "leg": i, "job": job}
        if ended:
            ctx.disagree("sysinv2.no-leg-after-end-of-run", case, "run ended", "another leg")
            break
        for h, t in leg["times"].items():
            q, r = float(t[0]), float(t[1])
            pending[h] = (q, r)
            inf_ = q == float("inf")
            if not inf_ and not (q == int(q) and 0.0 <= r < 1.0):
                ctx.disagree("sysinv2.CandsOK2 (candidate time not normalised)", dict(case, handler=meta["handlers"][h][0]),
                             "integer quotient, remainder in [0,1)", [q, r])
            if last_commit is not None and (q, r) < last_commit:
                ctx.disagree("sysinv2.CandsOK2 (a pushed candidate time is before the preceding commit)",
                             dict(case, handler=meta["handlers"][h][0]), list(last_commit), [q, r])
        ch = leg["chosen"]
        if ch in pending:
            last_commit = pending[ch]
            if with_cells:
                # `TieFree3`: a commit at exactly the time of a pending cell-boundary candidate of a cell system the committing tagger
                # does not touch - COUNTED (the theorem does not speak about such a run), never a defect of the code
                for h2, t2 in pending.items():
                    if h2 != ch and t2 == last_commit and "CellBoundary" in meta["handlers"][h2][1]:
                        ctx.count("sysinv3:tie-with-pending-cell-boundary-candidate")
        if "EndOfRun" in meta["handlers"][ch][0]:
            ended = True
        for h in leg["trashed"]:
            pending.pop(h, None)
        n += 1
    ctx.count("sysinv3:legs-judged" if with_cells else "sysinv2:legs-judged", n)
    return n
