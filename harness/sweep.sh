#!/bin/sh
# background sweep (vp run): every check, several seeds, quick tier; then the thorough tier with one other seed
# usage: sh harness/sweep.sh "<quick seeds>" "<thorough seeds>"
cd "$(dirname "$0")/.."
ALL="C01 C02 C03 C04 C05 C06 C07 C08 C09 C10 C11 C12 C13 C14 C15 C16 C17 C18 C19 C20"
for s in $1; do for p in $ALL; do VERIF_SEED=$s ./check $p --tier quick 2>&1 | grep -v "^KNOWN-FINDING" | tail -2; done; done
for s in $2; do for p in $ALL; do VERIF_SEED=$s ./check $p --tier thorough 2>&1 | grep -v "^KNOWN-FINDING" | tail -2; done; done
