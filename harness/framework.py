"""Check runner shared by all properties.

One run =  fresh scratch copy of /repo (C rebuilt)  ->  translator (JF/Gen)  ->  `lake build` of the
property's theorem module + axiom audit  ->  correspondence / oracle run of the property module  ->
verdict (VIOLATION / KNOWN-FINDING lines)  ->  evidence file.

Exit codes: 0 property held on everything explored; 1 violation; 2 harness problem (never a verdict).
"""
import argparse, importlib, json, os, random, re, subprocess, sys, time, traceback, fcntl, hashlib

VERIF = os.path.dirname(os.path.dirname(os.path.abspath(__file__)))
LEAN = os.path.join(VERIF, "lean")
sys.path.insert(0, VERIF)
from harness import scratch, drive  # noqa: E402

ALLOWED_AXIOMS = {"propext", "Classical.choice", "Quot.sound"}
FORBIDDEN_SRC = re.compile(r"\bsorry\b|\badmit\b|^axiom\s|native_decide|bv_decide|implemented_by|"
                           r"\bunsafe\s|maxHeartbeats\s+0\b", re.M)


class Ctx:
    def __init__(self, pid, tier, seed, root):
        self.pid, self.tier, self.seed, self.root = pid, tier, seed, root
        self.rng = random.Random(seed)
        self.evaluations = 0
        self.classes = set()          # distinct non-trivial case classes
        self.hist = {}                # input-distribution histogram
        self.samples = []
        self.disagreements = []       # model vs implementation
        self.failures = []            # implementation violates the property oracle (concrete input)
        self.assumptions = []
        self.rule = ""
        self.traces = 0
        self.extra = {}
        self.notes = []

    quick = property(lambda s: s.tier == "quick")

    def n(self, quick, thorough):
        return quick if self.tier == "quick" else thorough

    def model(self, component, lines):
        return drive.model(component, lines)

    def count(self, key, k=1):
        self.hist[key] = self.hist.get(key, 0) + k

    def cls(self, key):
        self.classes.add(key)

    def sample(self, obj, cap=6):
        if len(self.samples) < cap:
            self.samples.append(obj)

    def disagree(self, corr, case, impl, model):
        """the model and the implementation differ on `case` (correspondence `corr`)"""
        if len(self.disagreements) < 200:
            self.disagreements.append({"correspondence": corr, "case": case, "impl": impl, "model": model})
        self.count("disagreement:" + corr)

    def fail(self, signature, case, what):
        """the *implementation* violates the property on the concrete `case`"""
        if len(self.failures) < 500:
            self.failures.append({"signature": signature, "case": case, "what": what})
        self.count("oracle-failure:" + signature)


def _lake(args, timeout=3600):
    env = dict(os.environ)
    return subprocess.run(["lake"] + args, cwd=LEAN, capture_output=True, text=True, timeout=timeout, env=env)


def _locked(fn):
    """serialise lake invocations of concurrently running checks"""
    os.makedirs(os.path.join(LEAN, ".lake"), exist_ok=True)
    with open(os.path.join(LEAN, ".lake", "verif.lock"), "w") as lk:
        fcntl.flock(lk, fcntl.LOCK_EX)
        try:
            return fn()
        finally:
            fcntl.flock(lk, fcntl.LOCK_UN)


AUDIT_TMPL = """import Lean.Elab.Command
import {module}
open Lean in
run_cmd do
  let env ← getEnv
  let some idx := env.getModuleIdx? `{module} | throwError "module not found"
  for n in env.header.moduleData[idx.toNat]!.constNames do
    if n.isInternal then continue
    match env.find? n with
    | some (.thmInfo _) =>
      let ax ← Lean.collectAxioms n
      IO.println s!"THEOREM {{n}} AXIOMS {{ax.toList}}"
    | _ => pure ()
"""


def strip_comments(src):
    src = re.sub(r"/-.*?-/", "", src, flags=re.S)
    return re.sub(r"--.*", "", src)


def imports_gen(modules):
    """does the import closure of the theorem modules contain a generated file (JF/Gen)? Then the translator has to run first."""
    todo, seen = list(modules), set()
    while todo:
        m = todo.pop()
        if m in seen:
            continue
        seen.add(m)
        fp = os.path.join(LEAN, *m.split(".")) + ".lean"
        if os.path.exists(fp):
            todo += re.findall(r"^import\s+(JF\.[\w.]+)", open(fp).read(), re.M)
    return any(m.startswith("JF.Gen.") for m in seen)


def prove(modules, components=(), pre=None, recheck=False):
    """build the theorem modules; return dict(ok, theorems=[(name, axioms)], errors=[...]).
    `pre` (the translator) runs under the same lock as the build, so that a concurrently running check of another tree cannot
    regenerate JF/Gen between this check's translation and its build."""
    out = {"ok": True, "theorems": [], "errors": [],
           "cmd": "cd lean && lake build " + " ".join(["jf_" + c for c in components] + list(modules))}

    def work():
        if pre is not None:
            try:
                pre()
            except Exception as e:  # a source the translator cannot read is a broken tie, not a harness crash
                out["ok"] = False
                out["errors"].append(f"translator failed: {e!r}")
        p = _lake(["build"] + ["jf_" + c for c in components] + list(modules))
        if p.returncode != 0:
            out["ok"] = False
            out["errors"].append("lake build failed:\n" + (p.stdout + p.stderr)[-6000:])
            return
        for m in modules:
            tmp = os.path.join(LEAN, ".lake", f"audit_{m.replace('.', '_')}_{os.getpid()}.lean")
            with open(tmp, "w") as f:
                f.write(AUDIT_TMPL.format(module=m))
            q = _lake(["env", "lean", tmp])
            os.unlink(tmp)
            if q.returncode != 0:
                out["ok"] = False
                out["errors"].append(f"audit of {m} failed:\n" + (q.stdout + q.stderr)[-3000:])
                continue
            for line in q.stdout.splitlines():
                mm = re.match(r"THEOREM (\S+) AXIOMS \[(.*)\]", line)
                if mm and not re.search(r"\.(eq_\d+|eq_def|congr_simp|sizeOf_spec|injEq|inj)$", mm.group(1)):
                    axs = [a.strip() for a in mm.group(2).split(",") if a.strip()]
                    out["theorems"].append((mm.group(1), axs))
                    bad = [a for a in axs if a not in ALLOWED_AXIOMS]
                    if bad:
                        out["ok"] = False
                        out["errors"].append(f"theorem {mm.group(1)} depends on non-standard axioms {bad}")
        if recheck and out["ok"]:
            # thorough tier: the toolchain's independent re-checker replays every declaration of the compiled theorem modules
            q = _lake(["env", "leanchecker"] + list(modules))
            txt = (q.stdout + q.stderr).strip()
            out["leanchecker"] = {"cmd": "lake env leanchecker " + " ".join(modules), "exit": q.returncode, "output": txt[-500:]}
            if q.returncode != 0 or "uncaught exception" in txt or "error" in txt.lower():
                out["ok"] = False
                out["errors"].append("leanchecker rejected the compiled theorem modules:\n" + txt[-3000:])
    _locked(work)
    # source grep over the import closure of the theorem modules and driver components (comments stripped):
    # no sorry/admit/axiom/native_decide … in anything the obligations or the model executables depend on
    todo = list(modules) + ["Driver." + c.capitalize() if c != "mp" else "Driver.MP" for c in components]
    seen = set()
    while todo:
        m = todo.pop()
        if m in seen:
            continue
        seen.add(m)
        fp = os.path.join(LEAN, *m.split(".")) + ".lean"
        if not os.path.exists(fp):
            continue
        raw = open(fp).read()
        src = strip_comments(raw)
        hit = FORBIDDEN_SRC.search(src)
        if hit:
            out["ok"] = False
            out["errors"].append(f"forbidden token {hit.group(0)!r} in {fp}")
        for mm in re.finditer(r"^import\s+((?:JF|Driver)\.[\w.]+)", raw, re.M):
            todo.append(mm.group(1))
    out["sources_audited"] = sorted(seen)
    return out


def load_known():
    """known_findings.json (merged file) and known_findings/<id>.json (per property)"""
    out = []
    p = os.path.join(VERIF, "known_findings.json")
    if os.path.exists(p):
        out += json.load(open(p)).get("findings", [])
    d = os.path.join(VERIF, "known_findings")
    if os.path.isdir(d):
        for fn in sorted(os.listdir(d)):
            if fn.endswith(".json"):
                out += json.load(open(os.path.join(d, fn)))
    seen, res = set(), []
    for k in out:
        key = (k.get("property"), k.get("signature"), k.get("status"))
        if key not in seen:
            seen.add(key); res.append(k)
    return res


def jsonable(o):
    """make anything a property module hands us JSON-serialisable (tuple keys, sets, floats incl. inf/nan)"""
    if isinstance(o, dict):
        return {(k if isinstance(k, (str, int, float, bool)) or k is None else str(k)): jsonable(v) for k, v in o.items()}
    if isinstance(o, (list, tuple, set, frozenset)):
        return [jsonable(x) for x in o]
    if isinstance(o, float):
        return o if o == o and abs(o) != float("inf") else repr(o)
    if isinstance(o, (str, int, bool)) or o is None:
        return o
    return str(o)


OTHER_TREE = os.path.realpath(os.environ.get("VERIF_REPO", "/repo")) != os.path.realpath("/repo")


def write_evidence(pid, ev):
    # evidence/ describes runs against /repo itself; a run against another tree (VERIF_REPO, the seeded-defect study) writes elsewhere
    sub = "evidence_other" if OTHER_TREE else "evidence"
    os.makedirs(os.path.join(VERIF, sub), exist_ok=True)
    p = os.path.join(VERIF, sub, f"{pid}.json")
    tmp = p + f".{os.getpid()}.tmp"
    with open(tmp, "w") as f:
        json.dump(jsonable(ev), f, indent=1)
    os.replace(tmp, p)


def write_replay(pid, seed, obj):
    d = os.path.join(VERIF, "replays")
    os.makedirs(d, exist_ok=True)
    obj = jsonable(obj)
    h = hashlib.sha1(json.dumps(obj, sort_keys=True).encode()).hexdigest()[:10]
    p = os.path.join(d, f"{pid}_{seed}_{h}.json")
    with open(p, "w") as f:
        json.dump(obj, f, indent=1)
    return p


def main(argv=None):
    ap = argparse.ArgumentParser()
    ap.add_argument("pid")
    ap.add_argument("--tier", default=os.environ.get("VERIF_TIER", "quick"), choices=["quick", "thorough"])
    ap.add_argument("--replay")
    a = ap.parse_args(argv)
    pid = a.pid.upper()
    seed = int(os.environ.get("VERIF_SEED", "0"))
    t0 = time.time()
    mod = importlib.import_module(f"harness.props.{pid.lower()}")

    sdir, root, berr = scratch.make_scratch()
    try:
        if berr:
            print(f"HARNESS-ERROR: C extension build failed in scratch copy: {berr}", file=sys.stderr)
            return 2
        sys.path.insert(0, root)
        os.environ["PYTHONPATH"] = root + os.pathsep + VERIF
        os.environ["JELLYFYSH_VERIF"] = "1"
        import logging, warnings
        logging.disable(logging.CRITICAL)
        warnings.simplefilter("ignore")
        import jellyfysh
        assert os.path.realpath(jellyfysh.__file__).startswith(os.path.realpath(root)), jellyfysh.__file__
        ctx = Ctx(pid, a.tier, seed, root)

        # translator: regenerate JF/Gen from the scratch copy
        tmods = getattr(mod, "THEOREM_MODULES", [f"JF.Props.{pid}"])
        pre = None
        if getattr(mod, "NEEDS_GEN", False) or imports_gen(tmods):
            from harness import translate
            pre = lambda: translate.regenerate(root)
        proof = prove(tmods, getattr(mod, "COMPONENTS", ()), pre, recheck=(a.tier == "thorough"))

        if a.replay:
            case = json.load(open(a.replay))
            r = mod.replay(ctx, case) if hasattr(mod, "replay") else None
            print(json.dumps({"replay": a.replay, "result": r}, indent=1, default=str))
            return 0

        crashed = None
        try:
            mod.run(ctx)
        except Exception:
            crashed = traceback.format_exc()

        known = [k for k in load_known() if k.get("property") == pid]
        known_sigs = {k["signature"]: k for k in known if k.get("status") == "known"}
        seen_known, new_fail = {}, []
        for f in ctx.failures:
            if f["signature"] in known_sigs:
                seen_known.setdefault(f["signature"], f)
            else:
                new_fail.append(f)
        for sig, f in seen_known.items():
            print(f"KNOWN-FINDING: property={pid} {known_sigs[sig]['what']} [{sig}]")

        violations = 0
        if new_fail:
            by_sig = {}
            for f in new_fail:
                by_sig.setdefault(f["signature"], f)
            for sig, f in by_sig.items():
                rp = write_replay(pid, seed, {"property": pid, "kind": "failing-input", "seed": seed,
                                              "tier": a.tier, **f})
                print(f"VIOLATION property={pid} replay={rp}")
                violations += 1
        elif (not proof["ok"]) or ctx.disagreements or crashed:
            obj = {"property": pid, "kind": "no-failing-input-found", "seed": seed, "tier": a.tier,
                   "proof_errors": proof["errors"], "disagreements": ctx.disagreements[:20],
                   "harness_exception": crashed,
                   "names": ([f"theorem module(s) {getattr(mod, 'THEOREM_MODULES', ['JF.Props.' + pid])}"]
                             if not proof["ok"] else []) +
                            sorted({"correspondence " + d["correspondence"] for d in ctx.disagreements}) +
                            (["correspondence run raised an exception on the implementation"] if crashed else [])}
            rp = write_replay(pid, seed, obj)
            print(f"VIOLATION property={pid} replay={rp} no-failing-input-found")
            violations += 1

        thms = proof["theorems"]
        axioms = sorted({a_ for _, axs in thms for a_ in axs})
        ev = {
            "property_id": pid, "tier": a.tier, "seed": seed, "level": "proof",
            "coverage": {
                "obligations": max(1, len(thms)),
                "discharged": len(thms) if proof["ok"] else 0,
                "checker_cmd": proof["cmd"] + "  (+ #print-axioms audit of every theorem in the module via Lean.collectAxioms)",
                "trusted_base": ["Lean 4.33.0 kernel", "axioms used: " + (", ".join(axioms) or "none"),
                                 "hand-written model tied to /repo by the correspondence run below",
                                 "harness/framework.py, harness/drive.py, lean/Driver/Main.lean"] +
                                list(getattr(mod, "TRUSTED", [])),
                "theorems": [n for n, _ in thms],
                **({"leanchecker": proof["leanchecker"]} if "leanchecker" in proof else {}),
                "evaluations": ctx.evaluations,
                "distinct_nontrivial": len(ctx.classes),
                "rule": ctx.rule,
                "samples": ctx.samples or [{"note": "no correspondence sample recorded"}],
                "traces_validated_against_impl": ctx.traces,
                "input_distribution": dict(sorted(ctx.hist.items())),
                "disagreements": len(ctx.disagreements),
                "oracle_failures_known": sorted(seen_known),
                "oracle_failures_new": len(new_fail),
                **ctx.extra,
            },
            "assumptions": ctx.assumptions + list(getattr(mod, "ASSUMPTIONS", [])),
            "wall_s": round(time.time() - t0, 2),
            "violations": violations,
        }
        if ctx.notes:
            ev["coverage"]["notes"] = ctx.notes
        write_evidence(pid, ev)
        print(f"{pid} tier={a.tier} seed={seed}: theorems={len(thms)} proof_ok={proof['ok']} "
              f"evaluations={ctx.evaluations} classes={len(ctx.classes)} disagreements={len(ctx.disagreements)} "
              f"oracle_failures={len(ctx.failures)} (known {len(seen_known)}) wall={ev['wall_s']}s")
        if crashed and not violations:
            print(crashed, file=sys.stderr)
        return 1 if violations else 0
    finally:
        scratch.remove_scratch(sdir)
        if OTHER_TREE:
            # the generated files of another tree must not stay behind in /verif (they are tracked; the committed ones are /repo's)
            try:
                _locked(lambda: subprocess.run(["git", "-C", VERIF, "checkout", "--", "lean/JF/Gen"], capture_output=True))
            except Exception:
                pass


if __name__ == "__main__":
    try:
        sys.exit(main())
    except SystemExit:
        raise
    except Exception:
        traceback.print_exc()
        sys.exit(2)
