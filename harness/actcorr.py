"""Shared helpers of the checks C09 and C08 (TagActivator model `jf_act`, translator self-check, trace replay,
run-level evaluation of the hypotheses of the Lean theorems, failing-input search for broken wirings)."""
import os, re
from collections import Counter
from harness import translate, runs, runcommon

DUMMY = "1 1 1 999999"     # a yield fed for DEACTIVATED taggers: the model itself must suppress it


# ------------------------------------------------------------------------------------------------------------------
# wire format

def enc_tuple(ids):
    if ids is None:
        return "N"
    if len(ids) == 0:
        return "E"
    return ";".join(".".join(str(x) for x in i) for i in ids)


def req_tuple(ids):
    if ids is None:
        return "N"
    return " ".join([str(len(ids))] + [" ".join([str(len(i))] + [str(x) for x in i]) for i in ids])


def commas(l):
    return ",".join(str(x) for x in l) if l else "-"


def wiring_lines(w):
    out = [f"wbegin {w['name'] or 'harness'} {len(w['labels'])}"]
    for t in w["taggers"]:
        def nl(k):
            return " ".join([str(len(t[k]))] + [str(x) for x in t[k]])
        lab = "-" if t["label_idx"] is None else str(t["label_idx"])
        out.append(f"tagger {t['tag']} {t['lean_cls']} {t['handler_cls']} {t['kind']} {lab} {t['pool']} "
                   f"{nl('creates_idx')} {nl('trashes_idx')} {nl('activates_idx')} {nl('deactivates_idx')}")
    out.append("wend")
    return out


def py_dump(w):
    """the same rendering as `dumpW` of lean/JF/Driver/Act.lean"""
    items = []
    for t in w["taggers"]:
        lab = "-" if t["label_idx"] is None else str(t["label_idx"])
        items.append(f"{t['tag']} {t['lean_cls']} {t['handler_cls']} {t['kind']} {t['pool']} {lab} "
                     f"c:{commas(t['creates_idx'])} t:{commas(t['trashes_idx'])} a:{commas(t['activates_idx'])} d:{commas(t['deactivates_idx'])}")
    return f"{w['name']} labels={','.join(w['labels'])} ; " + " ; ".join(items)


# ------------------------------------------------------------------------------------------------------------------
# translator / generated Lean data

def check_generated(ctx):
    """(i) the Lean data compiled into the driver (JF/Gen/Wirings.lean) is what the translator reads from the tree under test;
    (ii) `WiringSound` of every shipped configuration, evaluated by the driver (so the check can tell WHICH configuration
    broke when a generated `cfg_sound_*` obligation fails). returns (wirings by ini, {cfg name: report} of broken ones)"""
    try:
        ws = translate.all_wirings(ctx.root)
    except translate.TranslationError as e:
        ctx.disagree("act.translator", {"error": str(e)}, "translatable .ini files", "TranslationError")
        return {}, {}
    lines = []
    for w in ws:
        lines += [f"dump {w['name']}", f"sound {w['name']}"]
    rep = ctx.model("act", lines)
    broken = {}
    for k, w in enumerate(ws):
        d, s = rep[2 * k], rep[2 * k + 1]
        ctx.count("generated-wiring-checked")
        if d != py_dump(w):
            ctx.disagree("act.generated-wiring (driver built from a stale or different JF/Gen/Wirings.lean)",
                         {"cfg": w["name"], "ini": w["ini"]}, py_dump(w), d)
        if not s.startswith("ok"):
            broken[w["name"]] = {"ini": w["ini"], "report": s}
            ctx.count("wiring-unsound:" + w["name"])
    return {w["ini"]: w for w in ws}, broken


_alias = re.compile(r"(\w+)(?: \((\w+)\))?")


def _split_alias(name):
    m = _alias.fullmatch(name)
    return (name, name) if m is None else (m.group(1), m.group(2) or m.group(1))


def real_kind(bases):
    for base, kind in translate.KIND_BY_BASE:
        if base in bases:
            return kind
    if any(b.startswith(translate.INTERACTION_PREFIXES) for b in bases):
        return "interaction"
    return "unknown"


def wiring_of_trace(ctx, tree, tr):
    """the translator's reading of the configuration this trace was run with (ini + the job's overrides)"""
    job = tr["job"]
    ini = job["ini"] if os.path.isabs(job["ini"]) else os.path.join(ctx.root, "jellyfysh", job["ini"])
    config = translate.read_config(ini, job.get("overrides"), text=job.get("ini_text"))
    return translate.wiring_of_config(tree, config, translate.cfg_name(job["ini"]), job["ini"])


def check_translation(ctx, tr, w):
    """translator vs the REAL TagActivator the factory built in the traced subprocess (`meta["taggers"]`)"""
    meta = tr["meta"]
    case = {"ini": meta["ini"], "job": tr.get("job")}
    mine = []
    for t in w["taggers"]:
        mine.append({"tag": t["tag"], "section": t["section"], "cls": t["cls"], "handler_section": t["handler_section"],
                     "handler_cls": t["handler_cls"], "kind": t["kind"], "creates": t["creates"], "trashes": t["trashes"],
                     "activates": t["activates"], "deactivates": t["deactivates"], "pool": t["pool"], "label": t["label"]})
    real = []
    for t in meta["taggers"]:
        sec, cls = _split_alias(t["cls"])
        hsec, hcls = _split_alias(t["handler_cls"])
        real.append({"tag": t["tag"], "section": sec, "cls": cls, "handler_section": hsec, "handler_cls": hcls,
                     "kind": real_kind(t["handler_bases"]), "creates": list(t["creates"]), "trashes": list(t["trashes"]),
                     "activates": list(t["activates"]), "deactivates": list(t["deactivates"]), "pool": t["n_handlers"],
                     "label": t["internal_state_label"]})
    ok = True
    if len(mine) != len(real):
        ctx.disagree("act.translator-vs-factory", {**case, "what": "number of taggers"}, len(real), len(mine))
        return False
    for a, b in zip(real, mine):
        for k in a:
            # an unaliased section is reported by the factory as the bare class name
            if a[k] != b[k] and not (k in ("section", "handler_section") and a[k] in (b["cls"], b["handler_cls"])):
                ok = False
                ctx.disagree("act.translator-vs-factory", {**case, "tagger": a["tag"], "field": k}, a[k], b[k])
    for t in meta["taggers"]:
        if translate.ORACLE_KIND.get(real_kind(t["handler_bases"]), "other") != runs.tagger_kind(t):
            ok = False
            ctx.disagree("act.kind-vs-oracle-kind", {**case, "tagger": t["tag"]}, runs.tagger_kind(t), real_kind(t["handler_bases"]))
    blocks = [t["tag"] for t in meta["taggers"] for _ in range(t["n_handlers"])]
    if blocks != [h[0] for h in meta["handlers"]]:
        ok = False
        ctx.disagree("act.handler-numbering", case, [h[0] for h in meta["handlers"]], blocks)
    ctx.count("translation-checked")
    return ok


# ------------------------------------------------------------------------------------------------------------------
# replay of a recorded run in the Lean activator model

def replay(ctx, tr, w, cap):
    """feed the model the preceding handler and the recorded yields of every leg; compare created list (handler ids and
    order), running lists, activated flags after every `get_event_handlers_to_run`, and the trash list (order) after every
    commit. returns (footprint table reply, soundw reply)"""
    meta = tr["meta"]
    tags = [t["tag"] for t in meta["taggers"]]
    lines = wiring_lines(w) + ["soundw", "fp"]
    n0 = len(lines)
    expect, info = [], []
    legs = tr["legs"][:cap]
    for i, leg in enumerate(legs):
        ys = []
        usable = True
        for tag in tags:
            fr = leg["fresh"][tag]
            if isinstance(fr, str):
                usable = False
                break
            if not leg["activated"][tag]:
                ys.append(DUMMY)
                if fr:
                    ctx.disagree("act.deactivated-tagger-yields", {"ini": meta["ini"], "leg": i, "tagger": tag}, [], fr)
            else:
                ys.append(" ".join([str(len(fr))] + [req_tuple(x) for x in fr]))
        if not usable:
            ctx.count("replay:stopped-at-unreadable-yield")
            break
        pre = leg.get("preceding")
        lines.append(f"run {'-' if pre is None else pre} " + " ".join(ys))
        cs = " ".join(f"{h}={enc_tuple(ids)}" for h, ids in leg["created"]) or "-"
        expect.append(f"ok {cs} | " + " ".join(commas(leg["pending"][tag]) for tag in tags) + " | " +
                      "".join("1" if leg["activated"][tag] else "0" for tag in tags))
        info.append((i, "run"))
        last = i == len(tr["legs"]) - 1
        if last and str(tr["end"]).startswith("exc:"):
            break    # the run raised somewhere after this commit: the trash list may be incomplete
        lines.append(f"trash {leg['chosen']}")
        expect.append("ok " + commas(leg["trashed"]))
        info.append((i, "trash"))
    rep = ctx.model("act", lines)
    hdr = rep[n0 - 3]
    if not hdr.startswith("ok"):
        ctx.disagree("act.protocol", {"ini": meta["ini"], "reply": hdr}, "ok", hdr)
    nh = len(meta["handlers"])
    if hdr.split()[:3] != ["ok", str(len(tags)), str(nh)]:
        ctx.disagree("act.pool-layout", {"ini": meta["ini"]}, f"ok {len(tags)} {nh}", hdr)
    bad = 0
    for (i, what), exp, got, line in zip(info, expect, rep[n0:], lines[n0:]):
        ctx.count("replay:" + what)
        if exp != got:
            bad += 1
            if bad <= 2:
                ctx.disagree("act." + ("get_event_handlers_to_run" if what == "run" else "get_trashable_events"),
                             {"ini": meta["ini"], "seed": meta["seed"], "leg": i, "request": line[:2000], "job": tr.get("job")}, exp, got)
            break   # later states depend on this one
    return rep[n0 - 1], rep[n0 - 2]


def parse_fp(w, reply):
    out = {}
    for t, item in zip(w["taggers"], reply.split()):
        tag, bits, dis = item.split(":")
        assert tag == t["tag"], (tag, t["tag"])
        out[tag] = {"ident": bits[0] == "1", "motion": bits[1] == "1", "ids_view": bits[2] == "1", "motion_bound": bits[3] == "1",
                    "disjoint": {u["tag"]: d == "1" for u, d in zip(w["taggers"], dis)}}
    return out


# ------------------------------------------------------------------------------------------------------------------
# the hypotheses of the Lean theorems, evaluated on the real run

def _view(fp, tag, fresh):
    if fp[tag]["ids_view"]:
        return Counter(fresh)
    return len(fresh)


def off_trajectory(a, b, L, tol):
    """did the unit change its velocity or leave its straight line between snapshots a and b? (C08's notion)"""
    p0, v0, t0, _ = a
    p1, v1, t1, _ = b
    if v0 != v1:
        return True
    if v0 is None:
        return p0 != p1
    dt = float(runs.tval(t1) - runs.tval(t0))
    return not all(runs.modclose(x, y, l, tol) for x, y, l in zip(runs.advance(p0, v0, dt, L), p1, L))


def check_steps(ctx, tr, w, fp, which):
    """StepOK (C09) / clause (h) (C08) and the declared effect footprints, on every recorded commit.
    A failure here means a hypothesis of the induction does not hold for the implementation (reported as a disagreement of
    the named correspondence); whether the PROPERTY fails is decided by the oracles on the same trace."""
    meta = tr["meta"]
    L = meta["system_lengths"]
    tol = 1e-11 * max(L)
    tw = {t["tag"]: t for t in w["taggers"]}
    tags = [t["tag"] for t in w["taggers"]]
    legs = tr["legs"]
    pre = tr["initial"]
    nbad = Counter()

    def bad(name, case, exp, got):
        nbad[name] += 1
        if nbad[name] <= 2:
            ctx.disagree(name, {"ini": meta["ini"], "seed": meta["seed"], "job": tr.get("job"), **case}, exp, got)
    for i, leg in enumerate(legs):
        etag = meta["handlers"][leg["chosen"]][0]
        e = tw[etag]
        post = leg["post"]
        # --- declared effects vs what the commit did
        mov0 = {k for k, v in pre.items() if v[1] is not None}
        mov1 = {k for k, v in post.items() if v[1] is not None}
        ident_changed = mov0 != mov1
        motion_changed = any(off_trajectory(pre[u], post[u], L, tol) for u in leg["out"])
        ctx.count(f"effect:{e['kind']}:ident={int(ident_changed)},motion={int(motion_changed)}")
        if ident_changed and not fp[etag]["ident"]:
            bad("act.footprint-ident", {"leg": i, "handler": meta["handlers"][leg["chosen"]]}, "active identities unchanged", sorted(map(str, mov0 ^ mov1)))
        if motion_changed and not fp[etag]["motion"]:
            bad("act.footprint-motion", {"leg": i, "handler": meta["handlers"][leg["chosen"]]}, "no unit changes its motion", "a unit left its trajectory")
        # --- clause (h) on the run: a motion-changing commit trashes every pending interaction / cell-veto event
        if which == "C08" and fp[etag]["motion"]:
            tr_set = set(leg["trashed"])
            for tag in tags:
                if fp[tag]["motion_bound"]:
                    left = [h for h in leg["pending"][tag] if h not in tr_set]
                    if left:
                        bad("act.stepok-h", {"leg": i, "committing": etag, "tagger": tag}, "all pending handlers trashed", left)
            ctx.count("stepok-h-evaluated")
        # --- StepOK on the run (needs the next leg's record = the state after this commit)
        if which == "C09" and i + 1 < len(legs) and e["kind"] != "endOfRun":
            nxt = legs[i + 1]
            for tag in tags:
                t = tw[tag]
                if t["kind"] == "startOfRun":
                    continue
                f0, f1 = leg["fresh"][tag], nxt["fresh"][tag]
                if isinstance(f0, str) or isinstance(f1, str):
                    continue
                cr, trh = tag in e["creates"], tag in e["trashes"]
                if i == 0:
                    if not cr and len(f1):
                        bad("act.start-ok", {"tagger": tag}, "created by the start-of-run tagger or yields nothing", f"{len(f1)} fresh")
                    continue
                if cr and not trh and leg["pending"][tag]:
                    bad("act.stepok-a", {"leg": i, "committing": etag, "tagger": tag}, "no pending handler before the create", leg["pending"][tag])
                if trh and not cr and len(f1):
                    bad("act.stepok-b", {"leg": i, "committing": etag, "tagger": tag}, "trashed tagger yields nothing afterwards", f"{len(f1)} fresh")
                if not cr and not trh and _view(fp, tag, f0) != _view(fp, tag, f1):
                    bad("act.stepok-c", {"leg": i, "committing": etag, "tagger": tag, "declared_disjoint": fp[etag]["disjoint"][tag]},
                        sorted(map(str, f0)), sorted(map(str, f1)))
            ctx.count("stepok-evaluated")
        pre = post
    return sum(nbad.values())


# ------------------------------------------------------------------------------------------------------------------
# failing-input search for a broken generated obligation

def extra_search(ctx, broken, oracle, base_jobs):
    """`broken` = {cfg name: {ini, report}}: run each such configuration with 3 more seeds and a larger leg cap and evaluate the
    property oracle on the traces"""
    if not broken:
        return
    jobs = []
    for name, b in broken.items():
        template = next((j for j in base_jobs if j["ini"] == b["ini"]), None)
        for k in range(3):
            ov = {"FinalTimeEndOfRunEventHandler": {"end_of_run_time": ctx.n(200, 1000)}}
            jobs.append({"ini": b["ini"], "seed": ctx.seed * 1000 + 900 + k, "max_legs": ctx.n(20000, 100000), "kind": "search", "overrides": ov})
        # more particles make missing factors / surplus occupants visible
        if template is not None and "coulomb_atoms" in b["ini"]:
            for k in range(3):
                n = 6 + 3 * k
                ov = {"FinalTimeEndOfRunEventHandler": {"end_of_run_time": 30}, "RandomInputHandler": {"number_of_root_nodes": n}}
                for sec in ("Coulomb", "CoulombNearby", "CoulombSurplus", "CoulombCellBounding"):
                    ov[sec] = {"number_event_handlers": 4 * n}
                if "cell" in b["ini"]:
                    ov["CuboidPeriodicCells"] = {"cells_per_side": "4, 4, 4"}
                jobs.append({"ini": b["ini"], "seed": ctx.seed * 1000 + 950 + k, "max_legs": ctx.n(20000, 100000), "kind": "search", "overrides": ov})
    import configparser
    for j in jobs:   # only override sections the configuration has
        cp = configparser.ConfigParser()
        cp.read(os.path.join(ctx.root, "jellyfysh", j["ini"]))
        j["overrides"] = {s: kv for s, kv in j["overrides"].items() if cp.has_section(s)}
    trs = runs.run_jobs(ctx.root, jobs)
    for tr in trs:
        if not tr["legs"]:
            ctx.count("search-trace-failed:" + str(tr["end"])[:40])
            continue
        stats = {}
        oracle(tr, ctx.fail, stats)
        ctx.count("search-trace")
        ctx.evaluations += len(tr["legs"])


# ------------------------------------------------------------------------------------------------------------------
# unit level: the REAL TagActivator with programmable stub taggers vs the model, on random wirings and operation sequences
# (duplicate tags in the lists, taggers that do not trash themselves, exhausted pools, deactivation: the branches the
# shipped configurations never reach)

def unit_level(ctx, ncases):
    from jellyfysh.activator.tag_activator import TagActivator
    from jellyfysh.activator.tagger.tagger import Tagger
    from jellyfysh.event_handler.event_handler import EventHandler
    from jellyfysh.event_handler.abstracts import StartOfRunEventHandler
    from jellyfysh.base.exceptions import TagActivatorError
    rng = ctx.rng

    class H(EventHandler):
        def send_event_time(self):
            return None

        def send_out_state(self):
            return None

    class SH(StartOfRunEventHandler):
        def send_event_time(self):
            return None

        def send_out_state(self):
            return None

    class StubTagger(Tagger):
        def __init__(self, create, trash, handler, n, tag, activate, deactivate):
            super().__init__(create, trash, handler, number_event_handlers=n, tag=tag, activate=activate, deactivate=deactivate)

        def yield_identifiers_send_event_time(self, state):
            yield from state[self._tag]

    def rand_list(n, allow_dup):
        k = rng.choice([0, 1, 1, 2, 2, 3, 4])
        l = [rng.randrange(n) for _ in range(k)]
        if not allow_dup:
            l = list(dict.fromkeys(l))
        return l

    def rand_tuple():
        c = rng.random()
        if c < 0.2:
            return None
        if c < 0.25:
            return ()
        return tuple(tuple(rng.randrange(5) for _ in range(rng.choice([1, 1, 2]))) for _ in range(rng.choice([1, 2, 2, 3])))

    lines, expect, info = [], [], []
    for case in range(ncases):
        n = rng.randint(2, 5)
        start = rng.randrange(n)
        dup = rng.random() < 0.2
        spec = []
        for k in range(n):
            tr = rand_list(n, dup)
            if rng.random() < 0.95 and k not in tr:
                tr.insert(rng.randrange(len(tr) + 1), k)
            spec.append({"tag": f"t{k}", "creates": rand_list(n, dup), "trashes": tr, "activates": rand_list(n, dup),
                         "deactivates": rand_list(n, dup)[:rng.choice([1, 1, 2])] if rng.random() < 0.3 else [],
                         "neh": 1 if k == start else rng.choice([0, 1, 2, 3, 4, 6, 8, 12])})
        taggers = [StubTagger([f"t{i}" for i in s["creates"]], [f"t{i}" for i in s["trashes"]], SH() if k == start else H(), s["neh"],
                              s["tag"], [f"t{i}" for i in s["activates"]], [f"t{i}" for i in s["deactivates"]])
                   for k, s in enumerate(spec)]
        act = TagActivator(taggers)
        act.initialize([])
        handlers = list(act.get_event_handlers())
        hid = {id(h): i for i, h in enumerate(handlers)}
        w = {"name": f"unit{case}", "labels": [], "taggers": [
            {"tag": s["tag"], "lean_cls": "factorTypeMap", "handler_cls": "Stub", "kind": "startOfRun" if k == start else "interaction",
             "label_idx": None, "pool": len(taggers[k].get_event_handlers()), "creates_idx": s["creates"], "trashes_idx": s["trashes"],
             "activates_idx": s["activates"], "deactivates_idx": s["deactivates"]} for k, s in enumerate(spec)]}
        wl = wiring_lines(w)
        lines += wl
        expect += [None] * (len(wl) - 1) + [f"ok {n} {len(handlers)} {start}"]
        info += [(case, "wiring", spec)] * len(wl)

        def state_str():
            return (" ".join(commas([hid[id(h)] for h in act._running_event_handlers[t]]) for t in taggers) + " | " +
                    "".join("0" if t.__dict__.get("yield_identifiers_send_event_time") is t._deactivated_yield_identifiers_send_event_time
                            else "1" for t in taggers))
        pre = None
        for step in range(rng.randint(2, 14)):
            ys = {s["tag"]: [rand_tuple() for _ in range(rng.choice([0, 1, 1, 1, 2, 3]))] for s in spec}
            req = f"run {'-' if pre is None else hid[id(pre)]} " + " ".join(
                " ".join([str(len(ys[s['tag']]))] + [req_tuple(x) for x in ys[s["tag"]]]) for s in spec)
            try:
                r = act.get_event_handlers_to_run(ys, pre)
                cs = " ".join(f"{hid[id(h)]}={enc_tuple(ids)}" for h, ids in r.items()) or "-"
                exp = f"ok {cs} | " + state_str()
            except TagActivatorError:
                exp = "err:TagActivatorError"
            except AssertionError:
                exp = "err:AssertionError"
            lines.append(req); expect.append(exp); info.append((case, step, spec))
            ctx.count("unit:run:" + exp.split()[0])
            if exp.startswith("err"):
                break      # the real object is left half-updated by the exception; the run is over
            # commit by a pending handler (mostly) or by any handler
            running = [h for t in taggers for h in act._running_event_handlers[t]]
            if not running and rng.random() < 0.8:
                break
            pre = rng.choice(running) if running and rng.random() < 0.95 else rng.choice(handlers)
            try:
                tl = act.get_trashable_events(pre)
                exp = "ok " + commas([hid[id(h)] for h in tl])
            except AssertionError:
                exp = "err:AssertionError"
            lines.append(f"trash {hid[id(pre)]}"); expect.append(exp); info.append((case, step, spec))
            ctx.count("unit:trash:" + exp.split()[0])
            lines.append("state"); expect.append(state_str()); info.append((case, step, spec))
        ctx.cls(("unit", n, dup, len(handlers)))
    rep = ctx.model("act", lines)
    bad = set()
    for line, exp, got, inf in zip(lines, expect, rep, info):
        if exp is not None and exp != got and inf[0] not in bad:
            bad.add(inf[0])
            if len(bad) <= 3:
                ctx.disagree("act.unit-level (real TagActivator with stub taggers)", {"wiring": inf[2], "step": inf[1], "request": line}, exp, got)
    ctx.evaluations += len(lines)
    ctx.count("unit:cases", ncases)
