"""C04, piecewise-constant bounding family (called from harness/props/c04.py: `c04_piecewise.run(ctx)`).

The two real classes

    TwoLeafUnitEventHandlerWithPiecewiseConstantBoundingPotential
    FixedSeparationsEventHandlerWithPiecewiseConstantBoundingPotential

are driven through SEQUENCES of candidates on one handler object (send_event_time, [send_out_state], send_event_time, …)
with a mocked `Potential` (scripted derivative values, floats and sequences), a mocked `Lifting`, the real `setting`, and
`random` replaced in the two handler modules' namespaces; the Lean model `JF.Model.PiecewiseBounding` (component `pcb`,
binary64 reading) replays every object call for call.  Compared token for token: returned event time, the cache
`_bounding_event_rate` after every call, every recorded call of the potential (velocity, separations, charges), the
upper limit handed to `random.uniform`, confirmed?, warning, every `lifting.insert`, the complete state.

Oracle on the implementation (for every call):
 (a) cache discipline after `send_event_time`: with b = max(q_now, q_ahead) + offset (binary64),
     cache == b  <=>  0 < b and E / b < max_displacement ;  cache is None  <=>  relocation;
     returned time == time stamp + (E / b | max_displacement); `expovariate` asked with `setting.beta`;
     no velocity changed;
 (b) `send_out_state`: relocation => nothing changes; proposal => uniform drawn over [0, b] with that very b,
     confirmed <=> draw < max(0, q); unconfirmed => nothing changes; confirmed => the velocity moves from the active leaf
     unit to exactly one other leaf unit (the one the lifting scheme names).
"""
import copy, math, time
from harness.drive import f2b, b2f

TINY = 1e-13
NAMES = {0: "TwoLeafUnitEventHandlerWithPiecewiseConstantBoundingPotential",
         1: "FixedSeparationsEventHandlerWithPiecewiseConstantBoundingPotential"}
MODULES = {0: "jellyfysh.event_handler.two_leaf_unit_event_handler_with_piecewise_constant_bounding_potential",
           1: "jellyfysh.event_handler.fixed_separations_event_handler_with_piecewise_constant_bounding_potential"}
CH = "q"


def nxt(x, k=1):
    for _ in range(abs(k)):
        x = math.nextafter(x, math.inf if k > 0 else -math.inf)
    return x


class FakeRandom:
    """stand-in for the `random` module inside the two handler modules"""

    def __init__(self):
        self.mode, self.val, self.E = "d", 0.0, 1.0
        self.ucalls, self.ecalls = [], []

    def uniform(self, a, b):
        self.ucalls.append((a, b))
        if self.mode == "d":
            return self.val
        return a + (b - a) * self.val      # CPython Lib/random.py

    def expovariate(self, lambd):
        self.ecalls.append(lambd)
        return self.E

    def random(self):
        return self.val


class RecPot:
    """records (copied) arguments of `derivative(velocity, *separations, *charges)`, returns queued values"""

    def __init__(self, mock_obj):
        self.values, self.calls = [], []
        mock_obj.derivative.side_effect = self

    def __call__(self, velocity, *rest):
        seps = [list(x) for x in rest if isinstance(x, (list, tuple))]
        chs = [x for x in rest if not isinstance(x, (list, tuple))]
        self.calls.append((list(velocity) if velocity is not None else [], seps, chs))
        if not self.values:
            raise RuntimeError("mock potential called more often than scripted")
        return self.values.pop(0)


# ---- encodings (the same token format as lean/JF/Driver/Pcb.lean) -----------------------------------------------------

def enc_unit(u):
    t = [str(len(u.identifier))] + [str(i) for i in u.identifier]
    t += [str(len(u.position))] + [f2b(x) for x in u.position]
    t += [f2b(u.charge[CH]) if u.charge else f2b(0.0)]
    if u.velocity is not None:
        t += ["1", str(len(u.velocity))] + [f2b(x) for x in u.velocity]
        t += [f2b(u.time_stamp.quotient), f2b(u.time_stamp.remainder)]
    else:
        t += ["0"]
    return t


def enc_root(n):
    t = enc_unit(n.value) + [f2b(n.weight), str(len(n.children))]
    for c in n.children:
        t += enc_unit(c.value) + [f2b(c.weight)]
    return t


def enc_deriv(d):
    if isinstance(d, (list, tuple)):
        return ["t", str(len(d))] + [f2b(x) for x in d]
    return ["s", f2b(d)]


def show_list(l):
    return [str(len(l))] + [f2b(x) for x in l]


def show_unit(u):
    t = ["U", str(len(u.identifier))] + [str(i) for i in u.identifier]
    t += [str(len(u.position))] + [f2b(x) for x in u.position]
    t += (["V", str(len(u.velocity))] + [f2b(x) for x in u.velocity]) if u.velocity is not None else ["N"]
    t += ["T", f2b(u.time_stamp.quotient), f2b(u.time_stamp.remainder)] if u.time_stamp is not None else ["N"]
    return t


def show_state(st):
    t = []
    for r in st:
        t += ["R", str(len(r.children))] + show_unit(r.value)
        for c in r.children:
            t += show_unit(c.value)
    return t


def show_calls(calls):
    t = ["C", str(len(calls))]
    for v, seps, chs in calls:
        t += show_list(v) + [str(len(seps))]
        for s in seps:
            t += show_list(s)
        t += show_list(chs)
    return t


def opt(tag, x):
    return tag + (f2b(x) if x is not None else "-")


def flat_units(st):
    out = []
    for r in st:
        out.append(r.value)
        out += [c.value for c in r.children]
    return out


def leaves(st):
    out = []
    for r in st:
        out += [c.value for c in r.children] if r.children else [r.value]
    return out


def snapshot(st):
    return [(tuple(u.identifier), [f2b(x) for x in u.position], None if u.velocity is None else [f2b(x) for x in u.velocity],
             None if u.time_stamp is None else (f2b(u.time_stamp.quotient), f2b(u.time_stamp.remainder)))
            for u in flat_units(st)]


def impl_evt(t_ret, cache, calls, state):
    return " ".join(["ok", "T", f2b(t_ret.quotient), f2b(t_ret.remainder), opt("B", cache)] + show_calls(calls) + ["S"] + show_state(state))


def impl_out(changed, warned, ucalls, cache, calls, ins, out):
    return " ".join(["ok", "1" if changed else "0", "1" if warned else "0", opt("G", ucalls[0][1] if ucalls else None), opt("B", cache)]
                    + show_calls(calls) + ["I", str(len(ins))]
                    + [t for dd_, ident, active in ins
                       for t in [f2b(dd_), str(len(ident))] + [str(i) for i in ident] + ["1" if active else "0"]]
                    + ["S"] + show_state(out))


# ---- generators --------------------------------------------------------------------------------------------------------

def gen_evt_values(rng, offset, dmax, prev_cache):
    """(q_now, q_ahead, E, regime): every branch of the displacement routine and the boundary E/b ~ max_displacement"""
    c = rng.random()
    mag = rng.choice([1.0, 0.3, 7.0, rng.uniform(0.01, 20.0), 2.0 ** rng.uniform(-20, 10)])
    order = rng.random()

    def pair(top):
        """two derivatives whose maximum is `top`"""
        other = rng.choice([top, nxt(top, -1), top - rng.uniform(0, 2) * mag, -abs(top) - mag, -0.0 if top == 0 else top])
        if other > top:
            other = top
        return (top, other) if order < 0.5 else (other, top)

    if c < 0.12:                                    # bound negative
        top = -offset - rng.uniform(0, 2) * mag - (1e-9 if offset == 0 else 0.0)
        q1, q2 = pair(top)
        return q1, q2, rng.expovariate(1.0), "b<0"
    if c < 0.22:                                    # bound exactly zero (or -0.0): `<= 0.0` is closed
        top = -offset if offset != 0 else rng.choice([0.0, -0.0])
        q1, q2 = pair(top)
        if max(q1, q2) + offset != 0:
            return q1, q2, rng.expovariate(1.0), "b<0"
        return q1, q2, rng.choice([rng.expovariate(1.0), 0.0]), "b=0"
    top = rng.choice([mag, mag, -offset / 2 if offset > 0 else mag, rng.uniform(0, 1) * mag, 0.0 if offset > 0 else mag])
    q1, q2 = pair(top)
    b = max(q1, q2) + offset
    if not b > 0:
        return q1, q2, rng.expovariate(1.0), "b<0" if b < 0 else "b=0"
    if c < 0.30:
        return q1, q2, 0.0, "E=0"
    if c < 0.55:
        return q1, q2, rng.random() * dmax * b * 0.98, "proposal"
    if c < 0.70:
        return q1, q2, dmax * b * rng.uniform(1.02, 5.0), "relocation"
    # the boundary: E / b just below / at / above max_displacement (classified by the division the handler makes)
    E0 = dmax * b
    cands = [nxt(E0, k) for k in range(-3, 4)]
    want = rng.choice(["below", "at", "above"])
    sel = [E for E in cands if (E / b < dmax if want == "below" else E / b == dmax if want == "at" else E / b > dmax)]
    if not sel:
        sel = cands
    E = sel[-1] if want == "below" else sel[0]
    tag = "E/b<dmax by ulps" if E / b < dmax else "E/b==dmax" if E / b == dmax else "E/b>dmax by ulps"
    return q1, q2, E, tag


def gen_out_values(rng, b):
    """(true derivative at the new position, regime) relative to the bounding rate b (a stand-in when nothing is cached)"""
    c = rng.random()
    if c < 0.12:
        return -rng.uniform(0, 2) * b, "q<0"
    if c < 0.2:
        return rng.choice([0.0, -0.0]), "q=0"
    if c < 0.62:
        return rng.random() * b or b / 2, "0<q<b"
    if c < 0.7:
        return b, "q=b"
    if c < 0.78:
        return nxt(b, rng.choice([-1, 1])), "q=b+-ulp"
    return b * rng.uniform(1.0001, 3), "q>b"


def gen_draw(rng, b, q):
    thr = max(0.0, q)
    c = rng.random()
    if c < 0.12:
        return "d", 0.0, "0"
    if c < 0.24:
        return "d", thr, "thr"
    if c < 0.34:
        return "d", nxt(thr, -1) if thr > 0 else 0.0, "thr-ulp"
    if c < 0.44:
        return "d", nxt(thr, 1), "thr+ulp"
    if c < 0.5:
        return "d", b, "bound"
    if c < 0.65:
        return "d", rng.random() * b, "inner"
    if c < 0.7:
        return "r", 0.0, "r=0"
    if c < 0.75:
        return "r", 1.0 - 2.0 ** -53, "r=1-eps"
    if c < 0.9 and b > 0 and 0 < thr < b:
        return "r", min(max(nxt(thr / b, rng.randint(-2, 2)), 0.0), 1.0 - 2.0 ** -53), "r~thr/b"
    return "r", rng.random(), "r"


# ---- the run -----------------------------------------------------------------------------------------------------------

def run(ctx):
    from unittest import mock
    import importlib
    import jellyfysh.setting as setting
    from jellyfysh.setting import hypercubic_setting
    from jellyfysh.base.node import Node
    from jellyfysh.base.unit import Unit
    from jellyfysh.base.time import Time
    from jellyfysh.potential import Potential
    from jellyfysh.lifting import Lifting
    import jellyfysh.base.exceptions as jexc

    t_start = time.time()
    rng = ctx.rng
    ctx.rule += (" (4) piecewise-constant bounding family: seeded SEQUENCES of candidates on one real handler object (two-leaf / "
                 "fixed-separations class; atoms, molecules, one molecule with shared root; charges or not; offset 0, >0, <0; "
                 "send_event_time regimes b<0|b=0|E=0|proposal|relocation|E/b below/at/above max_displacement by ulps, q_now <,=,> "
                 "q_ahead, float or sequence derivative; send_out_state regimes q<0|q=0|0<q<b|q=b|q=b+-ulp|q>b and a positive-"
                 "derivative bait after every kind of relocation; in-states fresh or continued from the last out-state); distinct = "
                 "(class, call, regime, order of the two derivatives, form, previous candidate of the object, outcome, shape)")
    ctx.assumptions += [
        "piecewise-constant bounding family: LocalBound (the true derivative on the stretch [0, max_displacement] is at most "
        "max(q_now, q_ahead) + offset) is a HYPOTHESIS of stretch_sound_partial: it is a property of the configured potential, "
        "offset and max_displacement, not of the handler code, and is neither proved nor searched for here",
        "piecewise-constant bounding family: the integral form (survival of the thinned process = exp(-beta * integral of max(0,q))) "
        "is not formalised; proved are the cache discipline for every history, the decision kernel, the acceptance probability "
        "(Lebesgue measure) and the pointwise identity proposal rate x acceptance = beta * max(0, q)",
        "piecewise-constant bounding family: a unit with a velocity carries a time stamp and positions/velocities have "
        "setting.dimension entries (Unit invariants of the state handler); branches of depth <= 2",
    ]
    mods = {k: importlib.import_module(m) for k, m in MODULES.items()}
    classes = {k: getattr(mods[k], NAMES[k]) for k in NAMES}
    fake = FakeRandom()
    saved = {k: mod.random for k, mod in mods.items()}
    for mod in mods.values():
        mod.random = fake
    warn_records = []

    class LogStub:
        def warning(self, msg, *a, **k):
            warn_records.append(msg)
    old_logger = jexc._logger
    jexc._logger = LogStub()

    lines, impl, metas = [], [], []        # one entry per request line of the model session
    n_objects = ctx.n(1200, 12000)
    groups = [(L, dim, beta) for L in (1.0, 2.5, 0.7) for dim in (3, 2) for beta in (1.0, 0.5)]
    per_group = max(1, n_objects // len(groups))

    def fail(sig, meta, what):
        ctx.fail("pcb:" + NAMES[meta["kind"]] + ":" + sig,
                 {"session": meta["session"], "handler": NAMES[meta["kind"]], "call": meta["call"], "beta": meta["beta"],
                  **meta["values"]}, what)

    try:
        for (L, dim, beta) in groups:
            setting.reset()
            hypercubic_setting.HypercubicSetting(beta=beta, dimension=dim, system_length=L)
            setting.set_number_of_root_nodes(4)
            setting.set_number_of_nodes_per_root_node(3)
            setting.set_number_of_node_levels(2)
            for _ in range(per_group):
                kind = rng.randrange(2)
                offset = rng.choice([0.0, 0.1, 0.05, 10.0, -0.05, rng.uniform(0, 3)])
                dmax = rng.choice([0.1, 0.2, 0.05, rng.uniform(0.01, 0.6) * L])
                if kind == 0:
                    nleaf, seps = 2, []
                    use_charge = rng.random() < 0.5
                    ncharge = 2 if use_charge else rng.choice([0, 0, 2, 1])
                else:
                    nleaf = rng.choice([3, 3, 4])
                    seps = [1, 0, 1, 2] if nleaf == 3 else [0, 1, 1, 2, 2, 3]
                    use_charge = False
                    ncharge = rng.choice([0, 2, 1])
                shape = rng.choice(["atoms", "molecules", "one-molecule"])
                pot = mock.MagicMock(spec_set=Potential)
                pot.number_separation_arguments = 1 if kind == 0 else len(seps) // 2
                pot.number_charge_arguments = ncharge
                rec = RecPot(pot)
                lifting = mock.MagicMock(spec_set=Lifting)
                ins = []
                lifting.insert.side_effect = lambda dd, ident, active: ins.append((dd, tuple(ident), bool(active)))
                try:
                    if kind == 0:
                        h = classes[0](potential=pot, offset=offset, max_displacement=dmax, charge=CH if use_charge else None)
                    else:
                        h = classes[1](potential=pot, lifting=lifting, offset=offset, max_displacement=dmax, separations=seps)
                except Exception as e:  # noqa
                    ctx.fail("pcb:" + NAMES[kind] + ":constructor", {"kind": kind, "offset": offset, "max_displacement": dmax},
                             f"constructor raised {e!r}")
                    continue
                session = ["new %d %s %d %s %s %s %d %d %d%s" % (kind, f2b(L), dim, f2b(TINY), f2b(offset), f2b(dmax), use_charge, ncharge,
                                                                   len(seps), "".join(" %d" % s for s in seps))]
                lines.append(session[0])
                impl.append("ok")
                metas.append(None)

                def pos():
                    return [rng.random() * L if rng.random() < 0.9 else rng.choice([0.0, nxt(L, -1), L / 2]) for _ in range(dim)]

                def charge():
                    return {CH: rng.choice([1.0, -1.0, 0.5, -2.0, rng.uniform(-2, 2)])} if use_charge else None

                def fresh_state(bad):
                    """an in-state as the tree state handler extracts it: one branch per leaf unit"""
                    d = rng.randrange(dim)
                    speed = rng.choice([1.0, 1.0, 0.5, 2.0, rng.uniform(0.1, 3)])
                    v = [0.0] * dim
                    v[d] = speed * rng.choice([1.0, 1.0, -1.0])
                    if rng.random() < 0.15:
                        v = [rng.uniform(-1, 1) for _ in range(dim)]
                    t0 = rng.choice([0.0, rng.uniform(0, 10), float(rng.randint(0, 2 ** 40)) + rng.random()])
                    n = nleaf + (1 if bad == "leafcount" else 0)
                    act = rng.randrange(n)
                    acts = {act} | ({(act + 1) % n} if bad == "two-active" else set())
                    if bad == "no-active":
                        acts = set()
                    roots = []
                    if shape == "atoms":
                        ids = rng.sample(range(12), n)
                        for i in range(n):
                            a = i in acts
                            roots.append(Node(Unit(identifier=(ids[i],), position=pos(), charge=charge(),
                                                   velocity=list(v) if a else None, time_stamp=Time.from_float(t0) if a else None),
                                              weight=1))
                    else:
                        ids = rng.sample(range(12), n) if shape == "molecules" else [rng.randrange(12)] * n
                        w = rng.choice([0.5, 1.0 / 3.0, 0.25, 1.0])
                        rw = rng.choice([1, 1, 1, 0.5])
                        moving = shape == "one-molecule" and bool(acts)
                        rpos = pos()
                        for i in range(n):
                            a = i in acts
                            rm = a or moving
                            ru = Unit(identifier=(ids[i],), position=list(rpos) if shape == "one-molecule" else pos(),
                                      charge={CH: 0.0} if use_charge else None,
                                      velocity=[x * w for x in v] if rm else None, time_stamp=Time.from_float(t0) if rm else None)
                            root = Node(ru, weight=rw)
                            root.add_child(Node(Unit(identifier=(ids[i], i), position=pos(), charge=charge(),
                                                     velocity=list(v) if a else None, time_stamp=Time.from_float(t0) if a else None),
                                                weight=w))
                            roots.append(root)
                    return roots

                ncand = rng.choice([1, 2, 3, 4, 5, 6, 8])
                prev = "fresh"             # what the previous candidate of this object was
                carry = None
                dead = False
                for ci in range(ncand):
                    if dead:
                        break
                    # ------------------------------------------------------------------ send_event_time
                    bad = None
                    if rng.random() < 0.02:
                        bad = rng.choice(["two-active", "no-active", "leafcount", "short-tuple"])
                        if bad == "leafcount" and kind == 1:
                            bad = "two-active"
                    if carry is not None and bad is None and rng.random() < 0.55:
                        in_state = carry               # the trajectory goes on from the last out-state / candidate state
                        origin = "continued"
                    else:
                        in_state = fresh_state(bad)
                        origin = "fresh"
                    lv = leaves(in_state)
                    act_list = [i for i, u in enumerate(lv) if u.velocity is not None]
                    ai = act_list[0] if act_list else 0
                    q1, q2, E, regime = gen_evt_values(rng, offset, dmax, prev)
                    form = rng.choice(["s", "s", "t"]) if kind == 0 else rng.choice(["t", "t", "t", "s"])

                    def wrapd(q, form=form, n=len(lv), ai=ai):
                        if form == "s":
                            return q
                        l = [rng.choice([rng.uniform(-3, 3), q, -q]) for _ in range(n)]
                        l[ai] = q
                        return l
                    d1, d2 = wrapd(q1), wrapd(q2)
                    if bad == "short-tuple":
                        d1 = [] if ai == 0 else [0.3] * ai
                    line = " ".join(["evt", f2b(E), str(len(in_state))] + [t for r in in_state for t in enc_root(r)]
                                    + enc_deriv(d1) + enc_deriv(d2))
                    session = session + [line]
                    vel_before = [None if u.velocity is None else [f2b(x) for x in u.velocity] for u in flat_units(in_state)]
                    ts = copy.copy(lv[ai].time_stamp) if act_list else None
                    fake.E, fake.ecalls, fake.ucalls = E, [], []
                    rec.values, rec.calls = [d1, d2], []
                    exc = None
                    try:
                        t_ret = h.send_event_time(in_state)
                    except AssertionError:
                        exc = "AssertionError"
                    except Exception as e:  # noqa
                        exc = type(e).__name__
                    cache = h._bounding_event_rate
                    if exc is not None:
                        s = "err:" + exc
                    else:
                        s = impl_evt(t_ret, cache, rec.calls, h._state)
                    meta = {"kind": kind, "session": session, "call": "send_event_time", "regime": regime, "beta": beta,
                            "values": {"q_now": q1, "q_ahead": q2, "offset": offset, "max_displacement": dmax, "E": E,
                                       "E_hex": float(E).hex(), "previous_candidate": prev}}
                    lines.append(line)
                    impl.append(s)
                    metas.append(meta)
                    ctx.evaluations += 1
                    # ---- oracle (a)
                    if exc is not None:
                        if bad is None:
                            fail("unexpected-exception", meta, f"send_event_time raised {exc}")
                        ctx.cls(("pcb", kind, "evt-error", bad, exc))
                        ctx.count("pcb:evt:error")
                        dead = True
                        continue
                    if bad in ("two-active", "no-active", "leafcount"):
                        # not reachable through the mediator; the model says AssertionError, the comparison below decides
                        dead = True
                    bf = max(q1, q2) + offset
                    is_prop = bool(bf > 0 and E / bf < dmax)
                    exp_t = ts + (E / bf if is_prop else dmax)
                    if fake.ecalls != [setting.beta]:
                        fail("budget-not-exponential-with-rate-beta", meta, f"random.expovariate called with {fake.ecalls}, beta is {setting.beta}")
                    if is_prop and cache is None:
                        fail("proposal-without-cached-rate", meta,
                             f"E/b = {E / bf!r} < max_displacement = {dmax!r} with b = {bf!r} > 0, but the bounding rate is not cached "
                             "(the proposed event can never be confirmed)")
                    elif is_prop and f2b(cache) != f2b(bf):
                        fail("cached-rate-is-not-max-of-the-two-derivatives-plus-offset", meta,
                             f"cached bounding rate {cache!r}, max(q_now, q_ahead) + offset = {bf!r}")
                    elif not is_prop and cache is not None:
                        fail("relocation-with-cached-rate", meta,
                             f"relocation (b = {bf!r}, E/b = {(E / bf if bf else math.inf)!r}, max_displacement = {dmax!r}) but "
                             f"_bounding_event_rate = {cache!r} (previous candidate: {prev})")
                    if (f2b(t_ret.quotient), f2b(t_ret.remainder)) != (f2b(exp_t.quotient), f2b(exp_t.remainder)):
                        fail("event-time-is-not-stamp-plus-displacement", meta,
                             f"returned {t_ret!r}, time stamp + {'E/b' if is_prop else 'max_displacement'} = {exp_t!r}")
                    vel_after = [None if u.velocity is None else [f2b(x) for x in u.velocity] for u in flat_units(h._state)]
                    if vel_after != vel_before:
                        fail("send_event_time-changed-a-velocity", meta, "a velocity differs after send_event_time")
                    ctx.count("pcb:evt:" + ("proposal" if cache is not None else "relocation"))
                    ctx.cls(("pcb", kind, "evt", regime, "q1<q2" if q1 < q2 else "q1>q2" if q1 > q2 else "q1=q2", form, prev,
                             cache is not None, shape, origin))
                    now = "proposal" if is_prop else "relocation"
                    # ------------------------------------------------------------------ send_out_state (not always: a
                    # candidate that loses in the scheduler is simply replaced by the next one)
                    if rng.random() < (0.75 if prev != "proposal" or is_prop else 0.95):
                        bref = cache if cache is not None else (bf if bf > 0 else rng.choice([1.0, abs(bf) + 0.5]))
                        if not is_prop and rng.random() < 0.6:
                            q, qreg = abs(bref) * rng.uniform(0.5, 3), "q>0 bait"      # a stale cache would confirm this
                            mode, dv, dcls = "d", 0.0, "0"
                        else:
                            q, qreg = gen_out_values(rng, bref)
                            mode, dv, dcls = gen_draw(rng, bref, q)
                        lv = leaves(h._state)
                        obad = None
                        if rng.random() < 0.03:
                            obad = rng.choice(["wrong-form", "short-tuple", "lift-active", "lift-unknown"])
                            if kind == 0 and obad.startswith("lift"):
                                obad = None
                        dform = "s" if kind == 0 else "t"
                        if obad == "wrong-form":
                            dform = "t" if kind == 0 else "s"
                        if dform == "s":
                            dd = q
                        else:
                            dd = [rng.choice([rng.uniform(-3, 3), 0.0, -q]) for _ in range(len(lv))]
                            dd[ai] = q
                            if obad == "short-tuple":
                                dd = dd[:max(ai + 1, len(lv) - 1)] if ai + 1 < len(lv) else dd[:ai]
                        others = [u.identifier for i, u in enumerate(lv) if i != ai]
                        next_id = tuple(rng.choice(others))
                        if obad == "lift-active":
                            next_id = tuple(lv[ai].identifier)
                        elif obad == "lift-unknown":
                            next_id = (99, 99)
                        lifting.get_active_identifier.return_value = next_id
                        line = " ".join(["out"] + enc_deriv(dd) + [mode, f2b(dv), str(len(next_id))] + [str(i) for i in next_id])
                        session = session + [line]
                        before = snapshot(h._state)
                        fake.mode, fake.val, fake.ucalls = mode, dv, []
                        rec.values, rec.calls = [dd], []
                        del ins[:]
                        del warn_records[:]
                        exc = None
                        try:
                            out = h.send_out_state()
                        except AssertionError:
                            exc = "AssertionError"
                        except Exception as e:  # noqa
                            exc = type(e).__name__
                        cache2 = h._bounding_event_rate
                        after = snapshot(h._state)
                        changed = after != before
                        if exc is not None:
                            s = "err:" + exc
                        elif out is not h._state:
                            s = "ok-but-foreign-state"
                        else:
                            s = impl_out(changed, bool(warn_records), fake.ucalls, cache2, rec.calls, ins, out)
                        meta = {"kind": kind, "session": session, "call": "send_out_state", "regime": regime, "beta": beta,
                                "values": {"candidate": now, "bounding_rate": bf if is_prop else None, "true_derivative": q,
                                           "draw_mode": mode, "draw": dv, "draw_hex": float(dv).hex(), "lifting_answer": list(next_id)}}
                        lines.append(line)
                        impl.append(s)
                        metas.append(meta)
                        ctx.evaluations += 1
                        # ---- oracle (b)
                        outcome = "err" if exc else "relocated" if not is_prop else "accept" if changed else "reject"
                        ctx.count("pcb:out:" + outcome)
                        ctx.cls(("pcb", kind, "out", now, prev, qreg, dcls, outcome, bool(warn_records), shape))
                        if exc is not None:
                            legit = is_prop and (obad in ("wrong-form", "short-tuple") or (obad in ("lift-active", "lift-unknown") and kind == 1))
                            if not legit:
                                fail("unexpected-exception", meta, f"send_out_state raised {exc}")
                            dead = True
                            continue
                        if not is_prop:
                            if changed:
                                fail("relocation-but-state-changed", meta,
                                     f"the candidate was a relocation (previous candidate: {prev}), yet send_out_state changed units "
                                     f"(true derivative {q!r}, uniform calls {fake.ucalls})")
                        elif obad is None:
                            if fake.ucalls:
                                a, bb = fake.ucalls[0]
                                if a != 0 or f2b(bb) != f2b(bf) or len(fake.ucalls) != 1:
                                    fail("uniform-not-over-[0,bounding-rate]", meta,
                                         f"random.uniform called with {fake.ucalls}; the event was proposed with rate {bf!r}")
                            elif q > 0:
                                fail("no-uniform-drawn", meta, "true rate positive but no uniform number was drawn")
                            draw = dv if mode == "d" else 0 + (bf - 0) * dv
                            want = q > 0 and draw < q
                            if changed != want:
                                fail("acceptance-not-exact-ratio", meta,
                                     f"confirmed={changed} but draw {draw!r} {'<' if want else '>='} max(0, true rate) = {max(0.0, q)!r} "
                                     f"(bounding rate {bf!r})")
                            if changed:
                                ids = [b4[0] for b4, af in zip(before, after) if b4[2] != af[2] and len(b4[0]) == len(lv[ai].identifier)]
                                lost = [b4[0] for b4, af in zip(before, after) if b4[2] is not None and af[2] is None
                                        and len(b4[0]) == len(lv[ai].identifier)]
                                gained = [b4[0] for b4, af in zip(before, after) if b4[2] is None and af[2] is not None
                                          and len(b4[0]) == len(lv[ai].identifier)]
                                tgt = next_id if kind == 1 else tuple(others[0])
                                if lost != [tuple(lv[ai].identifier)] or gained != [tgt] or len(ids) != 2:
                                    fail("confirmed-but-not-a-transfer", meta, f"leaf units that lost/gained a velocity: {lost}/{gained}")
                        prev = "confirmed" if changed else now
                    else:
                        prev = now
                    carry = None
                    if rng.random() < 0.8 and len([u for u in leaves(h._state) if u.velocity is not None]) == 1:
                        carry = copy.deepcopy(h._state)
        # ---- the model replays the whole session
        rep = ctx.model("pcb", lines)
        for line, s, r, m in zip(lines, impl, rep, metas):
            if s != r:
                name = NAMES[m["kind"]] if m else "constructor"
                ctx.disagree("pcb.%s[%s]" % (m["call"] if m else "new", name),
                             {"session": m["session"] if m else [line], "regime": m["regime"] if m else None}, s[:700], r[:700])
            if m is not None:
                ctx.sample({"request": line[:260] + " …", "impl": s[:220] + " …", "model": r[:220] + " …"}, cap=6)
        ctx.count("pcb:handler-objects", sum(1 for m in metas if m is None))
    finally:
        for k, mod in mods.items():
            mod.random = saved[k]
        jexc._logger = old_logger
        setting.reset()
    ctx.extra["pcb_wall_s"] = round(time.time() - t_start, 1)


# ---- replay of a recorded failing input ---------------------------------------------------------------------------------

class _Toks:
    def __init__(self, line):
        self.t, self.i = line.split(), 0

    def tok(self):
        self.i += 1
        return self.t[self.i - 1]

    def n(self):
        return int(self.tok())

    def f(self):
        return b2f(self.tok())

    def fl(self):
        return [self.f() for _ in range(self.n())]


def replay(ctx, case):
    """Re-run the recorded session (`case["session"]`: the request lines from `new` on) on the real class of the current
    tree and on the model; returns, per call, the implementation's and the model's reply and the cache discipline / decision
    facts observed on the implementation.  (To be called from harness/props/c04.py:replay for cases that carry "session".)"""
    from unittest import mock
    import importlib
    import jellyfysh.setting as setting
    from jellyfysh.setting import hypercubic_setting
    from jellyfysh.base.node import Node
    from jellyfysh.base.unit import Unit
    from jellyfysh.base.time import Time
    from jellyfysh.potential import Potential
    from jellyfysh.lifting import Lifting
    c = case.get("case", case)
    session = c["session"]
    t = _Toks(session[0])
    assert t.tok() == "new"
    kind, L, dim, _tiny, offset, dmax, use_charge, ncharge = t.n(), t.f(), t.n(), t.f(), t.f(), t.f(), t.n() == 1, t.n()
    seps = [t.n() for _ in range(t.n())]
    mod = importlib.import_module(MODULES[kind])
    fake, saved = FakeRandom(), mod.random
    mod.random = fake
    setting.reset()
    hypercubic_setting.HypercubicSetting(beta=c.get("beta", 1.0), dimension=dim, system_length=L)
    setting.set_number_of_root_nodes(4)
    setting.set_number_of_nodes_per_root_node(3)
    setting.set_number_of_node_levels(2)

    def unit(t):
        ident = tuple(t.n() for _ in range(t.n()))
        pos = t.fl()
        ch = t.f()
        if t.n() == 1:
            v = t.fl()
            ts = Time(t.f(), t.f())
        else:
            v, ts = None, None
        return Unit(identifier=ident, position=pos, charge={CH: ch} if use_charge else None, velocity=v, time_stamp=ts)

    def deriv(t):
        return t.f() if t.tok() == "s" else t.fl()

    out = []
    try:
        pot = mock.MagicMock(spec_set=Potential)
        pot.number_separation_arguments = 1 if kind == 0 else len(seps) // 2
        pot.number_charge_arguments = ncharge
        rec = RecPot(pot)
        lifting = mock.MagicMock(spec_set=Lifting)
        ins = []
        lifting.insert.side_effect = lambda dd, ident, active: ins.append((dd, tuple(ident), bool(active)))
        cls = getattr(mod, NAMES[kind])
        h = (cls(potential=pot, offset=offset, max_displacement=dmax, charge=CH if use_charge else None) if kind == 0 else
             cls(potential=pot, lifting=lifting, offset=offset, max_displacement=dmax, separations=seps))
        rep = ctx.model("pcb", session)
        for line, mrep in zip(session[1:], rep[1:]):
            t = _Toks(line)
            op = t.tok()
            facts = {}
            try:
                if op == "evt":
                    E = t.f()
                    roots = []
                    for _ in range(t.n()):
                        u = unit(t)
                        root = Node(u, weight=t.f())
                        for _ in range(t.n()):
                            cu = unit(t)
                            root.add_child(Node(cu, weight=t.f()))
                        roots.append(root)
                    d1, d2 = deriv(t), deriv(t)
                    fake.E, fake.ecalls = E, []
                    rec.values, rec.calls = [d1, d2], []
                    lv = leaves(roots)
                    ai = ([i for i, u in enumerate(lv) if u.velocity is not None] or [0])[0]
                    t_ret = h.send_event_time(roots)
                    s = impl_evt(t_ret, h._bounding_event_rate, rec.calls, h._state)
                    q1 = d1[ai] if isinstance(d1, list) else d1
                    q2 = d2[ai] if isinstance(d2, list) else d2
                    bf = max(q1, q2) + offset
                    is_prop = bool(bf > 0 and E / bf < dmax)
                    facts = {"b=max(q_now,q_ahead)+offset": bf, "E/b": (E / bf if bf else None), "max_displacement": dmax,
                             "genuine_proposal": is_prop, "cache_after_call": h._bounding_event_rate,
                             "cache_discipline_holds": (h._bounding_event_rate is not None) == is_prop
                             and (not is_prop or f2b(h._bounding_event_rate) == f2b(bf))}
                else:
                    dd = deriv(t)
                    mode, dv = t.tok(), t.f()
                    next_id = tuple(t.n() for _ in range(t.n()))
                    lifting.get_active_identifier.return_value = next_id
                    before = snapshot(h._state)
                    fake.mode, fake.val, fake.ucalls = mode, dv, []
                    rec.values, rec.calls = [dd], []
                    del ins[:]
                    o = h.send_out_state()
                    changed = snapshot(h._state) != before
                    s = impl_out(changed, False, fake.ucalls, h._bounding_event_rate, rec.calls, ins, o).split()
                    s[2] = mrep.split()[2] if len(mrep.split()) > 2 else s[2]      # the warning flag is not re-observed here
                    s = " ".join(s)
                    facts = {"confirmed": changed, "uniform_calls": fake.ucalls, "last_candidate_was_proposal": is_prop}
            except AssertionError:
                s = "err:AssertionError"
            except Exception as e:  # noqa
                s = "err:" + type(e).__name__
            out.append({"call": op, "impl": s[:400], "model": mrep[:400], "agree": s == mrep, **facts})
    finally:
        mod.random = saved
        setting.reset()
    return {"signature": case.get("signature"), "calls": out}
