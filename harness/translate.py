"""Translator: the `[TagActivator]` wiring of every .ini file under <root>/jellyfysh/config_files  ->  Lean data
(`lean/JF/Gen/Wirings.lean`, one `def cfg_<name> : Wiring` per file + `allCfgs`) and the generated proof obligations
(`lean/JF/Gen/WiringsSound.lean`, one `theorem cfg_sound_<name> : WiringSound cfg_<name> = true := by decide +kernel` per file),
and the handler modes of the mode discipline (`lean/JF/Gen/ModeWirings.lean`, one `def mcfg_<name> : ModeWiring` per file =
`cfg_<name>` + one `HMode` per tagger; obligations in `lean/JF/Props/ModeDiscipline.lean`, E13).

The .ini files are read with configparser exactly as `jellyfysh/base/factory.py` reads them (newlines removed, lists split
at `,\\s*`, `name (class)` aliases, section = CamelCase of the name).  Everything that is a rule of the CODE is read from
the tree under translation, not hard-coded:
  * naming rules                        -> <root>/jellyfysh/base/strings.py is loaded and its functions are used,
  * constructor parameters and defaults -> `ast` of the tagger classes in <root>/jellyfysh/activator/tagger/*.py
    (`number_event_handlers`, `activate`, `deactivate`, `internal_state_label`, the constant passed to `super().__init__`),
  * the handler pool size               -> `Tagger.initialize`: `[handler] + [deepcopy … for _ in range(1, n)]` = max(1, n),
  * the event-handler family (kind)     -> `ast` class hierarchy of <root>/jellyfysh/event_handler/**.py,
  * the handler mode (`hmode`, E13)     -> the same class hierarchy (`MODE_BY_BASE`) + the options `aim_mode` (switcher) and
    `initial_active_identifier` (start of run) of the handler's section; what cannot be read becomes `unknown` (which no
    `ModeSound` obligation accepts), never an exception: wirings without handler sections stay translatable.
What cannot be read raises `TranslationError` (the framework reports a broken tie, never a silent default).
"""
import ast, configparser, importlib.util, os, re

VERIF = os.path.dirname(os.path.dirname(os.path.abspath(__file__)))
GEN = os.path.join(VERIF, "lean", "JF", "Gen")

TAGGER_CLASS = {
    "NoInStateTagger": "noInState", "ActiveGlobalStateInStateTagger": "activeGlobalState",
    "ActiveRootUnitInStateTagger": "activeRootUnit", "FactorTypeMapInStateTagger": "factorTypeMap",
    "CellBoundaryTagger": "cellBoundary", "CellBoundingPotentialTagger": "cellBounding", "CellVetoTagger": "cellVeto",
    "ExcludedCellsTagger": "excludedCells", "SurplusCellsTagger": "surplusCells",
}
# same prefixes as harness/runs.py: INTERACTION_BASES (the cell-veto ones are a kind of their own here)
INTERACTION_PREFIXES = ("TwoLeafUnit", "TwoCompositeObject", "FixedSeparations", "RootUnitActive")
KIND_BY_BASE = [("StartOfRunEventHandler", "startOfRun"), ("EndOfRunEventHandler", "endOfRun"),
                ("SamplingEventHandler", "sampling"), ("DumpingEventHandler", "dumping"),
                ("EndOfChainEventHandler", "endOfChain"), ("RootLeafUnitActiveSwitcher", "switcher"),
                ("CellBoundaryEventHandler", "cellBoundary"), ("CellVetoEventHandler", "cellVeto")]
# handler mode (lean/JF/Model/ModeWiring.lean: HMode) by base class, in this order of precedence
MODE_BY_BASE = [("StartOfRunEventHandler", "start"), ("EndOfRunEventHandler", "neutral"), ("SamplingEventHandler", "neutral"),
                ("DumpingEventHandler", "neutral"), ("EndOfChainEventHandler", "endOfChain"),
                ("RootLeafUnitActiveSwitcher", "switcher"), ("CellBoundaryEventHandler", "cellBoundary"),
                ("CompositeObjectsLifting", "rootUnit"), ("SingleActiveLeafUnitEventHandler", "leafUnit")]
AIM_MODES = {"leaf_unit_active": "true", "root_unit_active": "false"}    # root_leaf_unit_active_switcher._Modes
ORACLE_KIND = {"startOfRun": "start", "cellBoundary": "cell_boundary", "cellVeto": "interaction", "interaction": "interaction"}


class TranslationError(Exception):
    pass


# ---------------------------------------------------------------------------------------------------------------
# rules read from the tree

class Tree:
    def __init__(self, root):
        self.root = root
        pkg = os.path.join(root, "jellyfysh")
        spec = importlib.util.spec_from_file_location("_jf_strings_under_translation", os.path.join(pkg, "base", "strings.py"))
        self.strings = importlib.util.module_from_spec(spec)
        spec.loader.exec_module(self.strings)
        self.handler_bases = {}
        for d, _, files in os.walk(os.path.join(pkg, "event_handler")):
            for fn in files:
                if fn.endswith(".py"):
                    self._scan_classes(os.path.join(d, fn), self.handler_bases)
        self.tagger_classes = {}
        tdir = os.path.join(pkg, "activator", "tagger")
        for fn in sorted(os.listdir(tdir)):
            if fn.endswith(".py"):
                tree = ast.parse(open(os.path.join(tdir, fn)).read())
                for node in tree.body:
                    if isinstance(node, ast.ClassDef):
                        self.tagger_classes[node.name] = (node, fn)

    @staticmethod
    def _scan_classes(path, out):
        try:
            tree = ast.parse(open(path).read())
        except SyntaxError as e:
            raise TranslationError(f"cannot parse {path}: {e}")
        for node in ast.walk(tree):
            if isinstance(node, ast.ClassDef):
                out[node.name] = [b.id if isinstance(b, ast.Name) else getattr(b, "attr", "?") for b in node.bases]

    def ancestors(self, cls):
        seen, todo = [], [cls]
        while todo:
            c = todo.pop(0)
            if c in seen:
                continue
            seen.append(c)
            todo += self.handler_bases.get(c, [])
        return seen

    def handler_kind(self, cls):
        if cls not in self.handler_bases:
            return "unknown"
        anc = self.ancestors(cls)
        for base, kind in KIND_BY_BASE:
            if base in anc:
                return kind
        if any(a.startswith(INTERACTION_PREFIXES) for a in anc):
            return "interaction"
        return "unknown"

    def handler_mode(self, cls, opts=None):
        """the `HMode` (Lean term) of event-handler class `cls` built from a section with options `opts`"""
        return mode_of_bases(self.ancestors(cls) if cls in self.handler_bases else [], opts)

    def tagger_signature(self, cls):
        """-> (parameters {name: default or REQUIRED}, constants passed to super().__init__ as keywords)"""
        if cls not in self.tagger_classes:
            raise TranslationError(f"tagger class {cls} not found in activator/tagger")
        node, fn = self.tagger_classes[cls]
        if self.strings.to_snake_case(cls) + ".py" != fn:
            raise TranslationError(f"tagger class {cls} is not in module {self.strings.to_snake_case(cls)}.py (factory cannot build it)")
        init = next((n for n in node.body if isinstance(n, ast.FunctionDef) and n.name == "__init__"), None)
        if init is None:
            raise TranslationError(f"{cls} has no __init__")
        args = init.args.args[1:]
        defaults = [REQUIRED] * (len(args) - len(init.args.defaults)) + [self._const(d) for d in init.args.defaults]
        params = {a.arg: d for a, d in zip(args, defaults)}
        fixed = {}
        for n in ast.walk(init):
            if (isinstance(n, ast.Call) and isinstance(n.func, ast.Attribute) and n.func.attr == "__init__"
                    and isinstance(n.func.value, ast.Call) and getattr(n.func.value.func, "id", "") == "super"):
                for kw in n.keywords:
                    if isinstance(kw.value, ast.Constant):
                        fixed[kw.arg] = kw.value.value
        return params, fixed

    @staticmethod
    def _const(d):
        try:
            return ast.literal_eval(d)
        except Exception:
            return UNREADABLE


def mode_of_bases(bases, opts=None):
    """`HMode` as a Lean term from the names of a handler class and its ancestors (`Tree.ancestors`, or the `handler_bases` a
    traced run recorded from the real class's MRO) and the options of the handler's section"""
    opts = opts or {}
    for base, mode in MODE_BY_BASE:
        if base in bases:
            if mode == "switcher":
                aim = AIM_MODES.get(opts.get("aim_mode", "").replace("\n", "").strip())
                return "unknown" if aim is None else f"switcher {aim}"
            if mode == "start":
                ident = opts.get("initial_active_identifier")
                if ident is None:
                    return "unknown"
                n = len([x for x in _list(ident) if x.strip() != ""])
                return "unknown" if n == 0 else f"start {'true' if n >= 2 else 'false'}"
            return mode
    return "unknown"


REQUIRED, UNREADABLE = object(), object()
_named_class_pattern = re.compile(r"(\w+)\s*(?:\((\w+)\))*")      # factory._named_class_pattern


def _named(tree, value):
    """factory._create_object for a custom class: -> (section, class to build), both CamelCase"""
    m = _named_class_pattern.match(value)
    if m is None:
        raise TranslationError(f"value {value!r} cannot be processed")
    name, cls = m.group(1), m.group(2) or m.group(1)
    return tree.strings.to_camel_case(name), tree.strings.to_camel_case(cls)


def _list(value):
    return re.split(r",\s*", value.replace("\n", ""))


def wiring_of_config(tree, config, name="", ini=""):
    """the wiring the factory would build from `config` (a ConfigParser), as a plain dict"""
    if not config.has_section("Run"):
        raise TranslationError("no [Run] section")
    med_sec, _ = _named(tree, config.get("Run", "mediator").replace("\n", ""))
    if not config.has_option(med_sec, "activator"):
        raise TranslationError(f"[{med_sec}] has no activator")
    act_sec, act_cls = _named(tree, config.get(med_sec, "activator").replace("\n", ""))
    if act_cls != "TagActivator":
        raise TranslationError(f"activator class {act_cls} is not TagActivator")
    labels = []
    if config.has_option(act_sec, "internal_states"):
        for entry in _list(config.get(act_sec, "internal_states")):
            sec, _cls = _named(tree, entry)
            labels.append(tree.strings.to_snake_case(sec))      # to_snake_case(get_alias(state.__class__.__name__))
    taggers = []
    for entry in _list(config.get(act_sec, "taggers")):
        sec, cls = _named(tree, entry)
        params, fixed = tree.tagger_signature(cls)
        opts = dict(config.items(sec)) if config.has_section(sec) else {}
        for o in opts:
            if o not in params:
                raise TranslationError(f"[{sec}] option {o!r} is not a parameter of {cls}")
        for p, d in params.items():
            if d is REQUIRED and p not in opts:
                raise TranslationError(f"[{sec}] misses required option {p!r} of {cls}")

        def seq(p):
            if p in opts:
                return _list(opts[p])
            d = params.get(p, ())
            if d is UNREADABLE:
                raise TranslationError(f"default of {cls}.{p} unreadable")
            return list(d)
        if "number_event_handlers" in params:
            neh = int(opts["number_event_handlers"].replace("\n", "")) if "number_event_handlers" in opts else params["number_event_handlers"]
        elif "number_event_handlers" in fixed:
            neh = fixed["number_event_handlers"]
        else:
            raise TranslationError(f"cannot determine number_event_handlers of {cls}")
        if not isinstance(neh, int):
            raise TranslationError(f"number_event_handlers of [{sec}] unreadable")
        hsec, hcls = _named(tree, opts["event_handler"].replace("\n", ""))
        tag = opts["tag"].replace("\n", "") if "tag" in opts else tree.strings.to_snake_case(sec)
        label = opts.get("internal_state_label")
        if label is not None:
            label = label.replace("\n", "")
        hopts = dict(config.items(hsec)) if config.has_section(hsec) else {}
        taggers.append({"tag": tag, "section": sec, "cls": cls, "lean_cls": TAGGER_CLASS.get(cls, "unknown"),
                        "handler_section": hsec, "handler_cls": hcls, "kind": tree.handler_kind(hcls),
                        "hmode": tree.handler_mode(hcls, hopts),
                        "creates": seq("create"), "trashes": seq("trash"), "activates": seq("activate"),
                        "deactivates": seq("deactivate"), "pool": max(1, neh), "label": label})
    tag_idx = {t["tag"]: i for i, t in enumerate(taggers)}       # later taggers win, as in _build_tagger_dictionary
    for t in taggers:
        for attr in ("creates", "trashes", "activates", "deactivates"):
            for tag in t[attr]:
                if tag not in tag_idx:
                    raise TranslationError(f"tag {tag!r} in {attr} of {t['tag']} does not exist as a tagger")
            t[attr + "_idx"] = [tag_idx[tag] for tag in t[attr]]
        if t["label"] is not None:
            if labels.count(t["label"]) != 1:
                raise TranslationError(f"internal state label {t['label']!r} of {t['tag']} does not exist exactly once")
            t["label_idx"] = labels.index(t["label"])
        else:
            t["label_idx"] = None
    return {"name": name, "ini": ini, "labels": labels, "taggers": taggers}


def read_config(path, overrides=None, text=None):
    config = configparser.ConfigParser()
    if text is not None:                      # harness-built configuration handed over as text (harness/genconfigs.py)
        config.read_string(text)
    elif not config.read(path):
        raise TranslationError(f"cannot read {path}")
    for sec, kv in (overrides or {}).items():          # same rule as harness/runtrace.py: build
        if not config.has_section(sec):
            config.add_section(sec)
        for k, v in kv.items():
            if v is None:
                config.remove_option(sec, k)
            else:
                config.set(sec, k, str(v))
    return config


def ini_files(root):
    base = os.path.join(root, "jellyfysh", "config_files")
    out = []
    for d, _, files in os.walk(base):
        for fn in files:
            if fn.endswith(".ini"):
                out.append(os.path.relpath(os.path.join(d, fn), os.path.join(root, "jellyfysh")))
    return sorted(out)


def cfg_name(rel):
    parts = rel[:-4].split(os.sep)
    return re.sub(r"\W", "_", "_".join(parts[-2:]))


def all_wirings(root):
    tree = Tree(root)
    out, names = [], {}
    for rel in ini_files(root):
        name = cfg_name(rel)
        if name in names:
            name = re.sub(r"\W", "_", rel[:-4])
        names[name] = rel
        config = read_config(os.path.join(root, "jellyfysh", rel))
        try:
            out.append(wiring_of_config(tree, config, name, rel))
        except (configparser.Error, KeyError) as e:
            raise TranslationError(f"{rel}: {e!r}")
        except TranslationError as e:
            raise TranslationError(f"{rel}: {e}")
    return out


# ---------------------------------------------------------------------------------------------------------------
# Lean emission

def _s(x):
    return '"' + x.replace("\\", "\\\\").replace('"', '\\"') + '"'


def _l(xs):
    return "[" + ", ".join(str(x) for x in xs) + "]"


def lean_wiring(w):
    lines = [f"/-- `{w['ini']}` -/", f"def cfg_{w['name']} : Wiring := {{", f"  name := {_s(w['name'])}",
             f"  labels := {_l(_s(x) for x in w['labels'])}", "  taggers := ["]
    items = []
    for t in w["taggers"]:
        lab = "none" if t["label_idx"] is None else f"some {t['label_idx']}"
        items.append(f"    {{ tag := {_s(t['tag'])}, cls := .{t['lean_cls']}, handler := {_s(t['handler_cls'])}, kind := .{t['kind']},\n"
                     f"      creates := {_l(t['creates_idx'])}, trashes := {_l(t['trashes_idx'])},\n"
                     f"      activates := {_l(t['activates_idx'])}, deactivates := {_l(t['deactivates_idx'])},\n"
                     f"      pool := {t['pool']}, label := {lab} }}")
    lines.append(",\n".join(items) + " ] }")
    return "\n".join(lines)


def lean_files(ws):
    data = ["/- GENERATED by harness/translate.py from the .ini files of the tree under verification — do not edit. -/",
            "import JF.Model.Wiring", "namespace JF.Act.Gen", "open JF.Act", ""]
    for w in ws:
        data += [lean_wiring(w), ""]
    data += ["def allCfgs : List Wiring := [" + ", ".join("cfg_" + w["name"] for w in ws) + "]", "", "end JF.Act.Gen", ""]
    thm = ["/- GENERATED by harness/translate.py — one soundness obligation (DESIGN §5 C09/C08, `WiringSound`) per shipped .ini. -/",
           "import JF.Gen.Wirings", "namespace JF.Act.Gen", "open JF.Act", ""]
    for w in ws:
        thm += [f"/-- `{w['ini']}` satisfies the side condition of C09/C08 -/",
                f"theorem cfg_sound_{w['name']} : WiringSound cfg_{w['name']} = true := by decide +kernel", ""]
    thm += ["end JF.Act.Gen", ""]
    return "\n".join(data), "\n".join(thm)


def is_composite(w):
    """does the mode discipline apply: the run starts with a point mass of a composite object, or the wiring has a handler of
    the root mode / a switcher"""
    return any(t["hmode"] == "start true" or t["hmode"] == "rootUnit" or t["hmode"].startswith("switcher") for t in w["taggers"])


def lean_mode_file(ws):
    out = ["/- GENERATED by harness/translate.py from the .ini files and the event-handler classes of the tree under verification —",
           "do not edit.  Handler modes for the mode discipline (JF/Model/ModeWiring.lean; obligations: JF/Props/ModeDiscipline.lean). -/",
           "import JF.Gen.Wirings", "import JF.Model.ModeWiring", "namespace JF.Act.Gen", "open JF.Act", ""]
    for w in ws:
        out += [f"/-- `{w['ini']}`: " + ", ".join(f"{t['tag']} = {t['handler_cls']}" for t in w["taggers"]) + " -/",
                f"def mcfg_{w['name']} : ModeWiring := {{", f"  w := cfg_{w['name']}",
                "  hm := [" + ", ".join("." + t["hmode"] for t in w["taggers"]) + "] }", ""]
    out += ["/-- every shipped wiring -/",
            "def allModeCfgs : List ModeWiring := [" + ", ".join("mcfg_" + w["name"] for w in ws) + "]", "",
            "/-- the shipped wirings with composite objects (`translate.py: is_composite`) -/",
            "def compositeCfgs : List ModeWiring := [" + ", ".join("mcfg_" + w["name"] for w in ws if is_composite(w)) + "]", ""]
    # the mode assignment as the harness computes it (Python mirror of `modeOf` used on recorded runs by harness/modecorr.py), to be
    # compared with Lean's own (`py_mode_tables_agree` in JF/Props/ModeDiscipline.lean)
    b = lambda x: "true" if x else "false"
    try:
        from harness import modecorr
        tabs = ["[" + ", ".join("([" + ", ".join(b(x) for x in s) + "], ." + m + ")" for s, m in modecorr.mode_table(w)) + "]"
                for w in ws if is_composite(w)]
    except Exception:          # never break the generation of the wirings; `py_mode_tables_agree` then fails visibly
        tabs = []
    out += ["/-- `harness/modecorr.py: mode_table` of every configuration in `compositeCfgs` (reachable activation states and their modes) -/",
            "def pyModeTables : List (List (AState × WMode)) := [", ",\n".join("  " + t for t in tabs) + " ]", "",
            "end JF.Act.Gen", ""]
    return "\n".join(out)


def _write_if_changed(path, content):
    if os.path.exists(path) and open(path).read() == content:
        return False
    os.makedirs(os.path.dirname(path), exist_ok=True)
    tmp = path + f".{os.getpid()}.tmp"
    with open(tmp, "w") as f:
        f.write(content)
    os.replace(tmp, path)
    return True


def regenerate(root):
    """re-emit lean/JF/Gen/Wirings.lean (+ WiringsSound.lean) from the .ini files of the tree at `root`;
    writes only if the content changed. Called by the framework under the lake lock."""
    ws = all_wirings(root)
    data, thm = lean_files(ws)
    a = _write_if_changed(os.path.join(GEN, "Wirings.lean"), data)
    b = _write_if_changed(os.path.join(GEN, "WiringsSound.lean"), thm)
    c = _write_if_changed(os.path.join(GEN, "ModeWirings.lean"), lean_mode_file(ws))
    # pool sizes vs demand bounds per shipped configuration (JF/Gen/Pools.lean, obligations of JF.Props.C09Pools)
    from harness import translate_pools
    d = translate_pools.regenerate(root)
    return {"configs": len(ws), "changed": a or b or c or d["changed"]}


if __name__ == "__main__":
    import sys
    print(regenerate(sys.argv[1] if len(sys.argv) > 1 else "/repo"))
