"""Job runner for real-run traces (one subprocess per configuration) + the run-level property oracles
(direct Python statements of C07, C08, C09, C12, C17 evaluated on recorded float states of the implementation)."""
import os, sys, json, pickle, subprocess, tempfile, math, concurrent.futures
from collections import Counter
from fractions import Fraction as Fr

VERIF = os.path.dirname(os.path.dirname(os.path.abspath(__file__)))
PY = "/venv/bin/python"

CFG = "config_files/2018_JCP_149_064113/"
SHIPPED = [
    CFG + "coulomb_atoms/cell_bounded.ini", CFG + "coulomb_atoms/cell_veto.ini", CFG + "coulomb_atoms/power_bounded.ini",
    CFG + "coulomb_atoms/power_bounded_dump.ini",
    CFG + "dipoles/atom_factors.ini", CFG + "dipoles/cell_bounded.ini", CFG + "dipoles/cell_veto.ini",
    CFG + "dipoles/dipole_factors_inside_first.ini", CFG + "dipoles/dipole_factors_outside_first.ini",
    CFG + "dipoles/dipole_factors_ratio.ini", CFG + "dipoles/dipole_motion.ini",
    CFG + "water/coulomb_cell_veto_lj_cell_veto.ini", CFG + "water/coulomb_cell_veto_lj_inverted.ini",
    CFG + "water/coulomb_power_bounded_lj_cell_bounded.ini", CFG + "water/coulomb_power_bounded_lj_inverted.ini",
    CFG + "water/single_molecule.ini",
    "config_files/hard_disk_dipoles/hard_disk_dipoles.ini", "config_files/hard_disk_dipoles/hard_disk_dipoles_cells.ini",
    "config_files/hard_disk_dipoles/single_hard_disk_dipole.ini",
]


def run_jobs(root, jobs, workers=12, timeout=900):
    """jobs: list of dicts (ini, overrides, seed, max_legs, extras). returns list of traces (same order)."""
    d = tempfile.mkdtemp(prefix="jftraces_", dir=os.path.dirname(root))
    env = {**os.environ, "PYTHONPATH": root + os.pathsep + VERIF, "JELLYFYSH_VERIF": "1"}

    def one(k):
        job = dict(jobs[k])
        job["out"] = os.path.join(d, f"t{k}.pkl")
        jp = os.path.join(d, f"j{k}.json")
        json.dump(job, open(jp, "w"))
        try:
            # own session: on a time-out (deadlock) the whole process group, worker processes included, is killed
            proc = subprocess.Popen([PY, "-m", "harness.runtrace", jp], cwd=VERIF, env=env, stdout=subprocess.DEVNULL,
                                    stderr=subprocess.DEVNULL, start_new_session=True)
            try:
                proc.wait(timeout=job.get("timeout", timeout))
            except subprocess.TimeoutExpired:
                import signal
                os.killpg(proc.pid, signal.SIGKILL)
                proc.wait()
                raise
            tr = pickle.load(open(job["out"], "rb"))
            os.unlink(job["out"])
            if tr.get("end") == "inadmissible-initial-overlap" and job.get("_retry", 0) < 8:
                # hard-core family: the random initial state had overlapping cores (outside every property's quantifier): other seed
                jobs[k] = {**jobs[k], "seed": jobs[k].get("seed", 0) + 7919, "_retry": job.get("_retry", 0) + 1}
                return one(k)
        except subprocess.TimeoutExpired:
            tr = {"meta": {"ini": job["ini"]}, "legs": [], "writes": [], "end": "timeout"}
        except Exception as e:
            tr = {"meta": {"ini": job["ini"]}, "legs": [], "writes": [], "end": "harness-exc:" + repr(e)}
        tr["job"] = {k_: v for k_, v in job.items() if k_ != "out"}
        return tr
    with concurrent.futures.ThreadPoolExecutor(workers) as ex:
        out = list(ex.map(one, range(len(jobs))))
    import shutil
    shutil.rmtree(d, ignore_errors=True)
    return out


# ------------------------------------------------------------------------------------------------------------------
# helpers on recorded states

def tval(t):
    """exact rational value of a recorded time (q, r)"""
    return Fr(t[0]) + Fr(t[1])


def tlt(a, b):
    return a[0] < b[0] or (a[0] == b[0] and a[1] < b[1])


def modclose(a, b, L, tol):
    d = abs(a - b) % L
    return min(d, L - d) <= tol


def advance(pos, vel, dt, L):
    return [(p + v * dt) % l for p, v, l in zip(pos, vel, L)]


def event_times(tr):
    """per leg: the committed event's time, tracked through pushes/trashes (the chosen handler may have been pushed in
    an earlier leg)"""
    pend, out = {}, []
    for leg in tr["legs"]:
        pend.update(leg["times"])
        t = pend.get(leg["chosen"])
        if t is None and tr.get("job", {}).get("resume"):
            # resumed run: the candidate was pushed before the dump; every moving unit of the out-state carries the event time
            ts = {v[2] for v in leg.get("out", {}).values() if v[1] is not None and v[2] is not None}
            if len(ts) == 1:
                t = next(iter(ts))
        out.append(t)
        for h in leg["trashed"]:
            pend.pop(h, None)
    return out


def is_leaf(ident, meta):
    return len(ident) == meta["levels"]


# ------------------------------------------------------------------------------------------------------------------
# C07

def oracle_c07(tr, fail, stats):
    meta, L = tr["meta"], tr["meta"]["system_lengths"]
    Lmax = max(L)
    tol = 1e-11 * Lmax
    ets = event_times(tr)
    pre = tr["initial"]
    ids0 = {k: v[3] for k, v in pre.items()}
    prev_t = None
    speed0 = None
    ctx_id = lambda i: {"ini": meta["ini"], "seed": meta["seed"], "leg": i, "job": tr.get("job")}
    pend = {}
    for i, leg in enumerate(tr["legs"]):
        t = ets[i]
        post = leg["post"]
        # the committed candidate must be an earliest one among the current candidates (mechanism: the scheduler returns events in
        # time order); candidates pushed before a dump are unknown in a resumed trace and are simply not compared
        pend.update(leg["times"])
        mine = pend.get(leg["chosen"])
        if mine is not None:
            early = [(h, x) for h, x in pend.items() if h != leg["chosen"] and tlt(x, mine)]
            if early:
                fail("C07:committed-event-is-not-the-earliest-current-candidate",
                     {**ctx_id(i), "committed": [meta["handlers"][leg["chosen"]], mine], "earlier_pending": [[meta["handlers"][h], x] for h, x in early[:3]]},
                     "an event was committed although another current candidate event has a strictly smaller time")
        for h in leg["trashed"]:
            pend.pop(h, None)
        if t is None:
            if not tr.get("job", {}).get("resume"):
                fail("C07:event-without-time", ctx_id(i), "committed handler has no recorded candidate time")
            pre = post
            continue
        if prev_t is not None and tlt(t, prev_t):
            fail("C07:time-decreases", {**ctx_id(i), "t": t, "prev": prev_t}, "committed event time decreased")
        prev_t = t
        tv = tval(t)
        if {k: v[3] for k, v in post.items()} != ids0:
            fail("C07:identity-or-charge-changed", ctx_id(i), "identifiers/charges differ from the initial state")
        for ident, (pos, vel, ts, ch) in post.items():
            ppos, pvel, pts, _ = pre[ident]
            if ident not in leg["out"]:
                if (pos, vel, ts) != (ppos, pvel, pts):
                    fail("C07:unit-outside-out-state-changed", {**ctx_id(i), "unit": ident}, "a unit not in the committed out-state changed")
                continue
            # continuity of the trajectory x(tau) = pos + vel (tau - ts)
            if pvel is None:
                exp = ppos
                if vel is not None and ts != t:
                    fail("C07:started-unit-wrong-time-stamp", {**ctx_id(i), "unit": ident, "ts": ts, "t": t},
                         "a unit that starts moving at this event does not carry the event time")
            else:
                upto = tval(ts) if vel is not None else tv
                dt = float(upto - tval(pts))
                if dt < 0:
                    fail("C07:time-stamp-decreases", {**ctx_id(i), "unit": ident}, "time stamp of a moving unit went backwards")
                exp = advance(ppos, pvel, dt, L)
            if not all(modclose(a, b, l, tol) for a, b, l in zip(pos, exp, L)):
                fail("C07:position-jump", {**ctx_id(i), "unit": ident, "pre": [ppos, pvel, pts], "post": [pos, vel, ts], "t": t},
                     f"position is not the previous position advanced by velocity*elapsed (expected {exp}, got {pos})")
            # half-open box: `correct_position_entry` maps the float modulo's `L` to 0.0 (repaired in /repo), and every velocity
            # component of the shipped/generated chains is >= 0, so no cell-boundary event parks a unit at `cell_max == L`
            if not all(0.0 <= x < l for x, l in zip(pos, L)):
                fail("C07:position-outside-box", {**ctx_id(i), "unit": ident, "pos": pos}, "position outside [0, L)")
        # exactly one moving chain (from the start-of-run event on)
        moving = {k: v for k, v in post.items() if is_leaf(k, meta) and v[1] is not None}
        if not moving:
            fail("C07:no-moving-unit", ctx_id(i), "no point mass moves after the event")
        else:
            vels = {tuple(v[1]) for v in moving.values()}
            if len(vels) != 1:
                fail("C07:several-velocities", {**ctx_id(i), "moving": {str(k): v[1] for k, v in moving.items()}},
                     "moving point masses do not share one velocity")
            v = next(iter(vels))
            sp = math.sqrt(sum(c * c for c in v))
            if speed0 is None:
                speed0 = sp
            elif abs(sp - speed0) > 1e-10 * speed0:
                fail("C07:speed-changed", {**ctx_id(i), "speed": sp, "initial": speed0}, "speed differs from the initial speed")
            roots = {k[0] for k in moving}
            if len(moving) > 1:
                if len(roots) != 1 or len(moving) != meta["n_per_root"]:
                    fail("C07:not-one-chain", {**ctx_id(i), "moving": [str(k) for k in moving]},
                         "moving point masses are neither a single one nor all of one composite object")
            stats["chain_kind:" + ("single" if len(moving) == 1 else "composite")] = stats.get(
                "chain_kind:" + ("single" if len(moving) == 1 else "composite"), 0) + 1
        pre = post


# ------------------------------------------------------------------------------------------------------------------
# C08 / C09

INTERACTION_BASES = ("TwoLeafUnit", "TwoCompositeObject", "FixedSeparations", "RootUnitActive", "CellVetoEventHandler",
                     "LeafUnitCellVeto", "CompositeObjectCellVeto")


def tagger_kind(tg):
    """'interaction' | 'cell_boundary' | 'start' | 'other' — by the handler class the tagger owns"""
    bases = tg["handler_bases"]
    if any(b.startswith(INTERACTION_BASES) for b in bases):
        return "interaction"
    if "CellBoundaryEventHandler" in bases:
        return "cell_boundary"
    if "StartOfRunEventHandler" in bases:
        return "start"
    return "other"


def branch_units(ids, snap):
    """all units of the branches of the identifiers `ids` (ancestors, node, descendants)"""
    out = set()
    for ident in ids:
        for k in snap:
            n = min(len(k), len(ident))
            if k[:n] == tuple(ident)[:n]:
                out.add(k)
    return out


def oracle_c08(tr, fail, stats):
    meta, L = tr["meta"], tr["meta"]["system_lengths"]
    tol = 1e-11 * max(L)
    kinds = {tg["tag"]: tagger_kind(tg) for tg in meta["taggers"]}
    created = {}      # hid -> (leg index, ids, snapshot at creation)
    pre = tr["initial"]
    pend = {}
    for i, leg in enumerate(tr["legs"]):
        for h, ids in leg["created"]:
            created[h] = (i, ids, pre)
        h = leg["chosen"]
        tag = meta["handlers"][h][0]
        # "no candidate event survives in the scheduler after …": if the handler that is served has a current candidate that is NOT an
        # earliest one, what the scheduler served was an older, trashed candidate of that handler that survived
        pend.update(leg["times"])
        mine = pend.get(h)
        if mine is not None and kinds[tag] == "interaction":
            early = [(g, x) for g, x in pend.items() if g != h and tlt(x, mine)]
            if early:
                fail("C08:trashed-candidate-served-by-the-scheduler",
                     {"ini": meta["ini"], "seed": meta["seed"], "leg": i, "handler": meta["handlers"][h], "current_candidate": mine,
                      "earlier_pending": [[meta["handlers"][g], x] for g, x in early[:3]], "job": tr.get("job")},
                     "an interaction handler was served although its current candidate is not the earliest pending one: an older candidate "
                     "of it, trashed when the motion changed, survived in the scheduler")
        for g in leg["trashed"]:
            pend.pop(g, None)
        if "pending" in leg and h not in leg["pending"].get(tag, []):
            fail("C08:committed-event-of-a-trashed-handler",
                 {"ini": meta["ini"], "seed": meta["seed"], "leg": i, "handler": meta["handlers"][h], "pending": leg["pending"].get(tag),
                  "job": tr.get("job")},
                 "the scheduler returned a handler whose event had been trashed (it is not among the running handlers of its tagger)")
        if kinds[tag] == "interaction" and h in created and created[h][1] is not None:
            j, ids, snap0 = created[h]
            stats["c08_commits"] = stats.get("c08_commits", 0) + 1
            stats["c08_age>0"] = stats.get("c08_age>0", 0) + (1 if i > j else 0)
            for u in branch_units(ids, snap0):
                p0, v0, t0, _ = snap0[u]
                p1, v1, t1, _ = pre[u]
                ok = (v0 == v1)
                if ok:
                    if v0 is None:
                        ok = (p0 == p1)
                    else:
                        dt = float(tval(t1) - tval(t0))
                        ok = all(modclose(a, b, l, tol) for a, b, l in zip(advance(p0, v0, dt, L), p1, L))
                if not ok:
                    fail("C08:stale-in-state-committed",
                         {"ini": meta["ini"], "seed": meta["seed"], "leg": i, "created_leg": j, "handler": meta["handlers"][h],
                          "unit": u, "at_creation": [p0, v0, t0], "at_commit": [p1, v1, t1], "job": tr.get("job")},
                         "a unit of the in-state of the committed interaction event changed its motion since the candidate was computed")
        for x in leg["trashed"]:
            created.pop(x, None)
        pre = leg["post"]


def oracle_c09(tr, fail, stats):
    meta = tr["meta"]
    kinds = {tg["tag"]: tagger_kind(tg) for tg in meta["taggers"]}
    ids_of = {}
    if isinstance(tr.get("end"), str) and "TagActivatorError" in tr["end"]:
        fail("C09:handler-pool-exhausted", {"ini": meta["ini"], "seed": meta["seed"], "leg": len(tr["legs"]), "job": tr.get("job")},
             "the activator demanded more event handlers than the tagger owns")
    # expected activation of every tagger, from the wiring alone (TagActivator: activate list, then deactivate list of the tagger
    # of the preceding event; the start-of-run lists are applied at the first call and again after the start-of-run commit)
    by_tag = {tg["tag"]: tg for tg in meta["taggers"]}
    expected = {tg["tag"]: True for tg in meta["taggers"]}
    start_tag = next((tg["tag"] for tg in meta["taggers"] if kinds[tg["tag"]] == "start"), None)

    def apply(tag):
        for a in by_tag[tag]["activates"]:
            expected[a] = True
        for dct in by_tag[tag]["deactivates"]:
            expected[dct] = False
    resumed = bool(tr.get("job", {}).get("resume"))
    if start_tag is not None and not resumed:
        apply(start_tag)
    for i, leg in enumerate(tr["legs"]):
        for h, ids in leg["created"]:
            ids_of[h] = ids
        if i >= 1 and not resumed and leg.get("preceding") is not None:
            apply(meta["handlers"][leg["preceding"]][0])
        if resumed:
            expected = dict(leg["activated"])      # the history before the dump is not in the trace
        if i >= 1:   # "after every committed event": leg i starts after the commit of leg i-1
            for tag, fresh in leg.get("fresh_pristine", leg["fresh"]).items():
                k = kinds[tag]
                if k == "start":
                    continue
                pend = leg["pending"][tag]
                if not isinstance(fresh, str) and not expected.get(tag, True):
                    fresh = []          # a deactivated tagger generates nothing
                if isinstance(fresh, str):
                    fail("C09:fresh-yield-raises", {"ini": meta["ini"], "seed": meta["seed"], "leg": i, "tagger": tag, "job": tr.get("job")},
                         "the tagger cannot generate from scratch: " + fresh)
                    continue
                stats["c09_cmp:" + k] = stats.get("c09_cmp:" + k, 0) + 1
                if k in ("interaction", "cell_boundary"):
                    a = Counter(tuple(tuple(x) for x in ids_of[h]) if ids_of.get(h) is not None else None for h in pend)
                    b = Counter(fresh)
                    if a != b:
                        fail("C09:pending-differs-from-fresh",
                             {"ini": meta["ini"], "seed": meta["seed"], "leg": i, "tagger": tag, "pending": sorted(map(str, a.elements())),
                              "fresh": sorted(map(str, b.elements())), "after_handler": meta["handlers"][leg["preceding"]] if leg.get("preceding") is not None else None,
                              "job": tr.get("job")},
                             "pending in-state identifier tuples differ from what the tagger generates from scratch")
                    if len(b):
                        stats["c09_nonempty:" + k] = stats.get("c09_nonempty:" + k, 0) + 1
                elif expected.get(tag, True):
                    if len(pend) != len(fresh):
                        fail("C09:pending-count-differs",
                             {"ini": meta["ini"], "seed": meta["seed"], "leg": i, "tagger": tag, "pending": len(pend), "fresh": len(fresh),
                              "after_handler": meta["handlers"][leg["preceding"]] if leg.get("preceding") is not None else None, "job": tr.get("job")},
                             "number of pending events differs from what the activated tagger would generate")
        for x in leg["trashed"]:
            ids_of.pop(x, None)


# ------------------------------------------------------------------------------------------------------------------
# C12

def oracle_c12(tr, fail, stats):
    meta, L = tr["meta"], tr["meta"]["system_lengths"]
    if meta["levels"] < 2:
        return
    ets = event_times(tr)
    nper = meta["n_per_root"]

    def check(snap, t, where):
        for r in range(meta["n_roots"]):
            rp, rv, rts, _ = snap[(r,)]
            leaves = [snap[(r, c)] for c in range(nper)]
            w = 1.0 / nper
            lv = [l[1] for l in leaves]
            summed = [sum(w * (v[d] if v is not None else 0.0) for v in lv) for d in range(meta["dimension"])]
            any_moving = any(v is not None for v in lv)
            if rv is None:
                if any(abs(c) >= 1e-12 for c in summed):
                    fail("C12:root-velocity-absent-but-members-move", {**where, "root": r, "sum": summed}, "composite object has no velocity although members move")
            else:
                if not any_moving:
                    fail("C12:root-velocity-present-but-no-member-moves", {**where, "root": r, "vel": rv}, "composite object moves although no member does")
                if any(abs(a - b) > 1e-11 * max(1.0, abs(b)) for a, b in zip(rv, summed)):
                    fail("C12:root-velocity-not-weighted-sum", {**where, "root": r, "vel": rv, "sum": summed}, "stored velocity differs from the weighted sum of the members' velocities")
            if t is None:
                continue
            tv = tval(t)
            # positions advanced to the event time
            rpos = rp if rv is None else advance(rp, rv, float(tv - tval(rts)), L)
            lpos = []
            for (p, v, ts, _) in leaves:
                lpos.append(p if v is None else advance(p, v, float(tv - tval(ts)), L))
            bary = []
            for d in range(meta["dimension"]):
                # nearest images of the members relative to the composite object's own position (the convention of
                # base/node.py: yield_closest_leaf_unit_positions)
                ref = rpos[d]
                imgs = [ref + (((q[d] - ref + L[d] / 2) % L[d]) - L[d] / 2) for q in lpos]
                bary.append((sum(imgs) / nper) % L[d])
            n_events = where.get("leg", 0) + 1
            tolp = (1e-10 + 2e-16 * 50 * n_events) * max(L)
            if not all(modclose(a, b, l, tolp) for a, b, l in zip(rpos, bary, L)):
                fail("C12:root-position-not-barycentre", {**where, "root": r, "root_pos": rpos, "barycentre": bary},
                     "composite position advanced to the event time is not the barycentre of its members")
            stats["c12_checks"] = stats.get("c12_checks", 0) + 1
    base = {"ini": meta["ini"], "seed": meta["seed"], "job": tr.get("job")}
    check(tr["initial"], None, {**base, "leg": -1})
    for i, leg in enumerate(tr["legs"]):
        check(leg["post"], ets[i], {**base, "leg": i, "handler": meta["handlers"][leg["chosen"]]})


# ------------------------------------------------------------------------------------------------------------------
# C17

def oracle_c17(tr, fail, stats):
    meta = tr["meta"]
    cfg = meta["config"]
    ets = event_times(tr)
    base = {"ini": meta["ini"], "seed": meta["seed"], "job": tr.get("job")}
    samp = [h for h, (tag, cls) in enumerate(meta["handlers"]) if cls == "FixedIntervalSamplingEventHandler"]
    if not samp:
        return
    sec = cfg.get("FixedIntervalSamplingEventHandler", {})
    delta = float(sec["sampling_interval"])
    zero_first = sec.get("first_event_time_zero", "false").strip().lower() in ("true", "1", "yes")
    end_sec = cfg.get("FinalTimeEndOfRunEventHandler", {})
    t_end = float(end_sec["end_of_run_time"]) if "end_of_run_time" in end_sec else None
    k = 0
    writes_by_leg = {}
    for w in tr["writes"]:
        writes_by_leg.setdefault(w["leg"], []).append(w)
    n_samples = 0
    for i, leg in enumerate(tr["legs"]):
        h = leg["chosen"]
        if h in samp:
            t = ets[i]
            kk = k if zero_first else k + 1
            nominal = Fr(delta) * kk
            # one rounding of the remainder per step: |t_k - k*delta| <= k * 2^-53 * (1 + delta)
            bound = Fr(max(kk, 1)) * Fr(1, 2 ** 53) * (1 + Fr(delta))
            if abs(tval(t) - nominal) > bound:
                fail("C17:sample-time-off-nominal", {**base, "leg": i, "k": kk, "t": t, "nominal": float(nominal)},
                     "sample time deviates from k*interval by more than one rounding per step")
            k += 1
            n_samples += 1
            ws = writes_by_leg.get(i, [])
            if len(ws) != 1:
                fail("C17:sample-not-written-once", {**base, "leg": i, "writes": len(ws)}, "a sampling event did not write exactly once")
            for w in ws:
                st = w.get("state")
                if st is None:
                    continue
                for ident, (pos, vel, ts, _) in st.items():
                    if vel is not None and ts != t:
                        fail("C17:moving-unit-not-time-sliced-to-sample-time", {**base, "leg": i, "unit": ident, "ts": ts, "t": t},
                             "a moving unit in the written state does not carry the sample time")
                if st != leg["post"]:
                    fail("C17:written-state-is-not-the-committed-state", {**base, "leg": i}, "state handed to the output handler differs from the global state after the commit")
                # "the configuration at exactly that time": the global state as it was before this commit, every moving unit advanced
                # along its own velocity to the sample time, everything at rest untouched (a state that was extracted and time-sliced
                # earlier than the last interaction event carries the right time stamps but is not that configuration)
                prev = tr["legs"][i - 1].get("post") if i > 0 else None
                Ls = [float(x) for x in meta.get("system_lengths") or []]
                if prev and Ls and t is not None:
                    for ident, (pos, vel, ts, _) in st.items():
                        if ident not in prev:
                            continue
                        pos0, vel0, ts0, _ = prev[ident]
                        if vel0 is None:
                            if vel is not None or pos != pos0:
                                fail("C17:sampled-state-is-not-the-configuration-at-the-sample-time", {**base, "leg": i, "unit": ident, "before": pos0, "written": pos},
                                     "a unit at rest before the sampling event has another position / a velocity in the written state")
                                break
                            continue
                        if vel != vel0 or ts0 is None:
                            fail("C17:sampled-state-is-not-the-configuration-at-the-sample-time", {**base, "leg": i, "unit": ident, "velocity_before": vel0, "written": vel},
                                 "the velocity of a moving unit differs in the written state")
                            break
                        dt = float(tval(t) - tval(ts0))
                        bad = False
                        for d_ in range(min(len(pos), len(Ls))):
                            L_ = Ls[d_]
                            diff = abs(pos[d_] - (pos0[d_] + vel0[d_] * dt) % L_)
                            if min(diff, abs(L_ - diff)) > 1e-9 * max(1.0, L_):
                                bad = True
                        if bad:
                            fail("C17:sampled-state-is-not-the-configuration-at-the-sample-time",
                                 {**base, "leg": i, "unit": ident, "before": [pos0, vel0, ts0], "written": [pos, vel, ts], "t": t},
                                 "a moving unit is not at its previous position advanced by its velocity to the sample time")
                            break
            stats["c17_samples"] = stats.get("c17_samples", 0) + 1
    if t_end is not None:
        for i, t in enumerate(ets):
            if t is not None and tval(t) > Fr(t_end):
                fail("C17:event-committed-after-the-end-time", {**base, "leg": i, "t": t, "t_end": t_end,
                                                                "handler": meta["handlers"][tr["legs"][i]["chosen"]]},
                     "an event was committed at a time after the configured end of the run")
                break
    if tr["end"] == "EndOfRun" and t_end is not None and tr["legs"]:
        last = tr["legs"][-1]
        t = ets[-1]
        if meta["handlers"][last["chosen"]][1] != "FinalTimeEndOfRunEventHandler" or tval(t) != Fr(t_end):
            fail("C17:run-does-not-end-at-end-time", {**base, "t": t, "t_end": t_end, "handler": meta["handlers"][last["chosen"]]},
                 "the run did not end with the end-of-run event at the configured time")
        # number of samples = number of sampling times strictly before the end (ties resolved by the scheduler are not judged)
        times = []
        kk = 0 if zero_first else 1
        tt = Fr(delta) * kk
        slack = Fr(1, 2 ** 40)
        lo = hi = 0
        while tt < Fr(t_end) + slack:
            if tt < Fr(t_end) - slack:
                lo += 1
            hi += 1
            kk += 1
            tt = Fr(delta) * kk
        if not (lo <= n_samples <= hi):
            fail("C17:wrong-number-of-samples", {**base, "written": n_samples, "nominal_between": [lo, hi], "delta": delta, "t_end": t_end},
                 "number of samples written differs from the number of sampling times before the end")
        stats["c17_runs_to_end"] = stats.get("c17_runs_to_end", 0) + 1
