"""Run one real JeLLyFysh simulation (built by the repository's own factory from an .ini file) in THIS process
and record a trace of every leg by wrapping bound methods of the mediator's collaborators. No source change.

Usage (always as a subprocess, because `setting`, the factory and FactorTypeMaps are process globals):
    PYTHONPATH=<scratch tree> python -m harness.runtrace job.json
job = {"ini": path relative to the tree or absolute, "overrides": {section: {key: value}}, "seed": int,
       "max_legs": int, "out": pickle path, "extras": [...names of optional recorders...]}
"""
import sys, os, json, pickle, random, configparser, tempfile, traceback, io


class StopTrace(Exception):
    pass


def tq(t):
    return None if t is None else (t.quotient, t.remainder)


def flat_units(cnodes, out=None):
    """flatten branches (root cnodes with children) to {identifier: (pos, vel, ts, charge)}"""
    if out is None:
        out = {}
    for c in cnodes:
        u = c.value
        out[tuple(u.identifier)] = (list(u.position), None if u.velocity is None else list(u.velocity),
                                    tq(u.time_stamp), None if u.charge is None else dict(u.charge))
        flat_units(c.children, out)
    return out


def install_pdb_standin():
    """MDAnalysis is not installed in this sandbox (and cannot be): register a minimal stand-in `MDAnalysis` module
    (Universe reading ATOM/HETATM/CRYST1 records of a PDB file with plain Python) so that the repository's REAL
    pdb_input_handler code runs unchanged on top of it. Only when the real import fails."""
    try:
        import MDAnalysis  # noqa
        return False
    except Exception:
        pass
    import types

    class _Atom:
        def __init__(self, id_, resid, position):
            self.id, self.resid, self.position = id_, resid, position

    class _Residue:
        def __init__(self):
            self.atoms = []

    class Universe:
        def __init__(self, filename, *a, **k):
            self.atoms, self.dimensions = [], [0.0, 0.0, 0.0, 90.0, 90.0, 90.0]
            res = {}
            with open(filename) as f:
                for line in f:
                    if line.startswith("CRYST1"):
                        self.dimensions = [float(line[6:15]), float(line[15:24]), float(line[24:33]), 90.0, 90.0, 90.0]
                    elif line.startswith(("ATOM", "HETATM")):
                        at = _Atom(int(line[6:11]), int(line[22:26]),
                                   [float(line[30:38]), float(line[38:46]), float(line[46:54])])
                        self.atoms.append(at)
                        res.setdefault(at.resid, _Residue()).atoms.append(at)
            self.residues = [res[k_] for k_ in sorted(res)]

    class Writer:
        def __init__(self, *a, **k):
            raise NotImplementedError("stand-in MDAnalysis has no Writer")

    m = types.ModuleType("MDAnalysis")
    m.Universe, m.Writer = Universe, Writer
    sys.modules["MDAnalysis"] = m
    return True


def system_lengths():
    import jellyfysh.setting as setting
    from jellyfysh.setting import hypercubic_setting, hypercuboid_setting
    if hypercuboid_setting.system_lengths is not None:
        return list(hypercuboid_setting.system_lengths)
    return [hypercubic_setting.system_length] * setting.dimension


def install_per_handler_rng(base_seed):
    """Give every event handler its own random stream (C20: 'with the same per-event-handler random streams'): class-level,
    signature-preserving wrappers around send_event_time / send_out_state swap the handler's private `random` state in and out.
    Must be installed BEFORE the mediator is built (the multi-process mediator forks in its constructor). The stream of handler
    number i (position in activator.get_event_handlers()) is seeded with base_seed*7919 + i on first use."""
    import pkgutil, importlib, functools
    import jellyfysh.event_handler as eh
    from jellyfysh.event_handler.event_handler import EventHandler
    for m in pkgutil.walk_packages(eh.__path__, eh.__name__ + "."):
        importlib.import_module(m.name)

    def subclasses(c):
        out = []
        for sc in c.__subclasses__():
            out.append(sc)
            out += subclasses(sc)
        return out

    def wrap(f):
        @functools.wraps(f)
        def w(self, *a, **k):
            d = self.__dict__
            if d.get("_verif_in"):
                return f(self, *a, **k)
            st = d.get("_verif_rng")
            if st is None:
                st = random.Random(base_seed * 7919 + d["_verif_idx"]).getstate()
            outer = random.getstate()
            random.setstate(st)
            d["_verif_in"] = True
            try:
                return f(self, *a, **k)
            finally:
                d["_verif_in"] = False
                d["_verif_rng"] = random.getstate()
                random.setstate(outer)
        w._verif_wrapped = True
        return w
    for cls in set(subclasses(EventHandler)):
        for name in ("send_event_time", "send_out_state"):
            f = cls.__dict__.get(name)
            if f is None or getattr(f, "_verif_wrapped", False) or getattr(f, "__isabstractmethod__", False):
                continue
            setattr(cls, name, wrap(f))
    # the multi-process mediator forks inside its constructor: number the handlers just before it starts its processes
    from jellyfysh.mediator.multi_process_mediator import multi_process_mediator as mpm
    orig_start = mpm.MultiProcessMediator._start_processes

    def start_processes(self):
        for i, h in enumerate(self._event_handlers_list):
            h.__dict__["_verif_idx"] = i
        return orig_start(self)
    mpm.MultiProcessMediator._start_processes = start_processes


class ScheduleShim:
    """stands in for `multiprocessing.connection` inside multi_process_mediator: `wait` blocks until every in-flight pipe is
    readable and then returns a seeded non-empty ordered sub-list of them — OS scheduling becomes a replayable adversary"""
    def __init__(self, seed):
        self.rng = random.Random(seed)
        self.mediator = None
        self.log = []

    def wait(self, pipes, timeout=None):
        from jellyfysh.mediator.multi_process_mediator.multi_process_mediator import EventHandlerState as S
        st = self.mediator._event_handlers_state
        inflight = [p for p in pipes if st[p] in (S.event_time_started, S.out_state_started)]
        for p in inflight:
            p.poll(None)
        k = self.rng.randint(1, len(inflight))
        order = self.rng.sample(inflight, k)
        self.log.append([(self.mediator._verif_hid[id(self.mediator._event_handlers[p])], st[p].name) for p in order])
        return order


def build(job, tmpdir):
    import jellyfysh
    from jellyfysh.base import factory
    from jellyfysh.base.strings import to_camel_case
    root = os.path.dirname(os.path.dirname(os.path.abspath(jellyfysh.__file__)))
    config = configparser.ConfigParser()
    if job.get("ini_text"):
        config.read_string(job["ini_text"])      # harness-built configuration (same sections as the shipped files)
    else:
        ini = job["ini"] if os.path.isabs(job["ini"]) else os.path.join(root, "jellyfysh", job["ini"])
        assert config.read(ini), ini
    for sec, kv in (job.get("overrides") or {}).items():
        if not config.has_section(sec):
            config.add_section(sec)
        for k, v in kv.items():
            if v is None:
                config.remove_option(sec, k)
            else:
                config.set(sec, k, str(v))
    # file names in the .ini are relative to the jellyfysh package directory of the (private) scratch tree
    os.chdir(os.path.join(root, "jellyfysh"))
    if job.get("mp"):
        # same configuration under the multi-process mediator
        sec = dict(config.items("SingleProcessMediator"))
        config.set("Run", "mediator", "multi_process_mediator")
        config.add_section("MultiProcessMediator")
        for k, v in sec.items():
            config.set("MultiProcessMediator", k, v)
        config.set("MultiProcessMediator", "number_cores", str(job["mp"]["cores"]))
    standin = False
    if any("pdb_input_handler" in v for sec in config.sections() for _, v in config.items(sec)):
        standin = install_pdb_standin()
    factory.build_from_config(config, to_camel_case(config.get("Run", "setting")), "jellyfysh.setting")
    mediator = factory.build_from_config(config, to_camel_case(config.get("Run", "mediator")), "jellyfysh.mediator")
    return mediator, config, standin


def record(job):
    """normal mode: build the mediator from the .ini with the repository's factory (as run.py does), instrument, run"""
    import jellyfysh
    seed = job.get("seed", 0)
    tmpdir = tempfile.mkdtemp(prefix="jfrun_")
    random.seed(seed)
    shim = None
    if job.get("per_handler_rng"):
        install_per_handler_rng(seed)
    if job.get("mp"):
        from jellyfysh.mediator.multi_process_mediator import multi_process_mediator as mpm
        shim = ScheduleShim(job["mp"].get("schedule_seed", 0))
        mpm.connection = shim
        delay = job["mp"].get("or_clear_delay")
        if delay:
            # widen the window of the workers' or-event protocol: the or-event returned by the repository's create_or_event clears
            # itself only after a short sleep (as if the worker were descheduled between reading the two events and clearing)
            orig_create = mpm.create_or_event
            import time as _time

            def slow_create(*events):
                e = orig_create(*events)
                fast_clear = e.clear

                def clear():
                    _time.sleep(delay)
                    fast_clear()
                e.clear = clear
                return e
            mpm.create_or_event = slow_create
    mediator, config, standin = build(job, tmpdir)
    if job.get("hard_core"):
        # hard cores: a random initial configuration with two overlapping cores is not an admissible state (the potential asserts it);
        # the job is then re-run by runs.run_jobs with another seed - decided here, before the first leg, from the positions alone
        import jellyfysh.setting as _st
        us = [c.value for r_ in mediator._state_handler.extract_global_state() for c in ([r_] if not r_.children else r_.children)]
        Ls = system_lengths()
        d2 = (2.0 * float(job["hard_core"])) ** 2
        for a_ in range(len(us)):
            for b_ in range(a_ + 1, len(us)):
                s2 = 0.0
                for x, y, L_ in zip(us[a_].position, us[b_].position, Ls):
                    dd = abs(x - y) % L_
                    s2 += min(dd, L_ - dd) ** 2
                if s2 <= d2 * (1.0 + 1e-9):
                    return {"meta": {"ini": job.get("ini"), "seed": seed}, "legs": [], "writes": [], "end": "inadmissible-initial-overlap"}
    if job.get("per_handler_rng"):
        for i, h in enumerate(mediator._activator.get_event_handlers()):
            h.__dict__.setdefault("_verif_idx", i)
    trace, go = instrument(mediator, job, config, standin)
    if shim is not None:
        shim.mediator = mediator
        mediator._verif_shim = shim
        mediator._verif_hid = {id(h): i for i, h in enumerate(mediator._activator.get_event_handlers())}
    go()
    try:
        if trace["end"] == "EndOfRun" or job.get("mp"):
            mediator.post_run()
    except Exception as e:
        trace["post_run_exception"] = repr(e)
    if job.get("mp"):
        import multiprocessing, time as _t
        _t.sleep(0.05)
        trace["children_alive_after_post_run"] = len(multiprocessing.active_children())
        trace["schedule"] = shim.log[:2000]
        trace["n_waits"] = len(shim.log)
        from collections import Counter
        trace["wait_states"] = dict(Counter(stn for w in shim.log for _, stn in w))
    trace["rng_after"] = random.random()
    import shutil
    shutil.rmtree(tmpdir, ignore_errors=True)
    return trace


def record_resume(job):
    """resume mode: the repository's own jellyfysh/resume.py main() does everything (load, restore module globals and the random
    state, run, post_run); the tracer only slips its wrappers onto the loaded mediator at the moment main() calls mediator.run()"""
    import jellyfysh
    import dill
    import jellyfysh.resume as resume
    from jellyfysh.base.exceptions import EndOfRun
    os.chdir(os.path.dirname(os.path.abspath(jellyfysh.__file__)))
    standin = bool(job.get("pdb_standin"))
    if standin:
        install_pdb_standin()
    holder = {}

    class DillShim:
        def __getattr__(self, name):
            return getattr(dill, name)

        @staticmethod
        def load(file, *a, **k):
            obj = dill.load(file, *a, **k)
            mediator = obj[0]

            def traced_run():
                del mediator.__dict__["run"]
                trace, go = instrument(mediator, job, None, standin)
                holder["trace"] = trace
                go()
                if trace["end"] in ("EndOfRun", "cap"):
                    raise EndOfRun   # let resume.main() finish normally (post_run)
                raise RuntimeError("traced run ended with " + str(trace["end"]))
            mediator.__dict__["run"] = traced_run
            return obj
    resume.dill = DillShim()
    old_argv = sys.argv
    sys.argv = ["resume.py", job["resume"]]
    import contextlib
    try:
        with contextlib.redirect_stdout(io.StringIO()):
            resume.main()
    except RuntimeError as e:
        if "trace" not in holder:
            raise
    finally:
        sys.argv = old_argv
    trace = holder["trace"]
    trace["rng_after"] = random.random()
    return trace


def instrument(mediator, job, config, standin):
    import jellyfysh
    import jellyfysh.setting as setting
    from jellyfysh.base.exceptions import EndOfRun
    seed = job.get("seed", 0)
    act, sh, sch, ioh = mediator._activator, mediator._state_handler, mediator._scheduler, mediator._input_output_handler
    handlers = list(act.get_event_handlers())
    hid = {id(h): i for i, h in enumerate(handlers)}
    taggers = list(act._taggers)
    tag_of = {id(h): t.tag for t in taggers for h in t.get_event_handlers()}
    extras = set(job.get("extras") or [])
    # "however long the run is": emulate the lazy-deletion counters of the heap scheduler after `prime_counters` trashed candidates per
    # event handler (the state a production run reaches after ~4.3e9 legs: the counters cross the C `unsigned int` range a few
    # hundred legs into the traced run). Set before anything was pushed; the list scheduler has no counters.
    if job.get("prime_counters") is not None and hasattr(sch, "_minimal_valid_counter") and not job.get("resume"):
        if not sch._minimal_valid_counter:
            for h_ in handlers:
                sch._minimal_valid_counter[h_] = int(job["prime_counters"])
    import copy as _copy
    pristine = {}
    for t in taggers:
        # (taken before the first event: nothing has been deactivated yet; a resumed run has no such moment and uses its own taggers)
        pristine[id(t)] = t if job.get("resume") else _copy.copy(t)

    def snapshot():
        return flat_units(sh.extract_global_state())

    meta = {
        "ini": job["ini"], "seed": seed, "pdb_standin": standin,
        "taggers": [{"tag": t.tag, "cls": type(t).__name__, "creates": list(t.creates), "trashes": list(t.trashes),
                     "activates": list(t.activates), "deactivates": list(t.deactivates),
                     "n_handlers": len(t.get_event_handlers()),
                     "handler_cls": type(t.get_event_handlers()[0]).__name__,
                     "handler_bases": [c.__name__ for c in type(t.get_event_handlers()[0]).__mro__],
                     "internal_state_label": getattr(t, "_internal_state_label", None)} for t in taggers],
        "handlers": [(tag_of[id(h)], type(h).__name__) for h in handlers],
        "handler_nargs": [(h.number_send_event_time_arguments, h.number_send_out_state_arguments) for h in handlers],
        "number_cores": getattr(mediator, "_number_cores", None),
        "dimension": setting.dimension,
        "system_lengths": system_lengths(),
        "n_roots": setting.number_of_root_nodes, "n_per_root": setting.number_of_nodes_per_root_node,
        "levels": setting.number_of_node_levels,
        "scheduler": type(sch).__name__,
        "config": {s: dict(config.items(s)) for s in config.sections()} if config is not None else None,
    }
    trace = {"meta": meta, "initial": snapshot(), "legs": [], "writes": [], "end": None, "dumps": []}
    installed = []   # (object, attribute name, wrapper): instance attributes set by this tracer

    def install(obj, name, wrapper):
        obj.__dict__[name] = wrapper
        installed.append((obj, name, wrapper))
    dump_dir = job.get("dump_dir")
    cur = {}
    max_legs = job.get("max_legs", 10 ** 9)

    # --- wrappers -------------------------------------------------------------------------------------------
    orig_extract_active = sh.extract_active_global_state

    phase = ["committed"]

    def extract_active():
        if phase[0] != "committed":      # called mid-leg by a get_arguments_* method of the mediator
            return orig_extract_active()
        if len(trace["legs"]) >= max_legs:
            raise StopTrace()
        phase[0] = "started"
        r = orig_extract_active()
        cur.clear()
        cur.update({"active": flat_units(r), "active_roots": [tuple(c.value.identifier) for c in r],
                    "created": [], "times": {}, "trashed": [], "args": {}})
        cur["_active_obj"] = r
        sh_ = getattr(getattr(mediator, "_verif_shim", None), "log", None)
        if sh_ is not None:
            cur["_wait_mark"] = len(sh_)
        return r
    light = bool(job.get("light"))
    if not light:
        install(sh, "extract_active_global_state", extract_active)

    act_orig = [None]

    def wrap_activator():
        orig = act.get_event_handlers_to_run
        act_orig[0] = (orig, "get_event_handlers_to_run" in act.__dict__)

        def get_to_run(active_state, preceding):
            r = orig(active_state, preceding)
            cur["created"] = [(hid[id(h)], None if ids is None else [tuple(i) for i in ids]) for h, ids in r.items()]
            cur["preceding"] = None if preceding is None else hid[id(preceding)]
            # C09 oracle data: what each tagger generates from scratch now, and what is pending per tagger
            fresh, pending, activated, fresh_pristine = {}, {}, {}, {}
            for t in taggers:
                is_act = t.__dict__.get("yield_identifiers_send_event_time") is not t._deactivated_yield_identifiers_send_event_time
                activated[t.tag] = bool(is_act)
                try:
                    # what a tagger that was never deactivated generates for this state (a shallow copy taken before the run: it
                    # shares the internal state and the factor maps with the run's tagger but none of its activation history);
                    # whether the run's tagger *should* generate is decided by the oracle from the wiring's activate/deactivate lists
                    fresh_pristine[t.tag] = [None if ids is None else tuple(tuple(i) for i in ids)
                                             for ids in pristine[id(t)].yield_identifiers_send_event_time(cur["_active_obj"])]
                    # and what the run's own tagger generates now (empty while it is deactivated)
                    fresh[t.tag] = [None if ids is None else tuple(tuple(i) for i in ids)
                                    for ids in t.yield_identifiers_send_event_time(cur["_active_obj"])]
                except Exception as e:  # a tagger that cannot yield on this state (e.g. not yet started)
                    fresh[t.tag] = "exc:" + type(e).__name__
                    fresh_pristine[t.tag] = "exc:" + type(e).__name__
                pending[t.tag] = [hid[id(h)] for h in act._running_event_handlers[t]]
            cur["fresh"], cur["pending"], cur["activated"] = fresh, pending, activated
            cur["fresh_pristine"] = fresh_pristine
            if "occupancy" in extras:
                cur["occupancy"] = dump_occupancy(act)
            if act.__dict__.get("get_event_handlers_to_run") is not get_to_run:
                wrap_activator()  # TagActivator rebinds get_event_handlers_to_run on itself after the first call
            return r
        act.__dict__["get_event_handlers_to_run"] = get_to_run
    if not light:
        wrap_activator()

    orig_push = sch.push_event

    def push(event_time, handler):
        cur["times"][hid[id(handler)]] = tq(event_time)
        return orig_push(event_time, handler)
    if not light:
        install(sch, "push_event", push)

    orig_get = sch.get_succeeding_event

    def get():
        h = orig_get()
        cur["chosen"] = hid[id(h)]
        return h
    if not light:
        install(sch, "get_succeeding_event", get)

    orig_trash_sched = sch.trash_event

    def trash(handler):
        cur["trashed"].append(hid[id(handler)])
        return orig_trash_sched(handler)
    if not light:
        install(sch, "trash_event", trash)

    orig_insert = sh.insert_into_global_state
    depth = [0]

    def insert(out_state):
        if depth[0] == 0:
            cur["out"] = flat_units(out_state)
            cur["out_roots"] = [tuple(c.value.identifier) for c in out_state]
        depth[0] += 1
        try:
            r = type(sh).insert_into_global_state(sh, out_state)
        finally:
            depth[0] -= 1
        if depth[0] == 0:
            phase[0] = "committed"
            cur["post"] = snapshot()
            if hasattr(mediator, "_event_handlers_state"):
                # multi-process mediator: stage of every handler and the stored pre-computed out-states at commit time
                cur["mp_states"] = {hid[id(mediator._event_handlers[p])]: st.name for p, st in mediator._event_handlers_state.items()}
                cur["mp_out_states"] = sorted(hid[id(h)] for h in mediator._out_states)
                sh_ = getattr(getattr(mediator, "_verif_shim", None), "log", None)
                if sh_ is not None:
                    cur["mp_waits"] = sh_[cur.get("_wait_mark", 0):]
            leg = {k: v for k, v in cur.items() if not k.startswith("_")}
            leg["i"] = len(trace["legs"])
            trace["legs"].append(leg)
        return r
    if not light:
        install(sh, "insert_into_global_state", insert)

    orig_write = ioh.write

    def write(name, *args):
        rec = {"leg": len(trace["legs"]) - 1, "handler": name, "nargs": len(args)}
        if args and args[0] is mediator:
            # a dump: the pickled mediator must be the bare one, exactly as in an unobserved run -> take every wrapper of this
            # tracer off for the duration of the write, put them back afterwards; keep a copy of the dump file
            for obj, nm, w in installed:
                del obj.__dict__[nm]
            if act_orig[0] is not None:
                orig_a, was_inst = act_orig[0]
                if was_inst:
                    act.__dict__["get_event_handlers_to_run"] = orig_a
                else:
                    del act.__dict__["get_event_handlers_to_run"]
            try:
                r = orig_write(name, *args)
            finally:
                for obj, nm, w in installed:
                    obj.__dict__[nm] = w
                if act_orig[0] is not None:
                    wrap_activator()
            rec["dump"] = True
            if dump_dir:
                import shutil as _sh
                src_file = ioh._output_handlers_dictionary[name]._output_filename
                dst = os.path.join(dump_dir, "dump_%d.dat" % len(trace["dumps"]))
                _sh.copyfile(src_file, dst)
                trace["dumps"].append({"leg": rec["leg"], "file": dst})
            trace["writes"].append(rec)
            return r
        if args and isinstance(args[0], (list, tuple)) and args[0] and hasattr(args[0][0], "value"):
            rec["state"] = flat_units(args[0])
        trace["writes"].append(rec)
        return orig_write(name, *args)
    install(ioh, "write", write)

    # every exponential energy budget of a run must be drawn at the inverse temperature of the setting (rate = beta * max(0, q))
    lambdas = {}
    orig_expo = random.expovariate

    def expovariate(lambd):
        lambdas[lambd] = lambdas.get(lambd, 0) + 1
        return orig_expo(lambd)
    if not hasattr(mediator, "_event_handlers_state"):      # (workers of the multi-process mediator draw in their own processes)
        random.expovariate = expovariate
    trace["expovariate_rates"] = lambdas
    trace["beta"] = setting.beta

    def go():
        try:
            mediator.run()
            trace["end"] = "returned"
        except EndOfRun:
            trace["end"] = "EndOfRun"
        except StopTrace:
            trace["end"] = "cap"
        except Exception as e:
            trace["end"] = "exc:" + type(e).__name__
            trace["exception"] = traceback.format_exc()
    return trace, go


def dump_occupancy(act):
    out = []
    for st in act._internal_states:
        d = {"cls": type(st).__name__}
        for attr in ("_occupant_cells", "_occupants", "_surplus", "_surplus_cells", "_active_cell", "_active_unit_identifier",
                     "_active_identifier", "_active_cell_identifier"):
            if hasattr(st, attr):
                v = getattr(st, attr)
                try:
                    d[attr] = pickle.loads(pickle.dumps(v))
                except Exception:
                    d[attr] = repr(v)
        out.append(d)
    return out


def main():
    job = json.load(open(sys.argv[1]))
    # keep the run quiet
    import logging
    logging.disable(logging.CRITICAL)
    if job.get("debug_logging") and not job.get("resume"):
        # verbosity is a legitimate dimension of use (`-vv`): mediators, schedulers and the state handler cache isEnabledFor(DEBUG)
        # at construction and take other code paths then; the records go to a null sink
        logging.disable(logging.NOTSET)
        lg = logging.getLogger("jellyfysh")
        lg.setLevel(logging.DEBUG)
        lg.propagate = False
        lg.handlers = [logging.NullHandler()]
    import warnings
    warnings.simplefilter("ignore")
    try:
        tr = record_resume(job) if job.get("resume") else record(job)
    except Exception as e:
        tr = {"meta": {"ini": job.get("ini")}, "legs": [], "writes": [], "end": "build-exc:" + type(e).__name__,
              "exception": traceback.format_exc()}
    with open(job["out"], "wb") as f:
        pickle.dump(tr, f)


if __name__ == "__main__":
    main()
